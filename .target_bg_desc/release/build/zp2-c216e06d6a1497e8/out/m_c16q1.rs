use asn1rs::prelude::*;

#[asn(transparent, tag(APPLICATION(9)))]

#[derive(Default, Debug, Clone, PartialEq, Hash)]
pub struct Tapp9(#[asn(integer(0..3))] pub u8);

impl Tapp9 {
    pub const fn value_min() -> u8 {
        0
    }

    pub const fn value_max() -> u8 {
        3
    }
}

impl Tapp9 {
    pub const fn new(value: u8) -> Self {
        Self(value)
    }
}

impl ::core::ops::Deref for Tapp9 {
    type Target = u8;

    fn deref(&self) -> &u8 {
        &self.0
    }
}

impl ::core::ops::DerefMut for Tapp9 {
    fn deref_mut(&mut self) -> &mut u8 {
        &mut self.0
    }
}

impl ::core::convert::From<u8> for Tapp9 {
    fn from(value: u8) -> Self {
        Self(value)
    }
}

impl ::core::convert::From<Tapp9> for u8 {
    fn from(value: Tapp9) -> Self {
        value.0
    }
}

#[asn(sequence)]

#[derive(Default, Debug, Clone, PartialEq, Hash)]
pub struct Tsq {
    #[asn(boolean)] pub z: bool,
}

impl Tsq {
}

#[asn(choice)]

#[derive(Debug, Clone, PartialEq, Hash)]
pub enum Tcho {
    #[asn(boolean, tag(4))] M(bool),
    #[asn(integer(0..7), tag(1))] N(u8),
}

impl Tcho {
    pub fn variants() -> [Self; 2] {
        [
        Tcho::M(Default::default()),
        Tcho::N(Default::default()),
        ]
    }

    pub fn value_index(&self) -> usize {
        match self {
            Tcho::M(_) => 0,
            Tcho::N(_) => 1,
        }
    }

    pub const fn n_min() -> u8 {
        0
    }

    pub const fn n_max() -> u8 {
        7
    }
}

impl Default for Tcho {
    fn default() -> Tcho {
        Tcho::M(Default::default())
    }
}

#[asn(choice, extensible_after(N))]

#[derive(Debug, Clone, PartialEq, Hash)]
pub enum Tchox {
    #[asn(boolean, tag(PRIVATE(1)))] M(bool),
    #[asn(integer(0..7), tag(PRIVATE(3)))] N(u8),
    #[asn(null, tag(APPLICATION(2)))] O(Null),
}

impl Tchox {
    pub fn variants() -> [Self; 3] {
        [
        Tchox::M(Default::default()),
        Tchox::N(Default::default()),
        Tchox::O(Default::default()),
        ]
    }

    pub fn value_index(&self) -> usize {
        match self {
            Tchox::M(_) => 0,
            Tchox::N(_) => 1,
            Tchox::O(_) => 2,
        }
    }

    pub const fn n_min() -> u8 {
        0
    }

    pub const fn n_max() -> u8 {
        7
    }
}

impl Default for Tchox {
    fn default() -> Tchox {
        Tchox::M(Default::default())
    }
}

#[asn(set)]

#[derive(Default, Debug, Clone, PartialEq, Hash)]
pub struct Tst {
    #[asn(boolean)] pub z: bool,
}

impl Tst {
}

#[asn(sequence, tag(APPLICATION(5)))]

#[derive(Default, Debug, Clone, PartialEq, Hash)]
pub struct Ttp6p15Is {
    #[asn(integer(0..3))] pub v: u8,
}

impl Ttp6p15Is {
    pub const fn v_min() -> u8 {
        0
    }

    pub const fn v_max() -> u8 {
        3
    }
}

#[asn(set)]

#[derive(Default, Debug, Clone, PartialEq, Hash)]
pub struct Ttp6p15 {
    #[asn(integer(0..255))] pub i: u8,
    #[asn(optional(complex(Ttp6p15Is, tag(APPLICATION(5)))), tag(APPLICATION(5)))] pub is: Option<Ttp6p15Is>,
}

impl Ttp6p15 {
    pub const fn i_min() -> u8 {
        0
    }

    pub const fn i_max() -> u8 {
        255
    }
}

#[asn(set)]

#[derive(Default, Debug, Clone, PartialEq, Hash)]
pub struct Ttp7p0 {
    #[asn(optional(complex(Tapp9, tag(APPLICATION(9)))))] pub ra: Option<Tapp9>,
    #[asn(integer(0..7), tag(UNIVERSAL(30)))] pub x: u8,
}

impl Ttp7p0 {
    pub const fn x_min() -> u8 {
        0
    }

    pub const fn x_max() -> u8 {
        7
    }
}

#[asn(set)]

#[derive(Default, Debug, Clone, PartialEq, Hash)]
pub struct Ttp7p1 {
    #[asn(optional(complex(Tapp9, tag(APPLICATION(9)))))] pub ra: Option<Tapp9>,
    #[asn(optional(integer(0..15)), tag(APPLICATION(1)))] pub a: Option<u8>,
}

impl Ttp7p1 {
    pub const fn a_min() -> u8 {
        0
    }

    pub const fn a_max() -> u8 {
        15
    }
}

#[asn(set)]

#[derive(Default, Debug, Clone, PartialEq, Hash)]
pub struct Ttp7p2 {
    #[asn(optional(complex(Tapp9, tag(APPLICATION(9)))))] pub ra: Option<Tapp9>,
    #[asn(integer(0..31), tag(3))] pub c3: u8,
}

impl Ttp7p2 {
    pub const fn c3_min() -> u8 {
        0
    }

    pub const fn c3_max() -> u8 {
        31
    }
}

#[asn(set)]

#[derive(Default, Debug, Clone, PartialEq, Hash)]
pub struct Ttp7p3 {
    #[asn(optional(complex(Tapp9, tag(APPLICATION(9)))))] pub ra: Option<Tapp9>,
    #[asn(optional(integer(0..63)), tag(0))] pub c0: Option<u8>,
}

impl Ttp7p3 {
    pub const fn c0_min() -> u8 {
        0
    }

    pub const fn c0_max() -> u8 {
        63
    }
}

#[asn(set)]

#[derive(Default, Debug, Clone, PartialEq, Hash)]
pub struct Ttp7p4 {
    #[asn(optional(complex(Tapp9, tag(APPLICATION(9)))))] pub ra: Option<Tapp9>,
    #[asn(integer(0..127), tag(PRIVATE(2)))] pub p: u8,
}

impl Ttp7p4 {
    pub const fn p_min() -> u8 {
        0
    }

    pub const fn p_max() -> u8 {
        127
    }
}

#[asn(set)]

#[derive(Default, Debug, Clone, PartialEq, Hash)]
pub struct Ttp7p5 {
    #[asn(optional(complex(Tapp9, tag(APPLICATION(9)))))] pub ra: Option<Tapp9>,
    #[asn(optional(boolean))] pub b: Option<bool>,
}

impl Ttp7p5 {
}

#[asn(set)]

#[derive(Default, Debug, Clone, PartialEq, Hash)]
pub struct Ttp7p6 {
    #[asn(optional(complex(Tapp9, tag(APPLICATION(9)))))] pub ra: Option<Tapp9>,
    #[asn(integer(0..255))] pub i: u8,
}

impl Ttp7p6 {
    pub const fn i_min() -> u8 {
        0
    }

    pub const fn i_max() -> u8 {
        255
    }
}

#[asn(set)]

#[derive(Default, Debug, Clone, PartialEq, Hash)]
pub struct Ttp7p8 {
    #[asn(optional(complex(Tapp9, tag(APPLICATION(9)))))] pub ra: Option<Tapp9>,
    #[asn(complex(Tsq, tag(UNIVERSAL(16))))] pub rs: Tsq,
}

impl Ttp7p8 {
}

#[asn(set)]

#[derive(Default, Debug, Clone, PartialEq, Hash)]
pub struct Ttp7p9 {
    #[asn(optional(complex(Tapp9, tag(APPLICATION(9)))))] pub ra: Option<Tapp9>,
    #[asn(optional(complex(Tcho, tag(1))))] pub rc: Option<Tcho>,
}

impl Ttp7p9 {
}

#[asn(set)]

#[derive(Default, Debug, Clone, PartialEq, Hash)]
pub struct Ttp7p10 {
    #[asn(optional(complex(Tapp9, tag(APPLICATION(9)))))] pub ra: Option<Tapp9>,
    #[asn(complex(Tst, tag(UNIVERSAL(17))))] pub rt: Tst,
}

impl Ttp7p10 {
}

#[asn(set)]

#[derive(Default, Debug, Clone, PartialEq, Hash)]
pub struct Ttp7p11 {
    #[asn(optional(complex(Tapp9, tag(APPLICATION(9)))))] pub ra: Option<Tapp9>,
    #[asn(optional(sequence_of(size(0..3), boolean)))] pub so: Option<Vec<bool>>,
}

impl Ttp7p11 {
}

#[asn(set)]

#[derive(Default, Debug, Clone, PartialEq, Hash)]
pub struct Ttp7p12 {
    #[asn(optional(complex(Tapp9, tag(APPLICATION(9)))))] pub ra: Option<Tapp9>,
    #[asn(set_of(size(0..2), boolean))] pub st: Vec<bool>,
}

impl Ttp7p12 {
}

#[asn(set)]

#[derive(Default, Debug, Clone, PartialEq, Hash)]
pub struct Ttp7p13 {
    #[asn(optional(complex(Tapp9, tag(APPLICATION(9)))))] pub ra: Option<Tapp9>,
    #[asn(optional(complex(Tchox, tag(PRIVATE(1)))))] pub rx: Option<Tchox>,
}

impl Ttp7p13 {
}

#[asn(set)]

#[derive(Default, Debug, Clone, PartialEq, Hash)]
pub struct Ttp7p14 {
    #[asn(optional(complex(Tapp9, tag(APPLICATION(9)))))] pub ra: Option<Tapp9>,
    #[asn(integer(0..1), tag(UNIVERSAL(2)))] pub u2: u8,
}

impl Ttp7p14 {
    pub const fn u2_min() -> u8 {
        0
    }

    pub const fn u2_max() -> u8 {
        1
    }
}

#[asn(sequence, tag(APPLICATION(5)))]

#[derive(Default, Debug, Clone, PartialEq, Hash)]
pub struct Ttp7p15Is {
    #[asn(integer(0..3))] pub v: u8,
}

impl Ttp7p15Is {
    pub const fn v_min() -> u8 {
        0
    }

    pub const fn v_max() -> u8 {
        3
    }
}

#[asn(set)]

#[derive(Default, Debug, Clone, PartialEq, Hash)]
pub struct Ttp7p15 {
    #[asn(optional(complex(Tapp9, tag(APPLICATION(9)))))] pub ra: Option<Tapp9>,
    #[asn(optional(complex(Ttp7p15Is, tag(APPLICATION(5)))), tag(APPLICATION(5)))] pub is: Option<Ttp7p15Is>,
}

impl Ttp7p15 {
}

#[asn(set)]

#[derive(Default, Debug, Clone, PartialEq, Hash)]
pub struct Ttp8p0 {
    #[asn(complex(Tsq, tag(UNIVERSAL(16))))] pub rs: Tsq,
    #[asn(integer(0..7), tag(UNIVERSAL(30)))] pub x: u8,
}

impl Ttp8p0 {
    pub const fn x_min() -> u8 {
        0
    }

    pub const fn x_max() -> u8 {
        7
    }
}

#[asn(set)]

#[derive(Default, Debug, Clone, PartialEq, Hash)]
pub struct Ttp8p1 {
    #[asn(complex(Tsq, tag(UNIVERSAL(16))))] pub rs: Tsq,
    #[asn(optional(integer(0..15)), tag(APPLICATION(1)))] pub a: Option<u8>,
}

impl Ttp8p1 {
    pub const fn a_min() -> u8 {
        0
    }

    pub const fn a_max() -> u8 {
        15
    }
}

#[asn(set)]

#[derive(Default, Debug, Clone, PartialEq, Hash)]
pub struct Ttp8p2 {
    #[asn(complex(Tsq, tag(UNIVERSAL(16))))] pub rs: Tsq,
    #[asn(integer(0..31), tag(3))] pub c3: u8,
}

impl Ttp8p2 {
    pub const fn c3_min() -> u8 {
        0
    }

    pub const fn c3_max() -> u8 {
        31
    }
}

#[asn(set)]

#[derive(Default, Debug, Clone, PartialEq, Hash)]
pub struct Ttp8p3 {
    #[asn(complex(Tsq, tag(UNIVERSAL(16))))] pub rs: Tsq,
    #[asn(optional(integer(0..63)), tag(0))] pub c0: Option<u8>,
}

impl Ttp8p3 {
    pub const fn c0_min() -> u8 {
        0
    }

    pub const fn c0_max() -> u8 {
        63
    }
}

#[asn(set)]

#[derive(Default, Debug, Clone, PartialEq, Hash)]
pub struct Ttp8p4 {
    #[asn(complex(Tsq, tag(UNIVERSAL(16))))] pub rs: Tsq,
    #[asn(integer(0..127), tag(PRIVATE(2)))] pub p: u8,
}

impl Ttp8p4 {
    pub const fn p_min() -> u8 {
        0
    }

    pub const fn p_max() -> u8 {
        127
    }
}

#[asn(set)]

#[derive(Default, Debug, Clone, PartialEq, Hash)]
pub struct Ttp8p5 {
    #[asn(complex(Tsq, tag(UNIVERSAL(16))))] pub rs: Tsq,
    #[asn(optional(boolean))] pub b: Option<bool>,
}

impl Ttp8p5 {
}

#[asn(set)]

#[derive(Default, Debug, Clone, PartialEq, Hash)]
pub struct Ttp8p6 {
    #[asn(complex(Tsq, tag(UNIVERSAL(16))))] pub rs: Tsq,
    #[asn(integer(0..255))] pub i: u8,
}

impl Ttp8p6 {
    pub const fn i_min() -> u8 {
        0
    }

    pub const fn i_max() -> u8 {
        255
    }
}

#[asn(set)]

#[derive(Default, Debug, Clone, PartialEq, Hash)]
pub struct Ttp8p7 {
    #[asn(complex(Tsq, tag(UNIVERSAL(16))))] pub rs: Tsq,
    #[asn(optional(complex(Tapp9, tag(APPLICATION(9)))))] pub ra: Option<Tapp9>,
}

impl Ttp8p7 {
}

#[asn(set)]

#[derive(Default, Debug, Clone, PartialEq, Hash)]
pub struct Ttp8p9 {
    #[asn(complex(Tsq, tag(UNIVERSAL(16))))] pub rs: Tsq,
    #[asn(optional(complex(Tcho, tag(1))))] pub rc: Option<Tcho>,
}

impl Ttp8p9 {
}

#[asn(set)]

#[derive(Default, Debug, Clone, PartialEq, Hash)]
pub struct Ttp8p10 {
    #[asn(complex(Tsq, tag(UNIVERSAL(16))))] pub rs: Tsq,
    #[asn(complex(Tst, tag(UNIVERSAL(17))))] pub rt: Tst,
}

impl Ttp8p10 {
}

#[asn(set)]

#[derive(Default, Debug, Clone, PartialEq, Hash)]
pub struct Ttp8p11 {
    #[asn(complex(Tsq, tag(UNIVERSAL(16))))] pub rs: Tsq,
    #[asn(optional(sequence_of(size(0..3), boolean)))] pub so: Option<Vec<bool>>,
}

impl Ttp8p11 {
}

#[asn(set)]

#[derive(Default, Debug, Clone, PartialEq, Hash)]
pub struct Ttp8p12 {
    #[asn(complex(Tsq, tag(UNIVERSAL(16))))] pub rs: Tsq,
    #[asn(set_of(size(0..2), boolean))] pub st: Vec<bool>,
}

impl Ttp8p12 {
}

#[asn(set)]

#[derive(Default, Debug, Clone, PartialEq, Hash)]
pub struct Ttp8p13 {
    #[asn(complex(Tsq, tag(UNIVERSAL(16))))] pub rs: Tsq,
    #[asn(optional(complex(Tchox, tag(PRIVATE(1)))))] pub rx: Option<Tchox>,
}

impl Ttp8p13 {
}

#[asn(set)]

#[derive(Default, Debug, Clone, PartialEq, Hash)]
pub struct Ttp8p14 {
    #[asn(complex(Tsq, tag(UNIVERSAL(16))))] pub rs: Tsq,
    #[asn(integer(0..1), tag(UNIVERSAL(2)))] pub u2: u8,
}

impl Ttp8p14 {
    pub const fn u2_min() -> u8 {
        0
    }

    pub const fn u2_max() -> u8 {
        1
    }
}

#[asn(sequence, tag(APPLICATION(5)))]

#[derive(Default, Debug, Clone, PartialEq, Hash)]
pub struct Ttp8p15Is {
    #[asn(integer(0..3))] pub v: u8,
}

impl Ttp8p15Is {
    pub const fn v_min() -> u8 {
        0
    }

    pub const fn v_max() -> u8 {
        3
    }
}

#[asn(set)]

#[derive(Default, Debug, Clone, PartialEq, Hash)]
pub struct Ttp8p15 {
    #[asn(complex(Tsq, tag(UNIVERSAL(16))))] pub rs: Tsq,
    #[asn(optional(complex(Ttp8p15Is, tag(APPLICATION(5)))), tag(APPLICATION(5)))] pub is: Option<Ttp8p15Is>,
}

impl Ttp8p15 {
}

#[asn(set)]

#[derive(Default, Debug, Clone, PartialEq, Hash)]
pub struct Ttp9p0 {
    #[asn(optional(complex(Tcho, tag(1))))] pub rc: Option<Tcho>,
    #[asn(integer(0..7), tag(UNIVERSAL(30)))] pub x: u8,
}

impl Ttp9p0 {
    pub const fn x_min() -> u8 {
        0
    }

    pub const fn x_max() -> u8 {
        7
    }
}

#[asn(set)]

#[derive(Default, Debug, Clone, PartialEq, Hash)]
pub struct Ttp9p1 {
    #[asn(optional(complex(Tcho, tag(1))))] pub rc: Option<Tcho>,
    #[asn(optional(integer(0..15)), tag(APPLICATION(1)))] pub a: Option<u8>,
}

impl Ttp9p1 {
    pub const fn a_min() -> u8 {
        0
    }

    pub const fn a_max() -> u8 {
        15
    }
}

#[asn(set)]

#[derive(Default, Debug, Clone, PartialEq, Hash)]
pub struct Ttp9p2 {
    #[asn(optional(complex(Tcho, tag(1))))] pub rc: Option<Tcho>,
    #[asn(integer(0..31), tag(3))] pub c3: u8,
}

impl Ttp9p2 {
    pub const fn c3_min() -> u8 {
        0
    }

    pub const fn c3_max() -> u8 {
        31
    }
}

#[asn(set)]

#[derive(Default, Debug, Clone, PartialEq, Hash)]
pub struct Ttp9p3 {
    #[asn(optional(complex(Tcho, tag(1))))] pub rc: Option<Tcho>,
    #[asn(optional(integer(0..63)), tag(0))] pub c0: Option<u8>,
}

impl Ttp9p3 {
    pub const fn c0_min() -> u8 {
        0
    }

    pub const fn c0_max() -> u8 {
        63
    }
}

#[asn(set)]

#[derive(Default, Debug, Clone, PartialEq, Hash)]
pub struct Ttp9p4 {
    #[asn(optional(complex(Tcho, tag(1))))] pub rc: Option<Tcho>,
    #[asn(integer(0..127), tag(PRIVATE(2)))] pub p: u8,
}

impl Ttp9p4 {
    pub const fn p_min() -> u8 {
        0
    }

    pub const fn p_max() -> u8 {
        127
    }
}

#[asn(set)]

#[derive(Default, Debug, Clone, PartialEq, Hash)]
pub struct Ttp9p5 {
    #[asn(optional(complex(Tcho, tag(1))))] pub rc: Option<Tcho>,
    #[asn(optional(boolean))] pub b: Option<bool>,
}

impl Ttp9p5 {
}

#[asn(set)]

#[derive(Default, Debug, Clone, PartialEq, Hash)]
pub struct Ttp9p6 {
    #[asn(optional(complex(Tcho, tag(1))))] pub rc: Option<Tcho>,
    #[asn(integer(0..255))] pub i: u8,
}

impl Ttp9p6 {
    pub const fn i_min() -> u8 {
        0
    }

    pub const fn i_max() -> u8 {
        255
    }
}

#[asn(set)]

#[derive(Default, Debug, Clone, PartialEq, Hash)]
pub struct Ttp9p7 {
    #[asn(optional(complex(Tcho, tag(1))))] pub rc: Option<Tcho>,
    #[asn(optional(complex(Tapp9, tag(APPLICATION(9)))))] pub ra: Option<Tapp9>,
}

impl Ttp9p7 {
}

#[asn(set)]

#[derive(Default, Debug, Clone, PartialEq, Hash)]
pub struct Ttp9p8 {
    #[asn(optional(complex(Tcho, tag(1))))] pub rc: Option<Tcho>,
    #[asn(complex(Tsq, tag(UNIVERSAL(16))))] pub rs: Tsq,
}

impl Ttp9p8 {
}

#[asn(set)]

#[derive(Default, Debug, Clone, PartialEq, Hash)]
pub struct Ttp9p10 {
    #[asn(optional(complex(Tcho, tag(1))))] pub rc: Option<Tcho>,
    #[asn(complex(Tst, tag(UNIVERSAL(17))))] pub rt: Tst,
}

impl Ttp9p10 {
}

#[asn(set)]

#[derive(Default, Debug, Clone, PartialEq, Hash)]
pub struct Ttp9p11 {
    #[asn(optional(complex(Tcho, tag(1))))] pub rc: Option<Tcho>,
    #[asn(optional(sequence_of(size(0..3), boolean)))] pub so: Option<Vec<bool>>,
}

impl Ttp9p11 {
}

#[asn(set)]

#[derive(Default, Debug, Clone, PartialEq, Hash)]
pub struct Ttp9p12 {
    #[asn(optional(complex(Tcho, tag(1))))] pub rc: Option<Tcho>,
    #[asn(set_of(size(0..2), boolean))] pub st: Vec<bool>,
}

impl Ttp9p12 {
}

#[asn(set)]

#[derive(Default, Debug, Clone, PartialEq, Hash)]
pub struct Ttp9p13 {
    #[asn(optional(complex(Tcho, tag(1))))] pub rc: Option<Tcho>,
    #[asn(optional(complex(Tchox, tag(PRIVATE(1)))))] pub rx: Option<Tchox>,
}

impl Ttp9p13 {
}

#[asn(set)]

#[derive(Default, Debug, Clone, PartialEq, Hash)]
pub struct Ttp9p14 {
    #[asn(optional(complex(Tcho, tag(1))))] pub rc: Option<Tcho>,
    #[asn(integer(0..1), tag(UNIVERSAL(2)))] pub u2: u8,
}

impl Ttp9p14 {
    pub const fn u2_min() -> u8 {
        0
    }

    pub const fn u2_max() -> u8 {
        1
    }
}

#[asn(sequence, tag(APPLICATION(5)))]

#[derive(Default, Debug, Clone, PartialEq, Hash)]
pub struct Ttp9p15Is {
    #[asn(integer(0..3))] pub v: u8,
}

impl Ttp9p15Is {
    pub const fn v_min() -> u8 {
        0
    }

    pub const fn v_max() -> u8 {
        3
    }
}

#[asn(set)]

#[derive(Default, Debug, Clone, PartialEq, Hash)]
pub struct Ttp9p15 {
    #[asn(optional(complex(Tcho, tag(1))))] pub rc: Option<Tcho>,
    #[asn(optional(complex(Ttp9p15Is, tag(APPLICATION(5)))), tag(APPLICATION(5)))] pub is: Option<Ttp9p15Is>,
}

impl Ttp9p15 {
}

#[asn(set)]

#[derive(Default, Debug, Clone, PartialEq, Hash)]
pub struct Ttp10p0 {
    #[asn(complex(Tst, tag(UNIVERSAL(17))))] pub rt: Tst,
    #[asn(integer(0..7), tag(UNIVERSAL(30)))] pub x: u8,
}

impl Ttp10p0 {
    pub const fn x_min() -> u8 {
        0
    }

    pub const fn x_max() -> u8 {
        7
    }
}

#[asn(set)]

#[derive(Default, Debug, Clone, PartialEq, Hash)]
pub struct Ttp10p1 {
    #[asn(complex(Tst, tag(UNIVERSAL(17))))] pub rt: Tst,
    #[asn(optional(integer(0..15)), tag(APPLICATION(1)))] pub a: Option<u8>,
}

impl Ttp10p1 {
    pub const fn a_min() -> u8 {
        0
    }

    pub const fn a_max() -> u8 {
        15
    }
}

#[asn(set)]

#[derive(Default, Debug, Clone, PartialEq, Hash)]
pub struct Ttp10p2 {
    #[asn(complex(Tst, tag(UNIVERSAL(17))))] pub rt: Tst,
    #[asn(integer(0..31), tag(3))] pub c3: u8,
}

impl Ttp10p2 {
    pub const fn c3_min() -> u8 {
        0
    }

    pub const fn c3_max() -> u8 {
        31
    }
}

#[asn(set)]

#[derive(Default, Debug, Clone, PartialEq, Hash)]
pub struct Ttp10p3 {
    #[asn(complex(Tst, tag(UNIVERSAL(17))))] pub rt: Tst,
    #[asn(optional(integer(0..63)), tag(0))] pub c0: Option<u8>,
}

impl Ttp10p3 {
    pub const fn c0_min() -> u8 {
        0
    }

    pub const fn c0_max() -> u8 {
        63
    }
}

#[asn(set)]

#[derive(Default, Debug, Clone, PartialEq, Hash)]
pub struct Ttp10p4 {
    #[asn(complex(Tst, tag(UNIVERSAL(17))))] pub rt: Tst,
    #[asn(integer(0..127), tag(PRIVATE(2)))] pub p: u8,
}

impl Ttp10p4 {
    pub const fn p_min() -> u8 {
        0
    }

    pub const fn p_max() -> u8 {
        127
    }
}

#[asn(set)]

#[derive(Default, Debug, Clone, PartialEq, Hash)]
pub struct Ttp10p5 {
    #[asn(complex(Tst, tag(UNIVERSAL(17))))] pub rt: Tst,
    #[asn(optional(boolean))] pub b: Option<bool>,
}

impl Ttp10p5 {
}

#[asn(set)]

#[derive(Default, Debug, Clone, PartialEq, Hash)]
pub struct Ttp10p6 {
    #[asn(complex(Tst, tag(UNIVERSAL(17))))] pub rt: Tst,
    #[asn(integer(0..255))] pub i: u8,
}

impl Ttp10p6 {
    pub const fn i_min() -> u8 {
        0
    }

    pub const fn i_max() -> u8 {
        255
    }
}

#[asn(set)]

#[derive(Default, Debug, Clone, PartialEq, Hash)]
pub struct Ttp10p7 {
    #[asn(complex(Tst, tag(UNIVERSAL(17))))] pub rt: Tst,
    #[asn(optional(complex(Tapp9, tag(APPLICATION(9)))))] pub ra: Option<Tapp9>,
}

impl Ttp10p7 {
}

#[asn(set)]

#[derive(Default, Debug, Clone, PartialEq, Hash)]
pub struct Ttp10p8 {
    #[asn(complex(Tst, tag(UNIVERSAL(17))))] pub rt: Tst,
    #[asn(complex(Tsq, tag(UNIVERSAL(16))))] pub rs: Tsq,
}

impl Ttp10p8 {
}

#[asn(set)]

#[derive(Default, Debug, Clone, PartialEq, Hash)]
pub struct Ttp10p9 {
    #[asn(complex(Tst, tag(UNIVERSAL(17))))] pub rt: Tst,
    #[asn(optional(complex(Tcho, tag(1))))] pub rc: Option<Tcho>,
}

impl Ttp10p9 {
}

#[asn(set)]

#[derive(Default, Debug, Clone, PartialEq, Hash)]
pub struct Ttp10p11 {
    #[asn(complex(Tst, tag(UNIVERSAL(17))))] pub rt: Tst,
    #[asn(optional(sequence_of(size(0..3), boolean)))] pub so: Option<Vec<bool>>,
}

impl Ttp10p11 {
}

#[asn(set)]

#[derive(Default, Debug, Clone, PartialEq, Hash)]
pub struct Ttp10p12 {
    #[asn(complex(Tst, tag(UNIVERSAL(17))))] pub rt: Tst,
    #[asn(set_of(size(0..2), boolean))] pub st: Vec<bool>,
}

impl Ttp10p12 {
}

#[asn(set)]

#[derive(Default, Debug, Clone, PartialEq, Hash)]
pub struct Ttp10p13 {
    #[asn(complex(Tst, tag(UNIVERSAL(17))))] pub rt: Tst,
    #[asn(optional(complex(Tchox, tag(PRIVATE(1)))))] pub rx: Option<Tchox>,
}

impl Ttp10p13 {
}

#[asn(set)]

#[derive(Default, Debug, Clone, PartialEq, Hash)]
pub struct Ttp10p14 {
    #[asn(complex(Tst, tag(UNIVERSAL(17))))] pub rt: Tst,
    #[asn(integer(0..1), tag(UNIVERSAL(2)))] pub u2: u8,
}

impl Ttp10p14 {
    pub const fn u2_min() -> u8 {
        0
    }

    pub const fn u2_max() -> u8 {
        1
    }
}

#[asn(sequence, tag(APPLICATION(5)))]

#[derive(Default, Debug, Clone, PartialEq, Hash)]
pub struct Ttp10p15Is {
    #[asn(integer(0..3))] pub v: u8,
}

impl Ttp10p15Is {
    pub const fn v_min() -> u8 {
        0
    }

    pub const fn v_max() -> u8 {
        3
    }
}

#[asn(set)]

#[derive(Default, Debug, Clone, PartialEq, Hash)]
pub struct Ttp10p15 {
    #[asn(complex(Tst, tag(UNIVERSAL(17))))] pub rt: Tst,
    #[asn(optional(complex(Ttp10p15Is, tag(APPLICATION(5)))), tag(APPLICATION(5)))] pub is: Option<Ttp10p15Is>,
}

impl Ttp10p15 {
}

#[asn(set)]

#[derive(Default, Debug, Clone, PartialEq, Hash)]
pub struct Ttp11p0 {
    #[asn(optional(sequence_of(size(0..3), boolean)))] pub so: Option<Vec<bool>>,
    #[asn(integer(0..7), tag(UNIVERSAL(30)))] pub x: u8,
}

impl Ttp11p0 {
    pub const fn x_min() -> u8 {
        0
    }

    pub const fn x_max() -> u8 {
        7
    }
}

#[asn(set)]

#[derive(Default, Debug, Clone, PartialEq, Hash)]
pub struct Ttp11p1 {
    #[asn(optional(sequence_of(size(0..3), boolean)))] pub so: Option<Vec<bool>>,
    #[asn(optional(integer(0..15)), tag(APPLICATION(1)))] pub a: Option<u8>,
}

impl Ttp11p1 {
    pub const fn a_min() -> u8 {
        0
    }

    pub const fn a_max() -> u8 {
        15
    }
}

#[asn(set)]

#[derive(Default, Debug, Clone, PartialEq, Hash)]
pub struct Ttp11p2 {
    #[asn(optional(sequence_of(size(0..3), boolean)))] pub so: Option<Vec<bool>>,
    #[asn(integer(0..31), tag(3))] pub c3: u8,
}

impl Ttp11p2 {
    pub const fn c3_min() -> u8 {
        0
    }

    pub const fn c3_max() -> u8 {
        31
    }
}

#[asn(set)]

#[derive(Default, Debug, Clone, PartialEq, Hash)]
pub struct Ttp11p3 {
    #[asn(optional(sequence_of(size(0..3), boolean)))] pub so: Option<Vec<bool>>,
    #[asn(optional(integer(0..63)), tag(0))] pub c0: Option<u8>,
}

impl Ttp11p3 {
    pub const fn c0_min() -> u8 {
        0
    }

    pub const fn c0_max() -> u8 {
        63
    }
}

#[asn(set)]

#[derive(Default, Debug, Clone, PartialEq, Hash)]
pub struct Ttp11p4 {
    #[asn(optional(sequence_of(size(0..3), boolean)))] pub so: Option<Vec<bool>>,
    #[asn(integer(0..127), tag(PRIVATE(2)))] pub p: u8,
}

impl Ttp11p4 {
    pub const fn p_min() -> u8 {
        0
    }

    pub const fn p_max() -> u8 {
        127
    }
}

#[asn(set)]

#[derive(Default, Debug, Clone, PartialEq, Hash)]
pub struct Ttp11p5 {
    #[asn(optional(sequence_of(size(0..3), boolean)))] pub so: Option<Vec<bool>>,
    #[asn(optional(boolean))] pub b: Option<bool>,
}

impl Ttp11p5 {
}

#[asn(set)]

#[derive(Default, Debug, Clone, PartialEq, Hash)]
pub struct Ttp11p6 {
    #[asn(optional(sequence_of(size(0..3), boolean)))] pub so: Option<Vec<bool>>,
    #[asn(integer(0..255))] pub i: u8,
}

impl Ttp11p6 {
    pub const fn i_min() -> u8 {
        0
    }

    pub const fn i_max() -> u8 {
        255
    }
}

#[asn(set)]

#[derive(Default, Debug, Clone, PartialEq, Hash)]
pub struct Ttp11p7 {
    #[asn(optional(sequence_of(size(0..3), boolean)))] pub so: Option<Vec<bool>>,
    #[asn(optional(complex(Tapp9, tag(APPLICATION(9)))))] pub ra: Option<Tapp9>,
}

impl Ttp11p7 {
}

#[asn(set)]

#[derive(Default, Debug, Clone, PartialEq, Hash)]
pub struct Ttp11p8 {
    #[asn(optional(sequence_of(size(0..3), boolean)))] pub so: Option<Vec<bool>>,
    #[asn(complex(Tsq, tag(UNIVERSAL(16))))] pub rs: Tsq,
}

impl Ttp11p8 {
}

#[asn(set)]

#[derive(Default, Debug, Clone, PartialEq, Hash)]
pub struct Ttp11p9 {
    #[asn(optional(sequence_of(size(0..3), boolean)))] pub so: Option<Vec<bool>>,
    #[asn(optional(complex(Tcho, tag(1))))] pub rc: Option<Tcho>,
}

impl Ttp11p9 {
}

#[asn(set)]

#[derive(Default, Debug, Clone, PartialEq, Hash)]
pub struct Ttp11p10 {
    #[asn(optional(sequence_of(size(0..3), boolean)))] pub so: Option<Vec<bool>>,
    #[asn(complex(Tst, tag(UNIVERSAL(17))))] pub rt: Tst,
}

impl Ttp11p10 {
}

#[asn(set)]

#[derive(Default, Debug, Clone, PartialEq, Hash)]
pub struct Ttp11p12 {
    #[asn(optional(sequence_of(size(0..3), boolean)))] pub so: Option<Vec<bool>>,
    #[asn(set_of(size(0..2), boolean))] pub st: Vec<bool>,
}

impl Ttp11p12 {
}

#[asn(set)]

#[derive(Default, Debug, Clone, PartialEq, Hash)]
pub struct Ttp11p13 {
    #[asn(optional(sequence_of(size(0..3), boolean)))] pub so: Option<Vec<bool>>,
    #[asn(optional(complex(Tchox, tag(PRIVATE(1)))))] pub rx: Option<Tchox>,
}

impl Ttp11p13 {
}

#[asn(set)]

#[derive(Default, Debug, Clone, PartialEq, Hash)]
pub struct Ttp11p14 {
    #[asn(optional(sequence_of(size(0..3), boolean)))] pub so: Option<Vec<bool>>,
    #[asn(integer(0..1), tag(UNIVERSAL(2)))] pub u2: u8,
}

impl Ttp11p14 {
    pub const fn u2_min() -> u8 {
        0
    }

    pub const fn u2_max() -> u8 {
        1
    }
}

#[asn(sequence, tag(APPLICATION(5)))]

#[derive(Default, Debug, Clone, PartialEq, Hash)]
pub struct Ttp11p15Is {
    #[asn(integer(0..3))] pub v: u8,
}

impl Ttp11p15Is {
    pub const fn v_min() -> u8 {
        0
    }

    pub const fn v_max() -> u8 {
        3
    }
}

#[asn(set)]

#[derive(Default, Debug, Clone, PartialEq, Hash)]
pub struct Ttp11p15 {
    #[asn(optional(sequence_of(size(0..3), boolean)))] pub so: Option<Vec<bool>>,
    #[asn(optional(complex(Ttp11p15Is, tag(APPLICATION(5)))), tag(APPLICATION(5)))] pub is: Option<Ttp11p15Is>,
}

impl Ttp11p15 {
}

#[asn(set)]

#[derive(Default, Debug, Clone, PartialEq, Hash)]
pub struct Ttp12p0 {
    #[asn(set_of(size(0..2), boolean))] pub st: Vec<bool>,
    #[asn(integer(0..7), tag(UNIVERSAL(30)))] pub x: u8,
}

impl Ttp12p0 {
    pub const fn x_min() -> u8 {
        0
    }

    pub const fn x_max() -> u8 {
        7
    }
}

#[asn(set)]

#[derive(Default, Debug, Clone, PartialEq, Hash)]
pub struct Ttp12p1 {
    #[asn(set_of(size(0..2), boolean))] pub st: Vec<bool>,
    #[asn(optional(integer(0..15)), tag(APPLICATION(1)))] pub a: Option<u8>,
}

impl Ttp12p1 {
    pub const fn a_min() -> u8 {
        0
    }

    pub const fn a_max() -> u8 {
        15
    }
}

#[asn(set)]

#[derive(Default, Debug, Clone, PartialEq, Hash)]
pub struct Ttp12p2 {
    #[asn(set_of(size(0..2), boolean))] pub st: Vec<bool>,
    #[asn(integer(0..31), tag(3))] pub c3: u8,
}

impl Ttp12p2 {
    pub const fn c3_min() -> u8 {
        0
    }

    pub const fn c3_max() -> u8 {
        31
    }
}

#[asn(set)]

#[derive(Default, Debug, Clone, PartialEq, Hash)]
pub struct Ttp12p3 {
    #[asn(set_of(size(0..2), boolean))] pub st: Vec<bool>,
    #[asn(optional(integer(0..63)), tag(0))] pub c0: Option<u8>,
}

impl Ttp12p3 {
    pub const fn c0_min() -> u8 {
        0
    }

    pub const fn c0_max() -> u8 {
        63
    }
}

#[asn(set)]

#[derive(Default, Debug, Clone, PartialEq, Hash)]
pub struct Ttp12p4 {
    #[asn(set_of(size(0..2), boolean))] pub st: Vec<bool>,
    #[asn(integer(0..127), tag(PRIVATE(2)))] pub p: u8,
}

impl Ttp12p4 {
    pub const fn p_min() -> u8 {
        0
    }

    pub const fn p_max() -> u8 {
        127
    }
}

#[asn(set)]

#[derive(Default, Debug, Clone, PartialEq, Hash)]
pub struct Ttp12p5 {
    #[asn(set_of(size(0..2), boolean))] pub st: Vec<bool>,
    #[asn(optional(boolean))] pub b: Option<bool>,
}

impl Ttp12p5 {
}

#[asn(set)]

#[derive(Default, Debug, Clone, PartialEq, Hash)]
pub struct Ttp12p6 {
    #[asn(set_of(size(0..2), boolean))] pub st: Vec<bool>,
    #[asn(integer(0..255))] pub i: u8,
}

impl Ttp12p6 {
    pub const fn i_min() -> u8 {
        0
    }

    pub const fn i_max() -> u8 {
        255
    }
}

#[asn(set)]

#[derive(Default, Debug, Clone, PartialEq, Hash)]
pub struct Ttp12p7 {
    #[asn(set_of(size(0..2), boolean))] pub st: Vec<bool>,
    #[asn(optional(complex(Tapp9, tag(APPLICATION(9)))))] pub ra: Option<Tapp9>,
}

impl Ttp12p7 {
}

#[asn(set)]

#[derive(Default, Debug, Clone, PartialEq, Hash)]
pub struct Ttp12p8 {
    #[asn(set_of(size(0..2), boolean))] pub st: Vec<bool>,
    #[asn(complex(Tsq, tag(UNIVERSAL(16))))] pub rs: Tsq,
}

impl Ttp12p8 {
}

#[asn(set)]

#[derive(Default, Debug, Clone, PartialEq, Hash)]
pub struct Ttp12p9 {
    #[asn(set_of(size(0..2), boolean))] pub st: Vec<bool>,
    #[asn(optional(complex(Tcho, tag(1))))] pub rc: Option<Tcho>,
}

impl Ttp12p9 {
}

#[asn(set)]

#[derive(Default, Debug, Clone, PartialEq, Hash)]
pub struct Ttp12p10 {
    #[asn(set_of(size(0..2), boolean))] pub st: Vec<bool>,
    #[asn(complex(Tst, tag(UNIVERSAL(17))))] pub rt: Tst,
}

impl Ttp12p10 {
}

#[asn(set)]

#[derive(Default, Debug, Clone, PartialEq, Hash)]
pub struct Ttp12p11 {
    #[asn(set_of(size(0..2), boolean))] pub st: Vec<bool>,
    #[asn(optional(sequence_of(size(0..3), boolean)))] pub so: Option<Vec<bool>>,
}

impl Ttp12p11 {
}

#[asn(set)]

#[derive(Default, Debug, Clone, PartialEq, Hash)]
pub struct Ttp12p13 {
    #[asn(set_of(size(0..2), boolean))] pub st: Vec<bool>,
    #[asn(optional(complex(Tchox, tag(PRIVATE(1)))))] pub rx: Option<Tchox>,
}

impl Ttp12p13 {
}

#[asn(set)]

#[derive(Default, Debug, Clone, PartialEq, Hash)]
pub struct Ttp12p14 {
    #[asn(set_of(size(0..2), boolean))] pub st: Vec<bool>,
    #[asn(integer(0..1), tag(UNIVERSAL(2)))] pub u2: u8,
}

impl Ttp12p14 {
    pub const fn u2_min() -> u8 {
        0
    }

    pub const fn u2_max() -> u8 {
        1
    }
}

#[asn(sequence, tag(APPLICATION(5)))]

#[derive(Default, Debug, Clone, PartialEq, Hash)]
pub struct Ttp12p15Is {
    #[asn(integer(0..3))] pub v: u8,
}

impl Ttp12p15Is {
    pub const fn v_min() -> u8 {
        0
    }

    pub const fn v_max() -> u8 {
        3
    }
}

#[asn(set)]

#[derive(Default, Debug, Clone, PartialEq, Hash)]
pub struct Ttp12p15 {
    #[asn(set_of(size(0..2), boolean))] pub st: Vec<bool>,
    #[asn(optional(complex(Ttp12p15Is, tag(APPLICATION(5)))), tag(APPLICATION(5)))] pub is: Option<Ttp12p15Is>,
}

impl Ttp12p15 {
}

#[asn(set)]

#[derive(Default, Debug, Clone, PartialEq, Hash)]
pub struct Ttp13p0 {
    #[asn(optional(complex(Tchox, tag(PRIVATE(1)))))] pub rx: Option<Tchox>,
    #[asn(integer(0..7), tag(UNIVERSAL(30)))] pub x: u8,
}

impl Ttp13p0 {
    pub const fn x_min() -> u8 {
        0
    }

    pub const fn x_max() -> u8 {
        7
    }
}

#[asn(set)]

#[derive(Default, Debug, Clone, PartialEq, Hash)]
pub struct Ttp13p1 {
    #[asn(optional(complex(Tchox, tag(PRIVATE(1)))))] pub rx: Option<Tchox>,
    #[asn(optional(integer(0..15)), tag(APPLICATION(1)))] pub a: Option<u8>,
}

impl Ttp13p1 {
    pub const fn a_min() -> u8 {
        0
    }

    pub const fn a_max() -> u8 {
        15
    }
}

#[asn(set)]

#[derive(Default, Debug, Clone, PartialEq, Hash)]
pub struct Ttp13p2 {
    #[asn(optional(complex(Tchox, tag(PRIVATE(1)))))] pub rx: Option<Tchox>,
    #[asn(integer(0..31), tag(3))] pub c3: u8,
}

impl Ttp13p2 {
    pub const fn c3_min() -> u8 {
        0
    }

    pub const fn c3_max() -> u8 {
        31
    }
}

#[asn(set)]

#[derive(Default, Debug, Clone, PartialEq, Hash)]
pub struct Ttp13p3 {
    #[asn(optional(complex(Tchox, tag(PRIVATE(1)))))] pub rx: Option<Tchox>,
    #[asn(optional(integer(0..63)), tag(0))] pub c0: Option<u8>,
}

impl Ttp13p3 {
    pub const fn c0_min() -> u8 {
        0
    }

    pub const fn c0_max() -> u8 {
        63
    }
}

#[asn(set)]

#[derive(Default, Debug, Clone, PartialEq, Hash)]
pub struct Ttp13p4 {
    #[asn(optional(complex(Tchox, tag(PRIVATE(1)))))] pub rx: Option<Tchox>,
    #[asn(integer(0..127), tag(PRIVATE(2)))] pub p: u8,
}

impl Ttp13p4 {
    pub const fn p_min() -> u8 {
        0
    }

    pub const fn p_max() -> u8 {
        127
    }
}

#[asn(set)]

#[derive(Default, Debug, Clone, PartialEq, Hash)]
pub struct Ttp13p5 {
    #[asn(optional(complex(Tchox, tag(PRIVATE(1)))))] pub rx: Option<Tchox>,
    #[asn(optional(boolean))] pub b: Option<bool>,
}

impl Ttp13p5 {
}

#[asn(set)]

#[derive(Default, Debug, Clone, PartialEq, Hash)]
pub struct Ttp13p6 {
    #[asn(optional(complex(Tchox, tag(PRIVATE(1)))))] pub rx: Option<Tchox>,
    #[asn(integer(0..255))] pub i: u8,
}

impl Ttp13p6 {
    pub const fn i_min() -> u8 {
        0
    }

    pub const fn i_max() -> u8 {
        255
    }
}

#[asn(set)]

#[derive(Default, Debug, Clone, PartialEq, Hash)]
pub struct Ttp13p7 {
    #[asn(optional(complex(Tchox, tag(PRIVATE(1)))))] pub rx: Option<Tchox>,
    #[asn(optional(complex(Tapp9, tag(APPLICATION(9)))))] pub ra: Option<Tapp9>,
}

impl Ttp13p7 {
}

#[asn(set)]

#[derive(Default, Debug, Clone, PartialEq, Hash)]
pub struct Ttp13p8 {
    #[asn(optional(complex(Tchox, tag(PRIVATE(1)))))] pub rx: Option<Tchox>,
    #[asn(complex(Tsq, tag(UNIVERSAL(16))))] pub rs: Tsq,
}

impl Ttp13p8 {
}

#[asn(set)]

#[derive(Default, Debug, Clone, PartialEq, Hash)]
pub struct Ttp13p9 {
    #[asn(optional(complex(Tchox, tag(PRIVATE(1)))))] pub rx: Option<Tchox>,
    #[asn(optional(complex(Tcho, tag(1))))] pub rc: Option<Tcho>,
}

impl Ttp13p9 {
}

#[asn(set)]

#[derive(Default, Debug, Clone, PartialEq, Hash)]
pub struct Ttp13p10 {
    #[asn(optional(complex(Tchox, tag(PRIVATE(1)))))] pub rx: Option<Tchox>,
    #[asn(complex(Tst, tag(UNIVERSAL(17))))] pub rt: Tst,
}

impl Ttp13p10 {
}

#[asn(set)]

#[derive(Default, Debug, Clone, PartialEq, Hash)]
pub struct Ttp13p11 {
    #[asn(optional(complex(Tchox, tag(PRIVATE(1)))))] pub rx: Option<Tchox>,
    #[asn(optional(sequence_of(size(0..3), boolean)))] pub so: Option<Vec<bool>>,
}

impl Ttp13p11 {
}

#[asn(set)]

#[derive(Default, Debug, Clone, PartialEq, Hash)]
pub struct Ttp13p12 {
    #[asn(optional(complex(Tchox, tag(PRIVATE(1)))))] pub rx: Option<Tchox>,
    #[asn(set_of(size(0..2), boolean))] pub st: Vec<bool>,
}

impl Ttp13p12 {
}

#[asn(set)]

#[derive(Default, Debug, Clone, PartialEq, Hash)]
pub struct Ttp13p14 {
    #[asn(optional(complex(Tchox, tag(PRIVATE(1)))))] pub rx: Option<Tchox>,
    #[asn(integer(0..1), tag(UNIVERSAL(2)))] pub u2: u8,
}

impl Ttp13p14 {
    pub const fn u2_min() -> u8 {
        0
    }

    pub const fn u2_max() -> u8 {
        1
    }
}

#[asn(sequence, tag(APPLICATION(5)))]

#[derive(Default, Debug, Clone, PartialEq, Hash)]
pub struct Ttp13p15Is {
    #[asn(integer(0..3))] pub v: u8,
}

impl Ttp13p15Is {
    pub const fn v_min() -> u8 {
        0
    }

    pub const fn v_max() -> u8 {
        3
    }
}

#[asn(set)]

#[derive(Default, Debug, Clone, PartialEq, Hash)]
pub struct Ttp13p15 {
    #[asn(optional(complex(Tchox, tag(PRIVATE(1)))))] pub rx: Option<Tchox>,
    #[asn(optional(complex(Ttp13p15Is, tag(APPLICATION(5)))), tag(APPLICATION(5)))] pub is: Option<Ttp13p15Is>,
}

impl Ttp13p15 {
}

#[asn(set)]

#[derive(Default, Debug, Clone, PartialEq, Hash)]
pub struct Ttp14p0 {
    #[asn(integer(0..1), tag(UNIVERSAL(2)))] pub u2: u8,
    #[asn(integer(0..7), tag(UNIVERSAL(30)))] pub x: u8,
}

impl Ttp14p0 {
    pub const fn u2_min() -> u8 {
        0
    }

    pub const fn u2_max() -> u8 {
        1
    }

    pub const fn x_min() -> u8 {
        0
    }

    pub const fn x_max() -> u8 {
        7
    }
}

#[asn(set)]

#[derive(Default, Debug, Clone, PartialEq, Hash)]
pub struct Ttp14p1 {
    #[asn(integer(0..1), tag(UNIVERSAL(2)))] pub u2: u8,
    #[asn(optional(integer(0..15)), tag(APPLICATION(1)))] pub a: Option<u8>,
}

impl Ttp14p1 {
    pub const fn u2_min() -> u8 {
        0
    }

    pub const fn u2_max() -> u8 {
        1
    }

    pub const fn a_min() -> u8 {
        0
    }

    pub const fn a_max() -> u8 {
        15
    }
}

#[asn(set)]

#[derive(Default, Debug, Clone, PartialEq, Hash)]
pub struct Ttp14p2 {
    #[asn(integer(0..1), tag(UNIVERSAL(2)))] pub u2: u8,
    #[asn(integer(0..31), tag(3))] pub c3: u8,
}

impl Ttp14p2 {
    pub const fn u2_min() -> u8 {
        0
    }

    pub const fn u2_max() -> u8 {
        1
    }

    pub const fn c3_min() -> u8 {
        0
    }

    pub const fn c3_max() -> u8 {
        31
    }
}

#[asn(set)]

#[derive(Default, Debug, Clone, PartialEq, Hash)]
pub struct Ttp14p3 {
    #[asn(integer(0..1), tag(UNIVERSAL(2)))] pub u2: u8,
    #[asn(optional(integer(0..63)), tag(0))] pub c0: Option<u8>,
}

impl Ttp14p3 {
    pub const fn u2_min() -> u8 {
        0
    }

    pub const fn u2_max() -> u8 {
        1
    }

    pub const fn c0_min() -> u8 {
        0
    }

    pub const fn c0_max() -> u8 {
        63
    }
}

#[asn(set)]

#[derive(Default, Debug, Clone, PartialEq, Hash)]
pub struct Ttp14p4 {
    #[asn(integer(0..1), tag(UNIVERSAL(2)))] pub u2: u8,
    #[asn(integer(0..127), tag(PRIVATE(2)))] pub p: u8,
}

impl Ttp14p4 {
    pub const fn u2_min() -> u8 {
        0
    }

    pub const fn u2_max() -> u8 {
        1
    }

    pub const fn p_min() -> u8 {
        0
    }

    pub const fn p_max() -> u8 {
        127
    }
}

#[asn(set)]

#[derive(Default, Debug, Clone, PartialEq, Hash)]
pub struct Ttp14p5 {
    #[asn(integer(0..1), tag(UNIVERSAL(2)))] pub u2: u8,
    #[asn(optional(boolean))] pub b: Option<bool>,
}

impl Ttp14p5 {
    pub const fn u2_min() -> u8 {
        0
    }

    pub const fn u2_max() -> u8 {
        1
    }
}

#[asn(set)]

#[derive(Default, Debug, Clone, PartialEq, Hash)]
pub struct Ttp14p6 {
    #[asn(integer(0..1), tag(UNIVERSAL(2)))] pub u2: u8,
    #[asn(integer(0..255))] pub i: u8,
}

impl Ttp14p6 {
    pub const fn u2_min() -> u8 {
        0
    }

    pub const fn u2_max() -> u8 {
        1
    }

    pub const fn i_min() -> u8 {
        0
    }

    pub const fn i_max() -> u8 {
        255
    }
}

#[asn(set)]

#[derive(Default, Debug, Clone, PartialEq, Hash)]
pub struct Ttp14p7 {
    #[asn(integer(0..1), tag(UNIVERSAL(2)))] pub u2: u8,
    #[asn(optional(complex(Tapp9, tag(APPLICATION(9)))))] pub ra: Option<Tapp9>,
}

impl Ttp14p7 {
    pub const fn u2_min() -> u8 {
        0
    }

    pub const fn u2_max() -> u8 {
        1
    }
}

#[asn(set)]

#[derive(Default, Debug, Clone, PartialEq, Hash)]
pub struct Ttp14p8 {
    #[asn(integer(0..1), tag(UNIVERSAL(2)))] pub u2: u8,
    #[asn(complex(Tsq, tag(UNIVERSAL(16))))] pub rs: Tsq,
}

impl Ttp14p8 {
    pub const fn u2_min() -> u8 {
        0
    }

    pub const fn u2_max() -> u8 {
        1
    }
}

#[asn(set)]

#[derive(Default, Debug, Clone, PartialEq, Hash)]
pub struct Ttp14p9 {
    #[asn(integer(0..1), tag(UNIVERSAL(2)))] pub u2: u8,
    #[asn(optional(complex(Tcho, tag(1))))] pub rc: Option<Tcho>,
}

impl Ttp14p9 {
    pub const fn u2_min() -> u8 {
        0
    }

    pub const fn u2_max() -> u8 {
        1
    }
}

#[asn(set)]

#[derive(Default, Debug, Clone, PartialEq, Hash)]
pub struct Ttp14p10 {
    #[asn(integer(0..1), tag(UNIVERSAL(2)))] pub u2: u8,
    #[asn(complex(Tst, tag(UNIVERSAL(17))))] pub rt: Tst,
}

impl Ttp14p10 {
    pub const fn u2_min() -> u8 {
        0
    }

    pub const fn u2_max() -> u8 {
        1
    }
}

#[asn(set)]

#[derive(Default, Debug, Clone, PartialEq, Hash)]
pub struct Ttp14p11 {
    #[asn(integer(0..1), tag(UNIVERSAL(2)))] pub u2: u8,
    #[asn(optional(sequence_of(size(0..3), boolean)))] pub so: Option<Vec<bool>>,
}

impl Ttp14p11 {
    pub const fn u2_min() -> u8 {
        0
    }

    pub const fn u2_max() -> u8 {
        1
    }
}

#[asn(set)]

#[derive(Default, Debug, Clone, PartialEq, Hash)]
pub struct Ttp14p12 {
    #[asn(integer(0..1), tag(UNIVERSAL(2)))] pub u2: u8,
    #[asn(set_of(size(0..2), boolean))] pub st: Vec<bool>,
}

impl Ttp14p12 {
    pub const fn u2_min() -> u8 {
        0
    }

    pub const fn u2_max() -> u8 {
        1
    }
}

#[asn(set)]

#[derive(Default, Debug, Clone, PartialEq, Hash)]
pub struct Ttp14p13 {
    #[asn(integer(0..1), tag(UNIVERSAL(2)))] pub u2: u8,
    #[asn(optional(complex(Tchox, tag(PRIVATE(1)))))] pub rx: Option<Tchox>,
}

impl Ttp14p13 {
    pub const fn u2_min() -> u8 {
        0
    }

    pub const fn u2_max() -> u8 {
        1
    }
}
// ---- harness conversions (generated by the zoo build script from the items above) ----
impl FromValue for Tapp9 { fn from_value(v: &Value) -> Self { Tapp9(FromValue::from_value(v)) } }
impl ToValue for Tapp9 { fn to_value(&self) -> Value { self.0.to_value() } }
impl FromValue for Tsq {
    fn from_value(v: &Value) -> Self {
        let s = match v { Value::Seq(s) => s, other => panic!("Tsq: expected Seq, got {other:?}") };
        assert_eq!(s.len(), 1, "Tsq: component count");
        let _ = s;
        Tsq {
            z: FromValue::from_value(s[0].as_ref().expect("component z of Tsq must be present")),
        }
    }
}
impl ToValue for Tsq {
    fn to_value(&self) -> Value {
        Value::Seq(vec![
            Some(self.z.to_value()),
        ])
    }
}
impl FromValue for Tcho {
    fn from_value(v: &Value) -> Self {
        let (i, inner) = match v { Value::Choice(i, inner) => (*i, &**inner), other => panic!("Tcho: expected Choice, got {other:?}") };
        match i {
            0 => Tcho::M(FromValue::from_value(inner)),
            1 => Tcho::N(FromValue::from_value(inner)),
            _ => panic!("Tcho: alternative index {i} out of range"),
        }
    }
}
impl ToValue for Tcho {
    fn to_value(&self) -> Value {
        match self {
            Tcho::M(x) => Value::Choice(0, Box::new(x.to_value())),
            Tcho::N(x) => Value::Choice(1, Box::new(x.to_value())),
        }
    }
}
impl FromValue for Tchox {
    fn from_value(v: &Value) -> Self {
        let (i, inner) = match v { Value::Choice(i, inner) => (*i, &**inner), other => panic!("Tchox: expected Choice, got {other:?}") };
        match i {
            0 => Tchox::M(FromValue::from_value(inner)),
            1 => Tchox::N(FromValue::from_value(inner)),
            2 => Tchox::O(FromValue::from_value(inner)),
            _ => panic!("Tchox: alternative index {i} out of range"),
        }
    }
}
impl ToValue for Tchox {
    fn to_value(&self) -> Value {
        match self {
            Tchox::M(x) => Value::Choice(0, Box::new(x.to_value())),
            Tchox::N(x) => Value::Choice(1, Box::new(x.to_value())),
            Tchox::O(x) => Value::Choice(2, Box::new(x.to_value())),
        }
    }
}
impl FromValue for Tst {
    fn from_value(v: &Value) -> Self {
        let s = match v { Value::Seq(s) => s, other => panic!("Tst: expected Seq, got {other:?}") };
        assert_eq!(s.len(), 1, "Tst: component count");
        let _ = s;
        Tst {
            z: FromValue::from_value(s[0].as_ref().expect("component z of Tst must be present")),
        }
    }
}
impl ToValue for Tst {
    fn to_value(&self) -> Value {
        Value::Seq(vec![
            Some(self.z.to_value()),
        ])
    }
}
impl FromValue for Ttp6p15Is {
    fn from_value(v: &Value) -> Self {
        let s = match v { Value::Seq(s) => s, other => panic!("Ttp6p15Is: expected Seq, got {other:?}") };
        assert_eq!(s.len(), 1, "Ttp6p15Is: component count");
        let _ = s;
        Ttp6p15Is {
            v: FromValue::from_value(s[0].as_ref().expect("component v of Ttp6p15Is must be present")),
        }
    }
}
impl ToValue for Ttp6p15Is {
    fn to_value(&self) -> Value {
        Value::Seq(vec![
            Some(self.v.to_value()),
        ])
    }
}
impl FromValue for Ttp6p15 {
    fn from_value(v: &Value) -> Self {
        let s = match v { Value::Seq(s) => s, other => panic!("Ttp6p15: expected Seq, got {other:?}") };
        assert_eq!(s.len(), 2, "Ttp6p15: component count");
        let _ = s;
        Ttp6p15 {
            i: FromValue::from_value(s[0].as_ref().expect("component i of Ttp6p15 must be present")),
            is: s[1].as_ref().map(FromValue::from_value),
        }
    }
}
impl ToValue for Ttp6p15 {
    fn to_value(&self) -> Value {
        Value::Seq(vec![
            Some(self.i.to_value()),
            self.is.as_ref().map(|x| x.to_value()),
        ])
    }
}
impl FromValue for Ttp7p0 {
    fn from_value(v: &Value) -> Self {
        let s = match v { Value::Seq(s) => s, other => panic!("Ttp7p0: expected Seq, got {other:?}") };
        assert_eq!(s.len(), 2, "Ttp7p0: component count");
        let _ = s;
        Ttp7p0 {
            ra: s[0].as_ref().map(FromValue::from_value),
            x: FromValue::from_value(s[1].as_ref().expect("component x of Ttp7p0 must be present")),
        }
    }
}
impl ToValue for Ttp7p0 {
    fn to_value(&self) -> Value {
        Value::Seq(vec![
            self.ra.as_ref().map(|x| x.to_value()),
            Some(self.x.to_value()),
        ])
    }
}
impl FromValue for Ttp7p1 {
    fn from_value(v: &Value) -> Self {
        let s = match v { Value::Seq(s) => s, other => panic!("Ttp7p1: expected Seq, got {other:?}") };
        assert_eq!(s.len(), 2, "Ttp7p1: component count");
        let _ = s;
        Ttp7p1 {
            ra: s[0].as_ref().map(FromValue::from_value),
            a: s[1].as_ref().map(FromValue::from_value),
        }
    }
}
impl ToValue for Ttp7p1 {
    fn to_value(&self) -> Value {
        Value::Seq(vec![
            self.ra.as_ref().map(|x| x.to_value()),
            self.a.as_ref().map(|x| x.to_value()),
        ])
    }
}
impl FromValue for Ttp7p2 {
    fn from_value(v: &Value) -> Self {
        let s = match v { Value::Seq(s) => s, other => panic!("Ttp7p2: expected Seq, got {other:?}") };
        assert_eq!(s.len(), 2, "Ttp7p2: component count");
        let _ = s;
        Ttp7p2 {
            ra: s[0].as_ref().map(FromValue::from_value),
            c3: FromValue::from_value(s[1].as_ref().expect("component c3 of Ttp7p2 must be present")),
        }
    }
}
impl ToValue for Ttp7p2 {
    fn to_value(&self) -> Value {
        Value::Seq(vec![
            self.ra.as_ref().map(|x| x.to_value()),
            Some(self.c3.to_value()),
        ])
    }
}
impl FromValue for Ttp7p3 {
    fn from_value(v: &Value) -> Self {
        let s = match v { Value::Seq(s) => s, other => panic!("Ttp7p3: expected Seq, got {other:?}") };
        assert_eq!(s.len(), 2, "Ttp7p3: component count");
        let _ = s;
        Ttp7p3 {
            ra: s[0].as_ref().map(FromValue::from_value),
            c0: s[1].as_ref().map(FromValue::from_value),
        }
    }
}
impl ToValue for Ttp7p3 {
    fn to_value(&self) -> Value {
        Value::Seq(vec![
            self.ra.as_ref().map(|x| x.to_value()),
            self.c0.as_ref().map(|x| x.to_value()),
        ])
    }
}
impl FromValue for Ttp7p4 {
    fn from_value(v: &Value) -> Self {
        let s = match v { Value::Seq(s) => s, other => panic!("Ttp7p4: expected Seq, got {other:?}") };
        assert_eq!(s.len(), 2, "Ttp7p4: component count");
        let _ = s;
        Ttp7p4 {
            ra: s[0].as_ref().map(FromValue::from_value),
            p: FromValue::from_value(s[1].as_ref().expect("component p of Ttp7p4 must be present")),
        }
    }
}
impl ToValue for Ttp7p4 {
    fn to_value(&self) -> Value {
        Value::Seq(vec![
            self.ra.as_ref().map(|x| x.to_value()),
            Some(self.p.to_value()),
        ])
    }
}
impl FromValue for Ttp7p5 {
    fn from_value(v: &Value) -> Self {
        let s = match v { Value::Seq(s) => s, other => panic!("Ttp7p5: expected Seq, got {other:?}") };
        assert_eq!(s.len(), 2, "Ttp7p5: component count");
        let _ = s;
        Ttp7p5 {
            ra: s[0].as_ref().map(FromValue::from_value),
            b: s[1].as_ref().map(FromValue::from_value),
        }
    }
}
impl ToValue for Ttp7p5 {
    fn to_value(&self) -> Value {
        Value::Seq(vec![
            self.ra.as_ref().map(|x| x.to_value()),
            self.b.as_ref().map(|x| x.to_value()),
        ])
    }
}
impl FromValue for Ttp7p6 {
    fn from_value(v: &Value) -> Self {
        let s = match v { Value::Seq(s) => s, other => panic!("Ttp7p6: expected Seq, got {other:?}") };
        assert_eq!(s.len(), 2, "Ttp7p6: component count");
        let _ = s;
        Ttp7p6 {
            ra: s[0].as_ref().map(FromValue::from_value),
            i: FromValue::from_value(s[1].as_ref().expect("component i of Ttp7p6 must be present")),
        }
    }
}
impl ToValue for Ttp7p6 {
    fn to_value(&self) -> Value {
        Value::Seq(vec![
            self.ra.as_ref().map(|x| x.to_value()),
            Some(self.i.to_value()),
        ])
    }
}
impl FromValue for Ttp7p8 {
    fn from_value(v: &Value) -> Self {
        let s = match v { Value::Seq(s) => s, other => panic!("Ttp7p8: expected Seq, got {other:?}") };
        assert_eq!(s.len(), 2, "Ttp7p8: component count");
        let _ = s;
        Ttp7p8 {
            ra: s[0].as_ref().map(FromValue::from_value),
            rs: FromValue::from_value(s[1].as_ref().expect("component rs of Ttp7p8 must be present")),
        }
    }
}
impl ToValue for Ttp7p8 {
    fn to_value(&self) -> Value {
        Value::Seq(vec![
            self.ra.as_ref().map(|x| x.to_value()),
            Some(self.rs.to_value()),
        ])
    }
}
impl FromValue for Ttp7p9 {
    fn from_value(v: &Value) -> Self {
        let s = match v { Value::Seq(s) => s, other => panic!("Ttp7p9: expected Seq, got {other:?}") };
        assert_eq!(s.len(), 2, "Ttp7p9: component count");
        let _ = s;
        Ttp7p9 {
            ra: s[0].as_ref().map(FromValue::from_value),
            rc: s[1].as_ref().map(FromValue::from_value),
        }
    }
}
impl ToValue for Ttp7p9 {
    fn to_value(&self) -> Value {
        Value::Seq(vec![
            self.ra.as_ref().map(|x| x.to_value()),
            self.rc.as_ref().map(|x| x.to_value()),
        ])
    }
}
impl FromValue for Ttp7p10 {
    fn from_value(v: &Value) -> Self {
        let s = match v { Value::Seq(s) => s, other => panic!("Ttp7p10: expected Seq, got {other:?}") };
        assert_eq!(s.len(), 2, "Ttp7p10: component count");
        let _ = s;
        Ttp7p10 {
            ra: s[0].as_ref().map(FromValue::from_value),
            rt: FromValue::from_value(s[1].as_ref().expect("component rt of Ttp7p10 must be present")),
        }
    }
}
impl ToValue for Ttp7p10 {
    fn to_value(&self) -> Value {
        Value::Seq(vec![
            self.ra.as_ref().map(|x| x.to_value()),
            Some(self.rt.to_value()),
        ])
    }
}
impl FromValue for Ttp7p11 {
    fn from_value(v: &Value) -> Self {
        let s = match v { Value::Seq(s) => s, other => panic!("Ttp7p11: expected Seq, got {other:?}") };
        assert_eq!(s.len(), 2, "Ttp7p11: component count");
        let _ = s;
        Ttp7p11 {
            ra: s[0].as_ref().map(FromValue::from_value),
            so: s[1].as_ref().map(FromValue::from_value),
        }
    }
}
impl ToValue for Ttp7p11 {
    fn to_value(&self) -> Value {
        Value::Seq(vec![
            self.ra.as_ref().map(|x| x.to_value()),
            self.so.as_ref().map(|x| x.to_value()),
        ])
    }
}
impl FromValue for Ttp7p12 {
    fn from_value(v: &Value) -> Self {
        let s = match v { Value::Seq(s) => s, other => panic!("Ttp7p12: expected Seq, got {other:?}") };
        assert_eq!(s.len(), 2, "Ttp7p12: component count");
        let _ = s;
        Ttp7p12 {
            ra: s[0].as_ref().map(FromValue::from_value),
            st: FromValue::from_value(s[1].as_ref().expect("component st of Ttp7p12 must be present")),
        }
    }
}
impl ToValue for Ttp7p12 {
    fn to_value(&self) -> Value {
        Value::Seq(vec![
            self.ra.as_ref().map(|x| x.to_value()),
            Some(self.st.to_value()),
        ])
    }
}
impl FromValue for Ttp7p13 {
    fn from_value(v: &Value) -> Self {
        let s = match v { Value::Seq(s) => s, other => panic!("Ttp7p13: expected Seq, got {other:?}") };
        assert_eq!(s.len(), 2, "Ttp7p13: component count");
        let _ = s;
        Ttp7p13 {
            ra: s[0].as_ref().map(FromValue::from_value),
            rx: s[1].as_ref().map(FromValue::from_value),
        }
    }
}
impl ToValue for Ttp7p13 {
    fn to_value(&self) -> Value {
        Value::Seq(vec![
            self.ra.as_ref().map(|x| x.to_value()),
            self.rx.as_ref().map(|x| x.to_value()),
        ])
    }
}
impl FromValue for Ttp7p14 {
    fn from_value(v: &Value) -> Self {
        let s = match v { Value::Seq(s) => s, other => panic!("Ttp7p14: expected Seq, got {other:?}") };
        assert_eq!(s.len(), 2, "Ttp7p14: component count");
        let _ = s;
        Ttp7p14 {
            ra: s[0].as_ref().map(FromValue::from_value),
            u2: FromValue::from_value(s[1].as_ref().expect("component u2 of Ttp7p14 must be present")),
        }
    }
}
impl ToValue for Ttp7p14 {
    fn to_value(&self) -> Value {
        Value::Seq(vec![
            self.ra.as_ref().map(|x| x.to_value()),
            Some(self.u2.to_value()),
        ])
    }
}
impl FromValue for Ttp7p15Is {
    fn from_value(v: &Value) -> Self {
        let s = match v { Value::Seq(s) => s, other => panic!("Ttp7p15Is: expected Seq, got {other:?}") };
        assert_eq!(s.len(), 1, "Ttp7p15Is: component count");
        let _ = s;
        Ttp7p15Is {
            v: FromValue::from_value(s[0].as_ref().expect("component v of Ttp7p15Is must be present")),
        }
    }
}
impl ToValue for Ttp7p15Is {
    fn to_value(&self) -> Value {
        Value::Seq(vec![
            Some(self.v.to_value()),
        ])
    }
}
impl FromValue for Ttp7p15 {
    fn from_value(v: &Value) -> Self {
        let s = match v { Value::Seq(s) => s, other => panic!("Ttp7p15: expected Seq, got {other:?}") };
        assert_eq!(s.len(), 2, "Ttp7p15: component count");
        let _ = s;
        Ttp7p15 {
            ra: s[0].as_ref().map(FromValue::from_value),
            is: s[1].as_ref().map(FromValue::from_value),
        }
    }
}
impl ToValue for Ttp7p15 {
    fn to_value(&self) -> Value {
        Value::Seq(vec![
            self.ra.as_ref().map(|x| x.to_value()),
            self.is.as_ref().map(|x| x.to_value()),
        ])
    }
}
impl FromValue for Ttp8p0 {
    fn from_value(v: &Value) -> Self {
        let s = match v { Value::Seq(s) => s, other => panic!("Ttp8p0: expected Seq, got {other:?}") };
        assert_eq!(s.len(), 2, "Ttp8p0: component count");
        let _ = s;
        Ttp8p0 {
            rs: FromValue::from_value(s[0].as_ref().expect("component rs of Ttp8p0 must be present")),
            x: FromValue::from_value(s[1].as_ref().expect("component x of Ttp8p0 must be present")),
        }
    }
}
impl ToValue for Ttp8p0 {
    fn to_value(&self) -> Value {
        Value::Seq(vec![
            Some(self.rs.to_value()),
            Some(self.x.to_value()),
        ])
    }
}
impl FromValue for Ttp8p1 {
    fn from_value(v: &Value) -> Self {
        let s = match v { Value::Seq(s) => s, other => panic!("Ttp8p1: expected Seq, got {other:?}") };
        assert_eq!(s.len(), 2, "Ttp8p1: component count");
        let _ = s;
        Ttp8p1 {
            rs: FromValue::from_value(s[0].as_ref().expect("component rs of Ttp8p1 must be present")),
            a: s[1].as_ref().map(FromValue::from_value),
        }
    }
}
impl ToValue for Ttp8p1 {
    fn to_value(&self) -> Value {
        Value::Seq(vec![
            Some(self.rs.to_value()),
            self.a.as_ref().map(|x| x.to_value()),
        ])
    }
}
impl FromValue for Ttp8p2 {
    fn from_value(v: &Value) -> Self {
        let s = match v { Value::Seq(s) => s, other => panic!("Ttp8p2: expected Seq, got {other:?}") };
        assert_eq!(s.len(), 2, "Ttp8p2: component count");
        let _ = s;
        Ttp8p2 {
            rs: FromValue::from_value(s[0].as_ref().expect("component rs of Ttp8p2 must be present")),
            c3: FromValue::from_value(s[1].as_ref().expect("component c3 of Ttp8p2 must be present")),
        }
    }
}
impl ToValue for Ttp8p2 {
    fn to_value(&self) -> Value {
        Value::Seq(vec![
            Some(self.rs.to_value()),
            Some(self.c3.to_value()),
        ])
    }
}
impl FromValue for Ttp8p3 {
    fn from_value(v: &Value) -> Self {
        let s = match v { Value::Seq(s) => s, other => panic!("Ttp8p3: expected Seq, got {other:?}") };
        assert_eq!(s.len(), 2, "Ttp8p3: component count");
        let _ = s;
        Ttp8p3 {
            rs: FromValue::from_value(s[0].as_ref().expect("component rs of Ttp8p3 must be present")),
            c0: s[1].as_ref().map(FromValue::from_value),
        }
    }
}
impl ToValue for Ttp8p3 {
    fn to_value(&self) -> Value {
        Value::Seq(vec![
            Some(self.rs.to_value()),
            self.c0.as_ref().map(|x| x.to_value()),
        ])
    }
}
impl FromValue for Ttp8p4 {
    fn from_value(v: &Value) -> Self {
        let s = match v { Value::Seq(s) => s, other => panic!("Ttp8p4: expected Seq, got {other:?}") };
        assert_eq!(s.len(), 2, "Ttp8p4: component count");
        let _ = s;
        Ttp8p4 {
            rs: FromValue::from_value(s[0].as_ref().expect("component rs of Ttp8p4 must be present")),
            p: FromValue::from_value(s[1].as_ref().expect("component p of Ttp8p4 must be present")),
        }
    }
}
impl ToValue for Ttp8p4 {
    fn to_value(&self) -> Value {
        Value::Seq(vec![
            Some(self.rs.to_value()),
            Some(self.p.to_value()),
        ])
    }
}
impl FromValue for Ttp8p5 {
    fn from_value(v: &Value) -> Self {
        let s = match v { Value::Seq(s) => s, other => panic!("Ttp8p5: expected Seq, got {other:?}") };
        assert_eq!(s.len(), 2, "Ttp8p5: component count");
        let _ = s;
        Ttp8p5 {
            rs: FromValue::from_value(s[0].as_ref().expect("component rs of Ttp8p5 must be present")),
            b: s[1].as_ref().map(FromValue::from_value),
        }
    }
}
impl ToValue for Ttp8p5 {
    fn to_value(&self) -> Value {
        Value::Seq(vec![
            Some(self.rs.to_value()),
            self.b.as_ref().map(|x| x.to_value()),
        ])
    }
}
impl FromValue for Ttp8p6 {
    fn from_value(v: &Value) -> Self {
        let s = match v { Value::Seq(s) => s, other => panic!("Ttp8p6: expected Seq, got {other:?}") };
        assert_eq!(s.len(), 2, "Ttp8p6: component count");
        let _ = s;
        Ttp8p6 {
            rs: FromValue::from_value(s[0].as_ref().expect("component rs of Ttp8p6 must be present")),
            i: FromValue::from_value(s[1].as_ref().expect("component i of Ttp8p6 must be present")),
        }
    }
}
impl ToValue for Ttp8p6 {
    fn to_value(&self) -> Value {
        Value::Seq(vec![
            Some(self.rs.to_value()),
            Some(self.i.to_value()),
        ])
    }
}
impl FromValue for Ttp8p7 {
    fn from_value(v: &Value) -> Self {
        let s = match v { Value::Seq(s) => s, other => panic!("Ttp8p7: expected Seq, got {other:?}") };
        assert_eq!(s.len(), 2, "Ttp8p7: component count");
        let _ = s;
        Ttp8p7 {
            rs: FromValue::from_value(s[0].as_ref().expect("component rs of Ttp8p7 must be present")),
            ra: s[1].as_ref().map(FromValue::from_value),
        }
    }
}
impl ToValue for Ttp8p7 {
    fn to_value(&self) -> Value {
        Value::Seq(vec![
            Some(self.rs.to_value()),
            self.ra.as_ref().map(|x| x.to_value()),
        ])
    }
}
impl FromValue for Ttp8p9 {
    fn from_value(v: &Value) -> Self {
        let s = match v { Value::Seq(s) => s, other => panic!("Ttp8p9: expected Seq, got {other:?}") };
        assert_eq!(s.len(), 2, "Ttp8p9: component count");
        let _ = s;
        Ttp8p9 {
            rs: FromValue::from_value(s[0].as_ref().expect("component rs of Ttp8p9 must be present")),
            rc: s[1].as_ref().map(FromValue::from_value),
        }
    }
}
impl ToValue for Ttp8p9 {
    fn to_value(&self) -> Value {
        Value::Seq(vec![
            Some(self.rs.to_value()),
            self.rc.as_ref().map(|x| x.to_value()),
        ])
    }
}
impl FromValue for Ttp8p10 {
    fn from_value(v: &Value) -> Self {
        let s = match v { Value::Seq(s) => s, other => panic!("Ttp8p10: expected Seq, got {other:?}") };
        assert_eq!(s.len(), 2, "Ttp8p10: component count");
        let _ = s;
        Ttp8p10 {
            rs: FromValue::from_value(s[0].as_ref().expect("component rs of Ttp8p10 must be present")),
            rt: FromValue::from_value(s[1].as_ref().expect("component rt of Ttp8p10 must be present")),
        }
    }
}
impl ToValue for Ttp8p10 {
    fn to_value(&self) -> Value {
        Value::Seq(vec![
            Some(self.rs.to_value()),
            Some(self.rt.to_value()),
        ])
    }
}
impl FromValue for Ttp8p11 {
    fn from_value(v: &Value) -> Self {
        let s = match v { Value::Seq(s) => s, other => panic!("Ttp8p11: expected Seq, got {other:?}") };
        assert_eq!(s.len(), 2, "Ttp8p11: component count");
        let _ = s;
        Ttp8p11 {
            rs: FromValue::from_value(s[0].as_ref().expect("component rs of Ttp8p11 must be present")),
            so: s[1].as_ref().map(FromValue::from_value),
        }
    }
}
impl ToValue for Ttp8p11 {
    fn to_value(&self) -> Value {
        Value::Seq(vec![
            Some(self.rs.to_value()),
            self.so.as_ref().map(|x| x.to_value()),
        ])
    }
}
impl FromValue for Ttp8p12 {
    fn from_value(v: &Value) -> Self {
        let s = match v { Value::Seq(s) => s, other => panic!("Ttp8p12: expected Seq, got {other:?}") };
        assert_eq!(s.len(), 2, "Ttp8p12: component count");
        let _ = s;
        Ttp8p12 {
            rs: FromValue::from_value(s[0].as_ref().expect("component rs of Ttp8p12 must be present")),
            st: FromValue::from_value(s[1].as_ref().expect("component st of Ttp8p12 must be present")),
        }
    }
}
impl ToValue for Ttp8p12 {
    fn to_value(&self) -> Value {
        Value::Seq(vec![
            Some(self.rs.to_value()),
            Some(self.st.to_value()),
        ])
    }
}
impl FromValue for Ttp8p13 {
    fn from_value(v: &Value) -> Self {
        let s = match v { Value::Seq(s) => s, other => panic!("Ttp8p13: expected Seq, got {other:?}") };
        assert_eq!(s.len(), 2, "Ttp8p13: component count");
        let _ = s;
        Ttp8p13 {
            rs: FromValue::from_value(s[0].as_ref().expect("component rs of Ttp8p13 must be present")),
            rx: s[1].as_ref().map(FromValue::from_value),
        }
    }
}
impl ToValue for Ttp8p13 {
    fn to_value(&self) -> Value {
        Value::Seq(vec![
            Some(self.rs.to_value()),
            self.rx.as_ref().map(|x| x.to_value()),
        ])
    }
}
impl FromValue for Ttp8p14 {
    fn from_value(v: &Value) -> Self {
        let s = match v { Value::Seq(s) => s, other => panic!("Ttp8p14: expected Seq, got {other:?}") };
        assert_eq!(s.len(), 2, "Ttp8p14: component count");
        let _ = s;
        Ttp8p14 {
            rs: FromValue::from_value(s[0].as_ref().expect("component rs of Ttp8p14 must be present")),
            u2: FromValue::from_value(s[1].as_ref().expect("component u2 of Ttp8p14 must be present")),
        }
    }
}
impl ToValue for Ttp8p14 {
    fn to_value(&self) -> Value {
        Value::Seq(vec![
            Some(self.rs.to_value()),
            Some(self.u2.to_value()),
        ])
    }
}
impl FromValue for Ttp8p15Is {
    fn from_value(v: &Value) -> Self {
        let s = match v { Value::Seq(s) => s, other => panic!("Ttp8p15Is: expected Seq, got {other:?}") };
        assert_eq!(s.len(), 1, "Ttp8p15Is: component count");
        let _ = s;
        Ttp8p15Is {
            v: FromValue::from_value(s[0].as_ref().expect("component v of Ttp8p15Is must be present")),
        }
    }
}
impl ToValue for Ttp8p15Is {
    fn to_value(&self) -> Value {
        Value::Seq(vec![
            Some(self.v.to_value()),
        ])
    }
}
impl FromValue for Ttp8p15 {
    fn from_value(v: &Value) -> Self {
        let s = match v { Value::Seq(s) => s, other => panic!("Ttp8p15: expected Seq, got {other:?}") };
        assert_eq!(s.len(), 2, "Ttp8p15: component count");
        let _ = s;
        Ttp8p15 {
            rs: FromValue::from_value(s[0].as_ref().expect("component rs of Ttp8p15 must be present")),
            is: s[1].as_ref().map(FromValue::from_value),
        }
    }
}
impl ToValue for Ttp8p15 {
    fn to_value(&self) -> Value {
        Value::Seq(vec![
            Some(self.rs.to_value()),
            self.is.as_ref().map(|x| x.to_value()),
        ])
    }
}
impl FromValue for Ttp9p0 {
    fn from_value(v: &Value) -> Self {
        let s = match v { Value::Seq(s) => s, other => panic!("Ttp9p0: expected Seq, got {other:?}") };
        assert_eq!(s.len(), 2, "Ttp9p0: component count");
        let _ = s;
        Ttp9p0 {
            rc: s[0].as_ref().map(FromValue::from_value),
            x: FromValue::from_value(s[1].as_ref().expect("component x of Ttp9p0 must be present")),
        }
    }
}
impl ToValue for Ttp9p0 {
    fn to_value(&self) -> Value {
        Value::Seq(vec![
            self.rc.as_ref().map(|x| x.to_value()),
            Some(self.x.to_value()),
        ])
    }
}
impl FromValue for Ttp9p1 {
    fn from_value(v: &Value) -> Self {
        let s = match v { Value::Seq(s) => s, other => panic!("Ttp9p1: expected Seq, got {other:?}") };
        assert_eq!(s.len(), 2, "Ttp9p1: component count");
        let _ = s;
        Ttp9p1 {
            rc: s[0].as_ref().map(FromValue::from_value),
            a: s[1].as_ref().map(FromValue::from_value),
        }
    }
}
impl ToValue for Ttp9p1 {
    fn to_value(&self) -> Value {
        Value::Seq(vec![
            self.rc.as_ref().map(|x| x.to_value()),
            self.a.as_ref().map(|x| x.to_value()),
        ])
    }
}
impl FromValue for Ttp9p2 {
    fn from_value(v: &Value) -> Self {
        let s = match v { Value::Seq(s) => s, other => panic!("Ttp9p2: expected Seq, got {other:?}") };
        assert_eq!(s.len(), 2, "Ttp9p2: component count");
        let _ = s;
        Ttp9p2 {
            rc: s[0].as_ref().map(FromValue::from_value),
            c3: FromValue::from_value(s[1].as_ref().expect("component c3 of Ttp9p2 must be present")),
        }
    }
}
impl ToValue for Ttp9p2 {
    fn to_value(&self) -> Value {
        Value::Seq(vec![
            self.rc.as_ref().map(|x| x.to_value()),
            Some(self.c3.to_value()),
        ])
    }
}
impl FromValue for Ttp9p3 {
    fn from_value(v: &Value) -> Self {
        let s = match v { Value::Seq(s) => s, other => panic!("Ttp9p3: expected Seq, got {other:?}") };
        assert_eq!(s.len(), 2, "Ttp9p3: component count");
        let _ = s;
        Ttp9p3 {
            rc: s[0].as_ref().map(FromValue::from_value),
            c0: s[1].as_ref().map(FromValue::from_value),
        }
    }
}
impl ToValue for Ttp9p3 {
    fn to_value(&self) -> Value {
        Value::Seq(vec![
            self.rc.as_ref().map(|x| x.to_value()),
            self.c0.as_ref().map(|x| x.to_value()),
        ])
    }
}
impl FromValue for Ttp9p4 {
    fn from_value(v: &Value) -> Self {
        let s = match v { Value::Seq(s) => s, other => panic!("Ttp9p4: expected Seq, got {other:?}") };
        assert_eq!(s.len(), 2, "Ttp9p4: component count");
        let _ = s;
        Ttp9p4 {
            rc: s[0].as_ref().map(FromValue::from_value),
            p: FromValue::from_value(s[1].as_ref().expect("component p of Ttp9p4 must be present")),
        }
    }
}
impl ToValue for Ttp9p4 {
    fn to_value(&self) -> Value {
        Value::Seq(vec![
            self.rc.as_ref().map(|x| x.to_value()),
            Some(self.p.to_value()),
        ])
    }
}
impl FromValue for Ttp9p5 {
    fn from_value(v: &Value) -> Self {
        let s = match v { Value::Seq(s) => s, other => panic!("Ttp9p5: expected Seq, got {other:?}") };
        assert_eq!(s.len(), 2, "Ttp9p5: component count");
        let _ = s;
        Ttp9p5 {
            rc: s[0].as_ref().map(FromValue::from_value),
            b: s[1].as_ref().map(FromValue::from_value),
        }
    }
}
impl ToValue for Ttp9p5 {
    fn to_value(&self) -> Value {
        Value::Seq(vec![
            self.rc.as_ref().map(|x| x.to_value()),
            self.b.as_ref().map(|x| x.to_value()),
        ])
    }
}
impl FromValue for Ttp9p6 {
    fn from_value(v: &Value) -> Self {
        let s = match v { Value::Seq(s) => s, other => panic!("Ttp9p6: expected Seq, got {other:?}") };
        assert_eq!(s.len(), 2, "Ttp9p6: component count");
        let _ = s;
        Ttp9p6 {
            rc: s[0].as_ref().map(FromValue::from_value),
            i: FromValue::from_value(s[1].as_ref().expect("component i of Ttp9p6 must be present")),
        }
    }
}
impl ToValue for Ttp9p6 {
    fn to_value(&self) -> Value {
        Value::Seq(vec![
            self.rc.as_ref().map(|x| x.to_value()),
            Some(self.i.to_value()),
        ])
    }
}
impl FromValue for Ttp9p7 {
    fn from_value(v: &Value) -> Self {
        let s = match v { Value::Seq(s) => s, other => panic!("Ttp9p7: expected Seq, got {other:?}") };
        assert_eq!(s.len(), 2, "Ttp9p7: component count");
        let _ = s;
        Ttp9p7 {
            rc: s[0].as_ref().map(FromValue::from_value),
            ra: s[1].as_ref().map(FromValue::from_value),
        }
    }
}
impl ToValue for Ttp9p7 {
    fn to_value(&self) -> Value {
        Value::Seq(vec![
            self.rc.as_ref().map(|x| x.to_value()),
            self.ra.as_ref().map(|x| x.to_value()),
        ])
    }
}
impl FromValue for Ttp9p8 {
    fn from_value(v: &Value) -> Self {
        let s = match v { Value::Seq(s) => s, other => panic!("Ttp9p8: expected Seq, got {other:?}") };
        assert_eq!(s.len(), 2, "Ttp9p8: component count");
        let _ = s;
        Ttp9p8 {
            rc: s[0].as_ref().map(FromValue::from_value),
            rs: FromValue::from_value(s[1].as_ref().expect("component rs of Ttp9p8 must be present")),
        }
    }
}
impl ToValue for Ttp9p8 {
    fn to_value(&self) -> Value {
        Value::Seq(vec![
            self.rc.as_ref().map(|x| x.to_value()),
            Some(self.rs.to_value()),
        ])
    }
}
impl FromValue for Ttp9p10 {
    fn from_value(v: &Value) -> Self {
        let s = match v { Value::Seq(s) => s, other => panic!("Ttp9p10: expected Seq, got {other:?}") };
        assert_eq!(s.len(), 2, "Ttp9p10: component count");
        let _ = s;
        Ttp9p10 {
            rc: s[0].as_ref().map(FromValue::from_value),
            rt: FromValue::from_value(s[1].as_ref().expect("component rt of Ttp9p10 must be present")),
        }
    }
}
impl ToValue for Ttp9p10 {
    fn to_value(&self) -> Value {
        Value::Seq(vec![
            self.rc.as_ref().map(|x| x.to_value()),
            Some(self.rt.to_value()),
        ])
    }
}
impl FromValue for Ttp9p11 {
    fn from_value(v: &Value) -> Self {
        let s = match v { Value::Seq(s) => s, other => panic!("Ttp9p11: expected Seq, got {other:?}") };
        assert_eq!(s.len(), 2, "Ttp9p11: component count");
        let _ = s;
        Ttp9p11 {
            rc: s[0].as_ref().map(FromValue::from_value),
            so: s[1].as_ref().map(FromValue::from_value),
        }
    }
}
impl ToValue for Ttp9p11 {
    fn to_value(&self) -> Value {
        Value::Seq(vec![
            self.rc.as_ref().map(|x| x.to_value()),
            self.so.as_ref().map(|x| x.to_value()),
        ])
    }
}
impl FromValue for Ttp9p12 {
    fn from_value(v: &Value) -> Self {
        let s = match v { Value::Seq(s) => s, other => panic!("Ttp9p12: expected Seq, got {other:?}") };
        assert_eq!(s.len(), 2, "Ttp9p12: component count");
        let _ = s;
        Ttp9p12 {
            rc: s[0].as_ref().map(FromValue::from_value),
            st: FromValue::from_value(s[1].as_ref().expect("component st of Ttp9p12 must be present")),
        }
    }
}
impl ToValue for Ttp9p12 {
    fn to_value(&self) -> Value {
        Value::Seq(vec![
            self.rc.as_ref().map(|x| x.to_value()),
            Some(self.st.to_value()),
        ])
    }
}
impl FromValue for Ttp9p13 {
    fn from_value(v: &Value) -> Self {
        let s = match v { Value::Seq(s) => s, other => panic!("Ttp9p13: expected Seq, got {other:?}") };
        assert_eq!(s.len(), 2, "Ttp9p13: component count");
        let _ = s;
        Ttp9p13 {
            rc: s[0].as_ref().map(FromValue::from_value),
            rx: s[1].as_ref().map(FromValue::from_value),
        }
    }
}
impl ToValue for Ttp9p13 {
    fn to_value(&self) -> Value {
        Value::Seq(vec![
            self.rc.as_ref().map(|x| x.to_value()),
            self.rx.as_ref().map(|x| x.to_value()),
        ])
    }
}
impl FromValue for Ttp9p14 {
    fn from_value(v: &Value) -> Self {
        let s = match v { Value::Seq(s) => s, other => panic!("Ttp9p14: expected Seq, got {other:?}") };
        assert_eq!(s.len(), 2, "Ttp9p14: component count");
        let _ = s;
        Ttp9p14 {
            rc: s[0].as_ref().map(FromValue::from_value),
            u2: FromValue::from_value(s[1].as_ref().expect("component u2 of Ttp9p14 must be present")),
        }
    }
}
impl ToValue for Ttp9p14 {
    fn to_value(&self) -> Value {
        Value::Seq(vec![
            self.rc.as_ref().map(|x| x.to_value()),
            Some(self.u2.to_value()),
        ])
    }
}
impl FromValue for Ttp9p15Is {
    fn from_value(v: &Value) -> Self {
        let s = match v { Value::Seq(s) => s, other => panic!("Ttp9p15Is: expected Seq, got {other:?}") };
        assert_eq!(s.len(), 1, "Ttp9p15Is: component count");
        let _ = s;
        Ttp9p15Is {
            v: FromValue::from_value(s[0].as_ref().expect("component v of Ttp9p15Is must be present")),
        }
    }
}
impl ToValue for Ttp9p15Is {
    fn to_value(&self) -> Value {
        Value::Seq(vec![
            Some(self.v.to_value()),
        ])
    }
}
impl FromValue for Ttp9p15 {
    fn from_value(v: &Value) -> Self {
        let s = match v { Value::Seq(s) => s, other => panic!("Ttp9p15: expected Seq, got {other:?}") };
        assert_eq!(s.len(), 2, "Ttp9p15: component count");
        let _ = s;
        Ttp9p15 {
            rc: s[0].as_ref().map(FromValue::from_value),
            is: s[1].as_ref().map(FromValue::from_value),
        }
    }
}
impl ToValue for Ttp9p15 {
    fn to_value(&self) -> Value {
        Value::Seq(vec![
            self.rc.as_ref().map(|x| x.to_value()),
            self.is.as_ref().map(|x| x.to_value()),
        ])
    }
}
impl FromValue for Ttp10p0 {
    fn from_value(v: &Value) -> Self {
        let s = match v { Value::Seq(s) => s, other => panic!("Ttp10p0: expected Seq, got {other:?}") };
        assert_eq!(s.len(), 2, "Ttp10p0: component count");
        let _ = s;
        Ttp10p0 {
            rt: FromValue::from_value(s[0].as_ref().expect("component rt of Ttp10p0 must be present")),
            x: FromValue::from_value(s[1].as_ref().expect("component x of Ttp10p0 must be present")),
        }
    }
}
impl ToValue for Ttp10p0 {
    fn to_value(&self) -> Value {
        Value::Seq(vec![
            Some(self.rt.to_value()),
            Some(self.x.to_value()),
        ])
    }
}
impl FromValue for Ttp10p1 {
    fn from_value(v: &Value) -> Self {
        let s = match v { Value::Seq(s) => s, other => panic!("Ttp10p1: expected Seq, got {other:?}") };
        assert_eq!(s.len(), 2, "Ttp10p1: component count");
        let _ = s;
        Ttp10p1 {
            rt: FromValue::from_value(s[0].as_ref().expect("component rt of Ttp10p1 must be present")),
            a: s[1].as_ref().map(FromValue::from_value),
        }
    }
}
impl ToValue for Ttp10p1 {
    fn to_value(&self) -> Value {
        Value::Seq(vec![
            Some(self.rt.to_value()),
            self.a.as_ref().map(|x| x.to_value()),
        ])
    }
}
impl FromValue for Ttp10p2 {
    fn from_value(v: &Value) -> Self {
        let s = match v { Value::Seq(s) => s, other => panic!("Ttp10p2: expected Seq, got {other:?}") };
        assert_eq!(s.len(), 2, "Ttp10p2: component count");
        let _ = s;
        Ttp10p2 {
            rt: FromValue::from_value(s[0].as_ref().expect("component rt of Ttp10p2 must be present")),
            c3: FromValue::from_value(s[1].as_ref().expect("component c3 of Ttp10p2 must be present")),
        }
    }
}
impl ToValue for Ttp10p2 {
    fn to_value(&self) -> Value {
        Value::Seq(vec![
            Some(self.rt.to_value()),
            Some(self.c3.to_value()),
        ])
    }
}
impl FromValue for Ttp10p3 {
    fn from_value(v: &Value) -> Self {
        let s = match v { Value::Seq(s) => s, other => panic!("Ttp10p3: expected Seq, got {other:?}") };
        assert_eq!(s.len(), 2, "Ttp10p3: component count");
        let _ = s;
        Ttp10p3 {
            rt: FromValue::from_value(s[0].as_ref().expect("component rt of Ttp10p3 must be present")),
            c0: s[1].as_ref().map(FromValue::from_value),
        }
    }
}
impl ToValue for Ttp10p3 {
    fn to_value(&self) -> Value {
        Value::Seq(vec![
            Some(self.rt.to_value()),
            self.c0.as_ref().map(|x| x.to_value()),
        ])
    }
}
impl FromValue for Ttp10p4 {
    fn from_value(v: &Value) -> Self {
        let s = match v { Value::Seq(s) => s, other => panic!("Ttp10p4: expected Seq, got {other:?}") };
        assert_eq!(s.len(), 2, "Ttp10p4: component count");
        let _ = s;
        Ttp10p4 {
            rt: FromValue::from_value(s[0].as_ref().expect("component rt of Ttp10p4 must be present")),
            p: FromValue::from_value(s[1].as_ref().expect("component p of Ttp10p4 must be present")),
        }
    }
}
impl ToValue for Ttp10p4 {
    fn to_value(&self) -> Value {
        Value::Seq(vec![
            Some(self.rt.to_value()),
            Some(self.p.to_value()),
        ])
    }
}
impl FromValue for Ttp10p5 {
    fn from_value(v: &Value) -> Self {
        let s = match v { Value::Seq(s) => s, other => panic!("Ttp10p5: expected Seq, got {other:?}") };
        assert_eq!(s.len(), 2, "Ttp10p5: component count");
        let _ = s;
        Ttp10p5 {
            rt: FromValue::from_value(s[0].as_ref().expect("component rt of Ttp10p5 must be present")),
            b: s[1].as_ref().map(FromValue::from_value),
        }
    }
}
impl ToValue for Ttp10p5 {
    fn to_value(&self) -> Value {
        Value::Seq(vec![
            Some(self.rt.to_value()),
            self.b.as_ref().map(|x| x.to_value()),
        ])
    }
}
impl FromValue for Ttp10p6 {
    fn from_value(v: &Value) -> Self {
        let s = match v { Value::Seq(s) => s, other => panic!("Ttp10p6: expected Seq, got {other:?}") };
        assert_eq!(s.len(), 2, "Ttp10p6: component count");
        let _ = s;
        Ttp10p6 {
            rt: FromValue::from_value(s[0].as_ref().expect("component rt of Ttp10p6 must be present")),
            i: FromValue::from_value(s[1].as_ref().expect("component i of Ttp10p6 must be present")),
        }
    }
}
impl ToValue for Ttp10p6 {
    fn to_value(&self) -> Value {
        Value::Seq(vec![
            Some(self.rt.to_value()),
            Some(self.i.to_value()),
        ])
    }
}
impl FromValue for Ttp10p7 {
    fn from_value(v: &Value) -> Self {
        let s = match v { Value::Seq(s) => s, other => panic!("Ttp10p7: expected Seq, got {other:?}") };
        assert_eq!(s.len(), 2, "Ttp10p7: component count");
        let _ = s;
        Ttp10p7 {
            rt: FromValue::from_value(s[0].as_ref().expect("component rt of Ttp10p7 must be present")),
            ra: s[1].as_ref().map(FromValue::from_value),
        }
    }
}
impl ToValue for Ttp10p7 {
    fn to_value(&self) -> Value {
        Value::Seq(vec![
            Some(self.rt.to_value()),
            self.ra.as_ref().map(|x| x.to_value()),
        ])
    }
}
impl FromValue for Ttp10p8 {
    fn from_value(v: &Value) -> Self {
        let s = match v { Value::Seq(s) => s, other => panic!("Ttp10p8: expected Seq, got {other:?}") };
        assert_eq!(s.len(), 2, "Ttp10p8: component count");
        let _ = s;
        Ttp10p8 {
            rt: FromValue::from_value(s[0].as_ref().expect("component rt of Ttp10p8 must be present")),
            rs: FromValue::from_value(s[1].as_ref().expect("component rs of Ttp10p8 must be present")),
        }
    }
}
impl ToValue for Ttp10p8 {
    fn to_value(&self) -> Value {
        Value::Seq(vec![
            Some(self.rt.to_value()),
            Some(self.rs.to_value()),
        ])
    }
}
impl FromValue for Ttp10p9 {
    fn from_value(v: &Value) -> Self {
        let s = match v { Value::Seq(s) => s, other => panic!("Ttp10p9: expected Seq, got {other:?}") };
        assert_eq!(s.len(), 2, "Ttp10p9: component count");
        let _ = s;
        Ttp10p9 {
            rt: FromValue::from_value(s[0].as_ref().expect("component rt of Ttp10p9 must be present")),
            rc: s[1].as_ref().map(FromValue::from_value),
        }
    }
}
impl ToValue for Ttp10p9 {
    fn to_value(&self) -> Value {
        Value::Seq(vec![
            Some(self.rt.to_value()),
            self.rc.as_ref().map(|x| x.to_value()),
        ])
    }
}
impl FromValue for Ttp10p11 {
    fn from_value(v: &Value) -> Self {
        let s = match v { Value::Seq(s) => s, other => panic!("Ttp10p11: expected Seq, got {other:?}") };
        assert_eq!(s.len(), 2, "Ttp10p11: component count");
        let _ = s;
        Ttp10p11 {
            rt: FromValue::from_value(s[0].as_ref().expect("component rt of Ttp10p11 must be present")),
            so: s[1].as_ref().map(FromValue::from_value),
        }
    }
}
impl ToValue for Ttp10p11 {
    fn to_value(&self) -> Value {
        Value::Seq(vec![
            Some(self.rt.to_value()),
            self.so.as_ref().map(|x| x.to_value()),
        ])
    }
}
impl FromValue for Ttp10p12 {
    fn from_value(v: &Value) -> Self {
        let s = match v { Value::Seq(s) => s, other => panic!("Ttp10p12: expected Seq, got {other:?}") };
        assert_eq!(s.len(), 2, "Ttp10p12: component count");
        let _ = s;
        Ttp10p12 {
            rt: FromValue::from_value(s[0].as_ref().expect("component rt of Ttp10p12 must be present")),
            st: FromValue::from_value(s[1].as_ref().expect("component st of Ttp10p12 must be present")),
        }
    }
}
impl ToValue for Ttp10p12 {
    fn to_value(&self) -> Value {
        Value::Seq(vec![
            Some(self.rt.to_value()),
            Some(self.st.to_value()),
        ])
    }
}
impl FromValue for Ttp10p13 {
    fn from_value(v: &Value) -> Self {
        let s = match v { Value::Seq(s) => s, other => panic!("Ttp10p13: expected Seq, got {other:?}") };
        assert_eq!(s.len(), 2, "Ttp10p13: component count");
        let _ = s;
        Ttp10p13 {
            rt: FromValue::from_value(s[0].as_ref().expect("component rt of Ttp10p13 must be present")),
            rx: s[1].as_ref().map(FromValue::from_value),
        }
    }
}
impl ToValue for Ttp10p13 {
    fn to_value(&self) -> Value {
        Value::Seq(vec![
            Some(self.rt.to_value()),
            self.rx.as_ref().map(|x| x.to_value()),
        ])
    }
}
impl FromValue for Ttp10p14 {
    fn from_value(v: &Value) -> Self {
        let s = match v { Value::Seq(s) => s, other => panic!("Ttp10p14: expected Seq, got {other:?}") };
        assert_eq!(s.len(), 2, "Ttp10p14: component count");
        let _ = s;
        Ttp10p14 {
            rt: FromValue::from_value(s[0].as_ref().expect("component rt of Ttp10p14 must be present")),
            u2: FromValue::from_value(s[1].as_ref().expect("component u2 of Ttp10p14 must be present")),
        }
    }
}
impl ToValue for Ttp10p14 {
    fn to_value(&self) -> Value {
        Value::Seq(vec![
            Some(self.rt.to_value()),
            Some(self.u2.to_value()),
        ])
    }
}
impl FromValue for Ttp10p15Is {
    fn from_value(v: &Value) -> Self {
        let s = match v { Value::Seq(s) => s, other => panic!("Ttp10p15Is: expected Seq, got {other:?}") };
        assert_eq!(s.len(), 1, "Ttp10p15Is: component count");
        let _ = s;
        Ttp10p15Is {
            v: FromValue::from_value(s[0].as_ref().expect("component v of Ttp10p15Is must be present")),
        }
    }
}
impl ToValue for Ttp10p15Is {
    fn to_value(&self) -> Value {
        Value::Seq(vec![
            Some(self.v.to_value()),
        ])
    }
}
impl FromValue for Ttp10p15 {
    fn from_value(v: &Value) -> Self {
        let s = match v { Value::Seq(s) => s, other => panic!("Ttp10p15: expected Seq, got {other:?}") };
        assert_eq!(s.len(), 2, "Ttp10p15: component count");
        let _ = s;
        Ttp10p15 {
            rt: FromValue::from_value(s[0].as_ref().expect("component rt of Ttp10p15 must be present")),
            is: s[1].as_ref().map(FromValue::from_value),
        }
    }
}
impl ToValue for Ttp10p15 {
    fn to_value(&self) -> Value {
        Value::Seq(vec![
            Some(self.rt.to_value()),
            self.is.as_ref().map(|x| x.to_value()),
        ])
    }
}
impl FromValue for Ttp11p0 {
    fn from_value(v: &Value) -> Self {
        let s = match v { Value::Seq(s) => s, other => panic!("Ttp11p0: expected Seq, got {other:?}") };
        assert_eq!(s.len(), 2, "Ttp11p0: component count");
        let _ = s;
        Ttp11p0 {
            so: s[0].as_ref().map(FromValue::from_value),
            x: FromValue::from_value(s[1].as_ref().expect("component x of Ttp11p0 must be present")),
        }
    }
}
impl ToValue for Ttp11p0 {
    fn to_value(&self) -> Value {
        Value::Seq(vec![
            self.so.as_ref().map(|x| x.to_value()),
            Some(self.x.to_value()),
        ])
    }
}
impl FromValue for Ttp11p1 {
    fn from_value(v: &Value) -> Self {
        let s = match v { Value::Seq(s) => s, other => panic!("Ttp11p1: expected Seq, got {other:?}") };
        assert_eq!(s.len(), 2, "Ttp11p1: component count");
        let _ = s;
        Ttp11p1 {
            so: s[0].as_ref().map(FromValue::from_value),
            a: s[1].as_ref().map(FromValue::from_value),
        }
    }
}
impl ToValue for Ttp11p1 {
    fn to_value(&self) -> Value {
        Value::Seq(vec![
            self.so.as_ref().map(|x| x.to_value()),
            self.a.as_ref().map(|x| x.to_value()),
        ])
    }
}
impl FromValue for Ttp11p2 {
    fn from_value(v: &Value) -> Self {
        let s = match v { Value::Seq(s) => s, other => panic!("Ttp11p2: expected Seq, got {other:?}") };
        assert_eq!(s.len(), 2, "Ttp11p2: component count");
        let _ = s;
        Ttp11p2 {
            so: s[0].as_ref().map(FromValue::from_value),
            c3: FromValue::from_value(s[1].as_ref().expect("component c3 of Ttp11p2 must be present")),
        }
    }
}
impl ToValue for Ttp11p2 {
    fn to_value(&self) -> Value {
        Value::Seq(vec![
            self.so.as_ref().map(|x| x.to_value()),
            Some(self.c3.to_value()),
        ])
    }
}
impl FromValue for Ttp11p3 {
    fn from_value(v: &Value) -> Self {
        let s = match v { Value::Seq(s) => s, other => panic!("Ttp11p3: expected Seq, got {other:?}") };
        assert_eq!(s.len(), 2, "Ttp11p3: component count");
        let _ = s;
        Ttp11p3 {
            so: s[0].as_ref().map(FromValue::from_value),
            c0: s[1].as_ref().map(FromValue::from_value),
        }
    }
}
impl ToValue for Ttp11p3 {
    fn to_value(&self) -> Value {
        Value::Seq(vec![
            self.so.as_ref().map(|x| x.to_value()),
            self.c0.as_ref().map(|x| x.to_value()),
        ])
    }
}
impl FromValue for Ttp11p4 {
    fn from_value(v: &Value) -> Self {
        let s = match v { Value::Seq(s) => s, other => panic!("Ttp11p4: expected Seq, got {other:?}") };
        assert_eq!(s.len(), 2, "Ttp11p4: component count");
        let _ = s;
        Ttp11p4 {
            so: s[0].as_ref().map(FromValue::from_value),
            p: FromValue::from_value(s[1].as_ref().expect("component p of Ttp11p4 must be present")),
        }
    }
}
impl ToValue for Ttp11p4 {
    fn to_value(&self) -> Value {
        Value::Seq(vec![
            self.so.as_ref().map(|x| x.to_value()),
            Some(self.p.to_value()),
        ])
    }
}
impl FromValue for Ttp11p5 {
    fn from_value(v: &Value) -> Self {
        let s = match v { Value::Seq(s) => s, other => panic!("Ttp11p5: expected Seq, got {other:?}") };
        assert_eq!(s.len(), 2, "Ttp11p5: component count");
        let _ = s;
        Ttp11p5 {
            so: s[0].as_ref().map(FromValue::from_value),
            b: s[1].as_ref().map(FromValue::from_value),
        }
    }
}
impl ToValue for Ttp11p5 {
    fn to_value(&self) -> Value {
        Value::Seq(vec![
            self.so.as_ref().map(|x| x.to_value()),
            self.b.as_ref().map(|x| x.to_value()),
        ])
    }
}
impl FromValue for Ttp11p6 {
    fn from_value(v: &Value) -> Self {
        let s = match v { Value::Seq(s) => s, other => panic!("Ttp11p6: expected Seq, got {other:?}") };
        assert_eq!(s.len(), 2, "Ttp11p6: component count");
        let _ = s;
        Ttp11p6 {
            so: s[0].as_ref().map(FromValue::from_value),
            i: FromValue::from_value(s[1].as_ref().expect("component i of Ttp11p6 must be present")),
        }
    }
}
impl ToValue for Ttp11p6 {
    fn to_value(&self) -> Value {
        Value::Seq(vec![
            self.so.as_ref().map(|x| x.to_value()),
            Some(self.i.to_value()),
        ])
    }
}
impl FromValue for Ttp11p7 {
    fn from_value(v: &Value) -> Self {
        let s = match v { Value::Seq(s) => s, other => panic!("Ttp11p7: expected Seq, got {other:?}") };
        assert_eq!(s.len(), 2, "Ttp11p7: component count");
        let _ = s;
        Ttp11p7 {
            so: s[0].as_ref().map(FromValue::from_value),
            ra: s[1].as_ref().map(FromValue::from_value),
        }
    }
}
impl ToValue for Ttp11p7 {
    fn to_value(&self) -> Value {
        Value::Seq(vec![
            self.so.as_ref().map(|x| x.to_value()),
            self.ra.as_ref().map(|x| x.to_value()),
        ])
    }
}
impl FromValue for Ttp11p8 {
    fn from_value(v: &Value) -> Self {
        let s = match v { Value::Seq(s) => s, other => panic!("Ttp11p8: expected Seq, got {other:?}") };
        assert_eq!(s.len(), 2, "Ttp11p8: component count");
        let _ = s;
        Ttp11p8 {
            so: s[0].as_ref().map(FromValue::from_value),
            rs: FromValue::from_value(s[1].as_ref().expect("component rs of Ttp11p8 must be present")),
        }
    }
}
impl ToValue for Ttp11p8 {
    fn to_value(&self) -> Value {
        Value::Seq(vec![
            self.so.as_ref().map(|x| x.to_value()),
            Some(self.rs.to_value()),
        ])
    }
}
impl FromValue for Ttp11p9 {
    fn from_value(v: &Value) -> Self {
        let s = match v { Value::Seq(s) => s, other => panic!("Ttp11p9: expected Seq, got {other:?}") };
        assert_eq!(s.len(), 2, "Ttp11p9: component count");
        let _ = s;
        Ttp11p9 {
            so: s[0].as_ref().map(FromValue::from_value),
            rc: s[1].as_ref().map(FromValue::from_value),
        }
    }
}
impl ToValue for Ttp11p9 {
    fn to_value(&self) -> Value {
        Value::Seq(vec![
            self.so.as_ref().map(|x| x.to_value()),
            self.rc.as_ref().map(|x| x.to_value()),
        ])
    }
}
impl FromValue for Ttp11p10 {
    fn from_value(v: &Value) -> Self {
        let s = match v { Value::Seq(s) => s, other => panic!("Ttp11p10: expected Seq, got {other:?}") };
        assert_eq!(s.len(), 2, "Ttp11p10: component count");
        let _ = s;
        Ttp11p10 {
            so: s[0].as_ref().map(FromValue::from_value),
            rt: FromValue::from_value(s[1].as_ref().expect("component rt of Ttp11p10 must be present")),
        }
    }
}
impl ToValue for Ttp11p10 {
    fn to_value(&self) -> Value {
        Value::Seq(vec![
            self.so.as_ref().map(|x| x.to_value()),
            Some(self.rt.to_value()),
        ])
    }
}
impl FromValue for Ttp11p12 {
    fn from_value(v: &Value) -> Self {
        let s = match v { Value::Seq(s) => s, other => panic!("Ttp11p12: expected Seq, got {other:?}") };
        assert_eq!(s.len(), 2, "Ttp11p12: component count");
        let _ = s;
        Ttp11p12 {
            so: s[0].as_ref().map(FromValue::from_value),
            st: FromValue::from_value(s[1].as_ref().expect("component st of Ttp11p12 must be present")),
        }
    }
}
impl ToValue for Ttp11p12 {
    fn to_value(&self) -> Value {
        Value::Seq(vec![
            self.so.as_ref().map(|x| x.to_value()),
            Some(self.st.to_value()),
        ])
    }
}
impl FromValue for Ttp11p13 {
    fn from_value(v: &Value) -> Self {
        let s = match v { Value::Seq(s) => s, other => panic!("Ttp11p13: expected Seq, got {other:?}") };
        assert_eq!(s.len(), 2, "Ttp11p13: component count");
        let _ = s;
        Ttp11p13 {
            so: s[0].as_ref().map(FromValue::from_value),
            rx: s[1].as_ref().map(FromValue::from_value),
        }
    }
}
impl ToValue for Ttp11p13 {
    fn to_value(&self) -> Value {
        Value::Seq(vec![
            self.so.as_ref().map(|x| x.to_value()),
            self.rx.as_ref().map(|x| x.to_value()),
        ])
    }
}
impl FromValue for Ttp11p14 {
    fn from_value(v: &Value) -> Self {
        let s = match v { Value::Seq(s) => s, other => panic!("Ttp11p14: expected Seq, got {other:?}") };
        assert_eq!(s.len(), 2, "Ttp11p14: component count");
        let _ = s;
        Ttp11p14 {
            so: s[0].as_ref().map(FromValue::from_value),
            u2: FromValue::from_value(s[1].as_ref().expect("component u2 of Ttp11p14 must be present")),
        }
    }
}
impl ToValue for Ttp11p14 {
    fn to_value(&self) -> Value {
        Value::Seq(vec![
            self.so.as_ref().map(|x| x.to_value()),
            Some(self.u2.to_value()),
        ])
    }
}
impl FromValue for Ttp11p15Is {
    fn from_value(v: &Value) -> Self {
        let s = match v { Value::Seq(s) => s, other => panic!("Ttp11p15Is: expected Seq, got {other:?}") };
        assert_eq!(s.len(), 1, "Ttp11p15Is: component count");
        let _ = s;
        Ttp11p15Is {
            v: FromValue::from_value(s[0].as_ref().expect("component v of Ttp11p15Is must be present")),
        }
    }
}
impl ToValue for Ttp11p15Is {
    fn to_value(&self) -> Value {
        Value::Seq(vec![
            Some(self.v.to_value()),
        ])
    }
}
impl FromValue for Ttp11p15 {
    fn from_value(v: &Value) -> Self {
        let s = match v { Value::Seq(s) => s, other => panic!("Ttp11p15: expected Seq, got {other:?}") };
        assert_eq!(s.len(), 2, "Ttp11p15: component count");
        let _ = s;
        Ttp11p15 {
            so: s[0].as_ref().map(FromValue::from_value),
            is: s[1].as_ref().map(FromValue::from_value),
        }
    }
}
impl ToValue for Ttp11p15 {
    fn to_value(&self) -> Value {
        Value::Seq(vec![
            self.so.as_ref().map(|x| x.to_value()),
            self.is.as_ref().map(|x| x.to_value()),
        ])
    }
}
impl FromValue for Ttp12p0 {
    fn from_value(v: &Value) -> Self {
        let s = match v { Value::Seq(s) => s, other => panic!("Ttp12p0: expected Seq, got {other:?}") };
        assert_eq!(s.len(), 2, "Ttp12p0: component count");
        let _ = s;
        Ttp12p0 {
            st: FromValue::from_value(s[0].as_ref().expect("component st of Ttp12p0 must be present")),
            x: FromValue::from_value(s[1].as_ref().expect("component x of Ttp12p0 must be present")),
        }
    }
}
impl ToValue for Ttp12p0 {
    fn to_value(&self) -> Value {
        Value::Seq(vec![
            Some(self.st.to_value()),
            Some(self.x.to_value()),
        ])
    }
}
impl FromValue for Ttp12p1 {
    fn from_value(v: &Value) -> Self {
        let s = match v { Value::Seq(s) => s, other => panic!("Ttp12p1: expected Seq, got {other:?}") };
        assert_eq!(s.len(), 2, "Ttp12p1: component count");
        let _ = s;
        Ttp12p1 {
            st: FromValue::from_value(s[0].as_ref().expect("component st of Ttp12p1 must be present")),
            a: s[1].as_ref().map(FromValue::from_value),
        }
    }
}
impl ToValue for Ttp12p1 {
    fn to_value(&self) -> Value {
        Value::Seq(vec![
            Some(self.st.to_value()),
            self.a.as_ref().map(|x| x.to_value()),
        ])
    }
}
impl FromValue for Ttp12p2 {
    fn from_value(v: &Value) -> Self {
        let s = match v { Value::Seq(s) => s, other => panic!("Ttp12p2: expected Seq, got {other:?}") };
        assert_eq!(s.len(), 2, "Ttp12p2: component count");
        let _ = s;
        Ttp12p2 {
            st: FromValue::from_value(s[0].as_ref().expect("component st of Ttp12p2 must be present")),
            c3: FromValue::from_value(s[1].as_ref().expect("component c3 of Ttp12p2 must be present")),
        }
    }
}
impl ToValue for Ttp12p2 {
    fn to_value(&self) -> Value {
        Value::Seq(vec![
            Some(self.st.to_value()),
            Some(self.c3.to_value()),
        ])
    }
}
impl FromValue for Ttp12p3 {
    fn from_value(v: &Value) -> Self {
        let s = match v { Value::Seq(s) => s, other => panic!("Ttp12p3: expected Seq, got {other:?}") };
        assert_eq!(s.len(), 2, "Ttp12p3: component count");
        let _ = s;
        Ttp12p3 {
            st: FromValue::from_value(s[0].as_ref().expect("component st of Ttp12p3 must be present")),
            c0: s[1].as_ref().map(FromValue::from_value),
        }
    }
}
impl ToValue for Ttp12p3 {
    fn to_value(&self) -> Value {
        Value::Seq(vec![
            Some(self.st.to_value()),
            self.c0.as_ref().map(|x| x.to_value()),
        ])
    }
}
impl FromValue for Ttp12p4 {
    fn from_value(v: &Value) -> Self {
        let s = match v { Value::Seq(s) => s, other => panic!("Ttp12p4: expected Seq, got {other:?}") };
        assert_eq!(s.len(), 2, "Ttp12p4: component count");
        let _ = s;
        Ttp12p4 {
            st: FromValue::from_value(s[0].as_ref().expect("component st of Ttp12p4 must be present")),
            p: FromValue::from_value(s[1].as_ref().expect("component p of Ttp12p4 must be present")),
        }
    }
}
impl ToValue for Ttp12p4 {
    fn to_value(&self) -> Value {
        Value::Seq(vec![
            Some(self.st.to_value()),
            Some(self.p.to_value()),
        ])
    }
}
impl FromValue for Ttp12p5 {
    fn from_value(v: &Value) -> Self {
        let s = match v { Value::Seq(s) => s, other => panic!("Ttp12p5: expected Seq, got {other:?}") };
        assert_eq!(s.len(), 2, "Ttp12p5: component count");
        let _ = s;
        Ttp12p5 {
            st: FromValue::from_value(s[0].as_ref().expect("component st of Ttp12p5 must be present")),
            b: s[1].as_ref().map(FromValue::from_value),
        }
    }
}
impl ToValue for Ttp12p5 {
    fn to_value(&self) -> Value {
        Value::Seq(vec![
            Some(self.st.to_value()),
            self.b.as_ref().map(|x| x.to_value()),
        ])
    }
}
impl FromValue for Ttp12p6 {
    fn from_value(v: &Value) -> Self {
        let s = match v { Value::Seq(s) => s, other => panic!("Ttp12p6: expected Seq, got {other:?}") };
        assert_eq!(s.len(), 2, "Ttp12p6: component count");
        let _ = s;
        Ttp12p6 {
            st: FromValue::from_value(s[0].as_ref().expect("component st of Ttp12p6 must be present")),
            i: FromValue::from_value(s[1].as_ref().expect("component i of Ttp12p6 must be present")),
        }
    }
}
impl ToValue for Ttp12p6 {
    fn to_value(&self) -> Value {
        Value::Seq(vec![
            Some(self.st.to_value()),
            Some(self.i.to_value()),
        ])
    }
}
impl FromValue for Ttp12p7 {
    fn from_value(v: &Value) -> Self {
        let s = match v { Value::Seq(s) => s, other => panic!("Ttp12p7: expected Seq, got {other:?}") };
        assert_eq!(s.len(), 2, "Ttp12p7: component count");
        let _ = s;
        Ttp12p7 {
            st: FromValue::from_value(s[0].as_ref().expect("component st of Ttp12p7 must be present")),
            ra: s[1].as_ref().map(FromValue::from_value),
        }
    }
}
impl ToValue for Ttp12p7 {
    fn to_value(&self) -> Value {
        Value::Seq(vec![
            Some(self.st.to_value()),
            self.ra.as_ref().map(|x| x.to_value()),
        ])
    }
}
impl FromValue for Ttp12p8 {
    fn from_value(v: &Value) -> Self {
        let s = match v { Value::Seq(s) => s, other => panic!("Ttp12p8: expected Seq, got {other:?}") };
        assert_eq!(s.len(), 2, "Ttp12p8: component count");
        let _ = s;
        Ttp12p8 {
            st: FromValue::from_value(s[0].as_ref().expect("component st of Ttp12p8 must be present")),
            rs: FromValue::from_value(s[1].as_ref().expect("component rs of Ttp12p8 must be present")),
        }
    }
}
impl ToValue for Ttp12p8 {
    fn to_value(&self) -> Value {
        Value::Seq(vec![
            Some(self.st.to_value()),
            Some(self.rs.to_value()),
        ])
    }
}
impl FromValue for Ttp12p9 {
    fn from_value(v: &Value) -> Self {
        let s = match v { Value::Seq(s) => s, other => panic!("Ttp12p9: expected Seq, got {other:?}") };
        assert_eq!(s.len(), 2, "Ttp12p9: component count");
        let _ = s;
        Ttp12p9 {
            st: FromValue::from_value(s[0].as_ref().expect("component st of Ttp12p9 must be present")),
            rc: s[1].as_ref().map(FromValue::from_value),
        }
    }
}
impl ToValue for Ttp12p9 {
    fn to_value(&self) -> Value {
        Value::Seq(vec![
            Some(self.st.to_value()),
            self.rc.as_ref().map(|x| x.to_value()),
        ])
    }
}
impl FromValue for Ttp12p10 {
    fn from_value(v: &Value) -> Self {
        let s = match v { Value::Seq(s) => s, other => panic!("Ttp12p10: expected Seq, got {other:?}") };
        assert_eq!(s.len(), 2, "Ttp12p10: component count");
        let _ = s;
        Ttp12p10 {
            st: FromValue::from_value(s[0].as_ref().expect("component st of Ttp12p10 must be present")),
            rt: FromValue::from_value(s[1].as_ref().expect("component rt of Ttp12p10 must be present")),
        }
    }
}
impl ToValue for Ttp12p10 {
    fn to_value(&self) -> Value {
        Value::Seq(vec![
            Some(self.st.to_value()),
            Some(self.rt.to_value()),
        ])
    }
}
impl FromValue for Ttp12p11 {
    fn from_value(v: &Value) -> Self {
        let s = match v { Value::Seq(s) => s, other => panic!("Ttp12p11: expected Seq, got {other:?}") };
        assert_eq!(s.len(), 2, "Ttp12p11: component count");
        let _ = s;
        Ttp12p11 {
            st: FromValue::from_value(s[0].as_ref().expect("component st of Ttp12p11 must be present")),
            so: s[1].as_ref().map(FromValue::from_value),
        }
    }
}
impl ToValue for Ttp12p11 {
    fn to_value(&self) -> Value {
        Value::Seq(vec![
            Some(self.st.to_value()),
            self.so.as_ref().map(|x| x.to_value()),
        ])
    }
}
impl FromValue for Ttp12p13 {
    fn from_value(v: &Value) -> Self {
        let s = match v { Value::Seq(s) => s, other => panic!("Ttp12p13: expected Seq, got {other:?}") };
        assert_eq!(s.len(), 2, "Ttp12p13: component count");
        let _ = s;
        Ttp12p13 {
            st: FromValue::from_value(s[0].as_ref().expect("component st of Ttp12p13 must be present")),
            rx: s[1].as_ref().map(FromValue::from_value),
        }
    }
}
impl ToValue for Ttp12p13 {
    fn to_value(&self) -> Value {
        Value::Seq(vec![
            Some(self.st.to_value()),
            self.rx.as_ref().map(|x| x.to_value()),
        ])
    }
}
impl FromValue for Ttp12p14 {
    fn from_value(v: &Value) -> Self {
        let s = match v { Value::Seq(s) => s, other => panic!("Ttp12p14: expected Seq, got {other:?}") };
        assert_eq!(s.len(), 2, "Ttp12p14: component count");
        let _ = s;
        Ttp12p14 {
            st: FromValue::from_value(s[0].as_ref().expect("component st of Ttp12p14 must be present")),
            u2: FromValue::from_value(s[1].as_ref().expect("component u2 of Ttp12p14 must be present")),
        }
    }
}
impl ToValue for Ttp12p14 {
    fn to_value(&self) -> Value {
        Value::Seq(vec![
            Some(self.st.to_value()),
            Some(self.u2.to_value()),
        ])
    }
}
impl FromValue for Ttp12p15Is {
    fn from_value(v: &Value) -> Self {
        let s = match v { Value::Seq(s) => s, other => panic!("Ttp12p15Is: expected Seq, got {other:?}") };
        assert_eq!(s.len(), 1, "Ttp12p15Is: component count");
        let _ = s;
        Ttp12p15Is {
            v: FromValue::from_value(s[0].as_ref().expect("component v of Ttp12p15Is must be present")),
        }
    }
}
impl ToValue for Ttp12p15Is {
    fn to_value(&self) -> Value {
        Value::Seq(vec![
            Some(self.v.to_value()),
        ])
    }
}
impl FromValue for Ttp12p15 {
    fn from_value(v: &Value) -> Self {
        let s = match v { Value::Seq(s) => s, other => panic!("Ttp12p15: expected Seq, got {other:?}") };
        assert_eq!(s.len(), 2, "Ttp12p15: component count");
        let _ = s;
        Ttp12p15 {
            st: FromValue::from_value(s[0].as_ref().expect("component st of Ttp12p15 must be present")),
            is: s[1].as_ref().map(FromValue::from_value),
        }
    }
}
impl ToValue for Ttp12p15 {
    fn to_value(&self) -> Value {
        Value::Seq(vec![
            Some(self.st.to_value()),
            self.is.as_ref().map(|x| x.to_value()),
        ])
    }
}
impl FromValue for Ttp13p0 {
    fn from_value(v: &Value) -> Self {
        let s = match v { Value::Seq(s) => s, other => panic!("Ttp13p0: expected Seq, got {other:?}") };
        assert_eq!(s.len(), 2, "Ttp13p0: component count");
        let _ = s;
        Ttp13p0 {
            rx: s[0].as_ref().map(FromValue::from_value),
            x: FromValue::from_value(s[1].as_ref().expect("component x of Ttp13p0 must be present")),
        }
    }
}
impl ToValue for Ttp13p0 {
    fn to_value(&self) -> Value {
        Value::Seq(vec![
            self.rx.as_ref().map(|x| x.to_value()),
            Some(self.x.to_value()),
        ])
    }
}
impl FromValue for Ttp13p1 {
    fn from_value(v: &Value) -> Self {
        let s = match v { Value::Seq(s) => s, other => panic!("Ttp13p1: expected Seq, got {other:?}") };
        assert_eq!(s.len(), 2, "Ttp13p1: component count");
        let _ = s;
        Ttp13p1 {
            rx: s[0].as_ref().map(FromValue::from_value),
            a: s[1].as_ref().map(FromValue::from_value),
        }
    }
}
impl ToValue for Ttp13p1 {
    fn to_value(&self) -> Value {
        Value::Seq(vec![
            self.rx.as_ref().map(|x| x.to_value()),
            self.a.as_ref().map(|x| x.to_value()),
        ])
    }
}
impl FromValue for Ttp13p2 {
    fn from_value(v: &Value) -> Self {
        let s = match v { Value::Seq(s) => s, other => panic!("Ttp13p2: expected Seq, got {other:?}") };
        assert_eq!(s.len(), 2, "Ttp13p2: component count");
        let _ = s;
        Ttp13p2 {
            rx: s[0].as_ref().map(FromValue::from_value),
            c3: FromValue::from_value(s[1].as_ref().expect("component c3 of Ttp13p2 must be present")),
        }
    }
}
impl ToValue for Ttp13p2 {
    fn to_value(&self) -> Value {
        Value::Seq(vec![
            self.rx.as_ref().map(|x| x.to_value()),
            Some(self.c3.to_value()),
        ])
    }
}
impl FromValue for Ttp13p3 {
    fn from_value(v: &Value) -> Self {
        let s = match v { Value::Seq(s) => s, other => panic!("Ttp13p3: expected Seq, got {other:?}") };
        assert_eq!(s.len(), 2, "Ttp13p3: component count");
        let _ = s;
        Ttp13p3 {
            rx: s[0].as_ref().map(FromValue::from_value),
            c0: s[1].as_ref().map(FromValue::from_value),
        }
    }
}
impl ToValue for Ttp13p3 {
    fn to_value(&self) -> Value {
        Value::Seq(vec![
            self.rx.as_ref().map(|x| x.to_value()),
            self.c0.as_ref().map(|x| x.to_value()),
        ])
    }
}
impl FromValue for Ttp13p4 {
    fn from_value(v: &Value) -> Self {
        let s = match v { Value::Seq(s) => s, other => panic!("Ttp13p4: expected Seq, got {other:?}") };
        assert_eq!(s.len(), 2, "Ttp13p4: component count");
        let _ = s;
        Ttp13p4 {
            rx: s[0].as_ref().map(FromValue::from_value),
            p: FromValue::from_value(s[1].as_ref().expect("component p of Ttp13p4 must be present")),
        }
    }
}
impl ToValue for Ttp13p4 {
    fn to_value(&self) -> Value {
        Value::Seq(vec![
            self.rx.as_ref().map(|x| x.to_value()),
            Some(self.p.to_value()),
        ])
    }
}
impl FromValue for Ttp13p5 {
    fn from_value(v: &Value) -> Self {
        let s = match v { Value::Seq(s) => s, other => panic!("Ttp13p5: expected Seq, got {other:?}") };
        assert_eq!(s.len(), 2, "Ttp13p5: component count");
        let _ = s;
        Ttp13p5 {
            rx: s[0].as_ref().map(FromValue::from_value),
            b: s[1].as_ref().map(FromValue::from_value),
        }
    }
}
impl ToValue for Ttp13p5 {
    fn to_value(&self) -> Value {
        Value::Seq(vec![
            self.rx.as_ref().map(|x| x.to_value()),
            self.b.as_ref().map(|x| x.to_value()),
        ])
    }
}
impl FromValue for Ttp13p6 {
    fn from_value(v: &Value) -> Self {
        let s = match v { Value::Seq(s) => s, other => panic!("Ttp13p6: expected Seq, got {other:?}") };
        assert_eq!(s.len(), 2, "Ttp13p6: component count");
        let _ = s;
        Ttp13p6 {
            rx: s[0].as_ref().map(FromValue::from_value),
            i: FromValue::from_value(s[1].as_ref().expect("component i of Ttp13p6 must be present")),
        }
    }
}
impl ToValue for Ttp13p6 {
    fn to_value(&self) -> Value {
        Value::Seq(vec![
            self.rx.as_ref().map(|x| x.to_value()),
            Some(self.i.to_value()),
        ])
    }
}
impl FromValue for Ttp13p7 {
    fn from_value(v: &Value) -> Self {
        let s = match v { Value::Seq(s) => s, other => panic!("Ttp13p7: expected Seq, got {other:?}") };
        assert_eq!(s.len(), 2, "Ttp13p7: component count");
        let _ = s;
        Ttp13p7 {
            rx: s[0].as_ref().map(FromValue::from_value),
            ra: s[1].as_ref().map(FromValue::from_value),
        }
    }
}
impl ToValue for Ttp13p7 {
    fn to_value(&self) -> Value {
        Value::Seq(vec![
            self.rx.as_ref().map(|x| x.to_value()),
            self.ra.as_ref().map(|x| x.to_value()),
        ])
    }
}
impl FromValue for Ttp13p8 {
    fn from_value(v: &Value) -> Self {
        let s = match v { Value::Seq(s) => s, other => panic!("Ttp13p8: expected Seq, got {other:?}") };
        assert_eq!(s.len(), 2, "Ttp13p8: component count");
        let _ = s;
        Ttp13p8 {
            rx: s[0].as_ref().map(FromValue::from_value),
            rs: FromValue::from_value(s[1].as_ref().expect("component rs of Ttp13p8 must be present")),
        }
    }
}
impl ToValue for Ttp13p8 {
    fn to_value(&self) -> Value {
        Value::Seq(vec![
            self.rx.as_ref().map(|x| x.to_value()),
            Some(self.rs.to_value()),
        ])
    }
}
impl FromValue for Ttp13p9 {
    fn from_value(v: &Value) -> Self {
        let s = match v { Value::Seq(s) => s, other => panic!("Ttp13p9: expected Seq, got {other:?}") };
        assert_eq!(s.len(), 2, "Ttp13p9: component count");
        let _ = s;
        Ttp13p9 {
            rx: s[0].as_ref().map(FromValue::from_value),
            rc: s[1].as_ref().map(FromValue::from_value),
        }
    }
}
impl ToValue for Ttp13p9 {
    fn to_value(&self) -> Value {
        Value::Seq(vec![
            self.rx.as_ref().map(|x| x.to_value()),
            self.rc.as_ref().map(|x| x.to_value()),
        ])
    }
}
impl FromValue for Ttp13p10 {
    fn from_value(v: &Value) -> Self {
        let s = match v { Value::Seq(s) => s, other => panic!("Ttp13p10: expected Seq, got {other:?}") };
        assert_eq!(s.len(), 2, "Ttp13p10: component count");
        let _ = s;
        Ttp13p10 {
            rx: s[0].as_ref().map(FromValue::from_value),
            rt: FromValue::from_value(s[1].as_ref().expect("component rt of Ttp13p10 must be present")),
        }
    }
}
impl ToValue for Ttp13p10 {
    fn to_value(&self) -> Value {
        Value::Seq(vec![
            self.rx.as_ref().map(|x| x.to_value()),
            Some(self.rt.to_value()),
        ])
    }
}
impl FromValue for Ttp13p11 {
    fn from_value(v: &Value) -> Self {
        let s = match v { Value::Seq(s) => s, other => panic!("Ttp13p11: expected Seq, got {other:?}") };
        assert_eq!(s.len(), 2, "Ttp13p11: component count");
        let _ = s;
        Ttp13p11 {
            rx: s[0].as_ref().map(FromValue::from_value),
            so: s[1].as_ref().map(FromValue::from_value),
        }
    }
}
impl ToValue for Ttp13p11 {
    fn to_value(&self) -> Value {
        Value::Seq(vec![
            self.rx.as_ref().map(|x| x.to_value()),
            self.so.as_ref().map(|x| x.to_value()),
        ])
    }
}
impl FromValue for Ttp13p12 {
    fn from_value(v: &Value) -> Self {
        let s = match v { Value::Seq(s) => s, other => panic!("Ttp13p12: expected Seq, got {other:?}") };
        assert_eq!(s.len(), 2, "Ttp13p12: component count");
        let _ = s;
        Ttp13p12 {
            rx: s[0].as_ref().map(FromValue::from_value),
            st: FromValue::from_value(s[1].as_ref().expect("component st of Ttp13p12 must be present")),
        }
    }
}
impl ToValue for Ttp13p12 {
    fn to_value(&self) -> Value {
        Value::Seq(vec![
            self.rx.as_ref().map(|x| x.to_value()),
            Some(self.st.to_value()),
        ])
    }
}
impl FromValue for Ttp13p14 {
    fn from_value(v: &Value) -> Self {
        let s = match v { Value::Seq(s) => s, other => panic!("Ttp13p14: expected Seq, got {other:?}") };
        assert_eq!(s.len(), 2, "Ttp13p14: component count");
        let _ = s;
        Ttp13p14 {
            rx: s[0].as_ref().map(FromValue::from_value),
            u2: FromValue::from_value(s[1].as_ref().expect("component u2 of Ttp13p14 must be present")),
        }
    }
}
impl ToValue for Ttp13p14 {
    fn to_value(&self) -> Value {
        Value::Seq(vec![
            self.rx.as_ref().map(|x| x.to_value()),
            Some(self.u2.to_value()),
        ])
    }
}
impl FromValue for Ttp13p15Is {
    fn from_value(v: &Value) -> Self {
        let s = match v { Value::Seq(s) => s, other => panic!("Ttp13p15Is: expected Seq, got {other:?}") };
        assert_eq!(s.len(), 1, "Ttp13p15Is: component count");
        let _ = s;
        Ttp13p15Is {
            v: FromValue::from_value(s[0].as_ref().expect("component v of Ttp13p15Is must be present")),
        }
    }
}
impl ToValue for Ttp13p15Is {
    fn to_value(&self) -> Value {
        Value::Seq(vec![
            Some(self.v.to_value()),
        ])
    }
}
impl FromValue for Ttp13p15 {
    fn from_value(v: &Value) -> Self {
        let s = match v { Value::Seq(s) => s, other => panic!("Ttp13p15: expected Seq, got {other:?}") };
        assert_eq!(s.len(), 2, "Ttp13p15: component count");
        let _ = s;
        Ttp13p15 {
            rx: s[0].as_ref().map(FromValue::from_value),
            is: s[1].as_ref().map(FromValue::from_value),
        }
    }
}
impl ToValue for Ttp13p15 {
    fn to_value(&self) -> Value {
        Value::Seq(vec![
            self.rx.as_ref().map(|x| x.to_value()),
            self.is.as_ref().map(|x| x.to_value()),
        ])
    }
}
impl FromValue for Ttp14p0 {
    fn from_value(v: &Value) -> Self {
        let s = match v { Value::Seq(s) => s, other => panic!("Ttp14p0: expected Seq, got {other:?}") };
        assert_eq!(s.len(), 2, "Ttp14p0: component count");
        let _ = s;
        Ttp14p0 {
            u2: FromValue::from_value(s[0].as_ref().expect("component u2 of Ttp14p0 must be present")),
            x: FromValue::from_value(s[1].as_ref().expect("component x of Ttp14p0 must be present")),
        }
    }
}
impl ToValue for Ttp14p0 {
    fn to_value(&self) -> Value {
        Value::Seq(vec![
            Some(self.u2.to_value()),
            Some(self.x.to_value()),
        ])
    }
}
impl FromValue for Ttp14p1 {
    fn from_value(v: &Value) -> Self {
        let s = match v { Value::Seq(s) => s, other => panic!("Ttp14p1: expected Seq, got {other:?}") };
        assert_eq!(s.len(), 2, "Ttp14p1: component count");
        let _ = s;
        Ttp14p1 {
            u2: FromValue::from_value(s[0].as_ref().expect("component u2 of Ttp14p1 must be present")),
            a: s[1].as_ref().map(FromValue::from_value),
        }
    }
}
impl ToValue for Ttp14p1 {
    fn to_value(&self) -> Value {
        Value::Seq(vec![
            Some(self.u2.to_value()),
            self.a.as_ref().map(|x| x.to_value()),
        ])
    }
}
impl FromValue for Ttp14p2 {
    fn from_value(v: &Value) -> Self {
        let s = match v { Value::Seq(s) => s, other => panic!("Ttp14p2: expected Seq, got {other:?}") };
        assert_eq!(s.len(), 2, "Ttp14p2: component count");
        let _ = s;
        Ttp14p2 {
            u2: FromValue::from_value(s[0].as_ref().expect("component u2 of Ttp14p2 must be present")),
            c3: FromValue::from_value(s[1].as_ref().expect("component c3 of Ttp14p2 must be present")),
        }
    }
}
impl ToValue for Ttp14p2 {
    fn to_value(&self) -> Value {
        Value::Seq(vec![
            Some(self.u2.to_value()),
            Some(self.c3.to_value()),
        ])
    }
}
impl FromValue for Ttp14p3 {
    fn from_value(v: &Value) -> Self {
        let s = match v { Value::Seq(s) => s, other => panic!("Ttp14p3: expected Seq, got {other:?}") };
        assert_eq!(s.len(), 2, "Ttp14p3: component count");
        let _ = s;
        Ttp14p3 {
            u2: FromValue::from_value(s[0].as_ref().expect("component u2 of Ttp14p3 must be present")),
            c0: s[1].as_ref().map(FromValue::from_value),
        }
    }
}
impl ToValue for Ttp14p3 {
    fn to_value(&self) -> Value {
        Value::Seq(vec![
            Some(self.u2.to_value()),
            self.c0.as_ref().map(|x| x.to_value()),
        ])
    }
}
impl FromValue for Ttp14p4 {
    fn from_value(v: &Value) -> Self {
        let s = match v { Value::Seq(s) => s, other => panic!("Ttp14p4: expected Seq, got {other:?}") };
        assert_eq!(s.len(), 2, "Ttp14p4: component count");
        let _ = s;
        Ttp14p4 {
            u2: FromValue::from_value(s[0].as_ref().expect("component u2 of Ttp14p4 must be present")),
            p: FromValue::from_value(s[1].as_ref().expect("component p of Ttp14p4 must be present")),
        }
    }
}
impl ToValue for Ttp14p4 {
    fn to_value(&self) -> Value {
        Value::Seq(vec![
            Some(self.u2.to_value()),
            Some(self.p.to_value()),
        ])
    }
}
impl FromValue for Ttp14p5 {
    fn from_value(v: &Value) -> Self {
        let s = match v { Value::Seq(s) => s, other => panic!("Ttp14p5: expected Seq, got {other:?}") };
        assert_eq!(s.len(), 2, "Ttp14p5: component count");
        let _ = s;
        Ttp14p5 {
            u2: FromValue::from_value(s[0].as_ref().expect("component u2 of Ttp14p5 must be present")),
            b: s[1].as_ref().map(FromValue::from_value),
        }
    }
}
impl ToValue for Ttp14p5 {
    fn to_value(&self) -> Value {
        Value::Seq(vec![
            Some(self.u2.to_value()),
            self.b.as_ref().map(|x| x.to_value()),
        ])
    }
}
impl FromValue for Ttp14p6 {
    fn from_value(v: &Value) -> Self {
        let s = match v { Value::Seq(s) => s, other => panic!("Ttp14p6: expected Seq, got {other:?}") };
        assert_eq!(s.len(), 2, "Ttp14p6: component count");
        let _ = s;
        Ttp14p6 {
            u2: FromValue::from_value(s[0].as_ref().expect("component u2 of Ttp14p6 must be present")),
            i: FromValue::from_value(s[1].as_ref().expect("component i of Ttp14p6 must be present")),
        }
    }
}
impl ToValue for Ttp14p6 {
    fn to_value(&self) -> Value {
        Value::Seq(vec![
            Some(self.u2.to_value()),
            Some(self.i.to_value()),
        ])
    }
}
impl FromValue for Ttp14p7 {
    fn from_value(v: &Value) -> Self {
        let s = match v { Value::Seq(s) => s, other => panic!("Ttp14p7: expected Seq, got {other:?}") };
        assert_eq!(s.len(), 2, "Ttp14p7: component count");
        let _ = s;
        Ttp14p7 {
            u2: FromValue::from_value(s[0].as_ref().expect("component u2 of Ttp14p7 must be present")),
            ra: s[1].as_ref().map(FromValue::from_value),
        }
    }
}
impl ToValue for Ttp14p7 {
    fn to_value(&self) -> Value {
        Value::Seq(vec![
            Some(self.u2.to_value()),
            self.ra.as_ref().map(|x| x.to_value()),
        ])
    }
}
impl FromValue for Ttp14p8 {
    fn from_value(v: &Value) -> Self {
        let s = match v { Value::Seq(s) => s, other => panic!("Ttp14p8: expected Seq, got {other:?}") };
        assert_eq!(s.len(), 2, "Ttp14p8: component count");
        let _ = s;
        Ttp14p8 {
            u2: FromValue::from_value(s[0].as_ref().expect("component u2 of Ttp14p8 must be present")),
            rs: FromValue::from_value(s[1].as_ref().expect("component rs of Ttp14p8 must be present")),
        }
    }
}
impl ToValue for Ttp14p8 {
    fn to_value(&self) -> Value {
        Value::Seq(vec![
            Some(self.u2.to_value()),
            Some(self.rs.to_value()),
        ])
    }
}
impl FromValue for Ttp14p9 {
    fn from_value(v: &Value) -> Self {
        let s = match v { Value::Seq(s) => s, other => panic!("Ttp14p9: expected Seq, got {other:?}") };
        assert_eq!(s.len(), 2, "Ttp14p9: component count");
        let _ = s;
        Ttp14p9 {
            u2: FromValue::from_value(s[0].as_ref().expect("component u2 of Ttp14p9 must be present")),
            rc: s[1].as_ref().map(FromValue::from_value),
        }
    }
}
impl ToValue for Ttp14p9 {
    fn to_value(&self) -> Value {
        Value::Seq(vec![
            Some(self.u2.to_value()),
            self.rc.as_ref().map(|x| x.to_value()),
        ])
    }
}
impl FromValue for Ttp14p10 {
    fn from_value(v: &Value) -> Self {
        let s = match v { Value::Seq(s) => s, other => panic!("Ttp14p10: expected Seq, got {other:?}") };
        assert_eq!(s.len(), 2, "Ttp14p10: component count");
        let _ = s;
        Ttp14p10 {
            u2: FromValue::from_value(s[0].as_ref().expect("component u2 of Ttp14p10 must be present")),
            rt: FromValue::from_value(s[1].as_ref().expect("component rt of Ttp14p10 must be present")),
        }
    }
}
impl ToValue for Ttp14p10 {
    fn to_value(&self) -> Value {
        Value::Seq(vec![
            Some(self.u2.to_value()),
            Some(self.rt.to_value()),
        ])
    }
}
impl FromValue for Ttp14p11 {
    fn from_value(v: &Value) -> Self {
        let s = match v { Value::Seq(s) => s, other => panic!("Ttp14p11: expected Seq, got {other:?}") };
        assert_eq!(s.len(), 2, "Ttp14p11: component count");
        let _ = s;
        Ttp14p11 {
            u2: FromValue::from_value(s[0].as_ref().expect("component u2 of Ttp14p11 must be present")),
            so: s[1].as_ref().map(FromValue::from_value),
        }
    }
}
impl ToValue for Ttp14p11 {
    fn to_value(&self) -> Value {
        Value::Seq(vec![
            Some(self.u2.to_value()),
            self.so.as_ref().map(|x| x.to_value()),
        ])
    }
}
impl FromValue for Ttp14p12 {
    fn from_value(v: &Value) -> Self {
        let s = match v { Value::Seq(s) => s, other => panic!("Ttp14p12: expected Seq, got {other:?}") };
        assert_eq!(s.len(), 2, "Ttp14p12: component count");
        let _ = s;
        Ttp14p12 {
            u2: FromValue::from_value(s[0].as_ref().expect("component u2 of Ttp14p12 must be present")),
            st: FromValue::from_value(s[1].as_ref().expect("component st of Ttp14p12 must be present")),
        }
    }
}
impl ToValue for Ttp14p12 {
    fn to_value(&self) -> Value {
        Value::Seq(vec![
            Some(self.u2.to_value()),
            Some(self.st.to_value()),
        ])
    }
}
impl FromValue for Ttp14p13 {
    fn from_value(v: &Value) -> Self {
        let s = match v { Value::Seq(s) => s, other => panic!("Ttp14p13: expected Seq, got {other:?}") };
        assert_eq!(s.len(), 2, "Ttp14p13: component count");
        let _ = s;
        Ttp14p13 {
            u2: FromValue::from_value(s[0].as_ref().expect("component u2 of Ttp14p13 must be present")),
            rx: s[1].as_ref().map(FromValue::from_value),
        }
    }
}
impl ToValue for Ttp14p13 {
    fn to_value(&self) -> Value {
        Value::Seq(vec![
            Some(self.u2.to_value()),
            self.rx.as_ref().map(|x| x.to_value()),
        ])
    }
}

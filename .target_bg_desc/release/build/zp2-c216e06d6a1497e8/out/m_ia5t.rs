use asn1rs::prelude::*;

#[asn(transparent)]

#[derive(Default, Debug, Clone, PartialEq, Hash)]
pub struct Tia5f0(#[asn(ia5string(size(0)))] pub String);

impl Tia5f0 {
}

impl Tia5f0 {
    pub const fn new(value: String) -> Self {
        Self(value)
    }
}

impl ::core::ops::Deref for Tia5f0 {
    type Target = String;

    fn deref(&self) -> &String {
        &self.0
    }
}

impl ::core::ops::DerefMut for Tia5f0 {
    fn deref_mut(&mut self) -> &mut String {
        &mut self.0
    }
}

impl ::core::convert::From<String> for Tia5f0 {
    fn from(value: String) -> Self {
        Self(value)
    }
}

impl ::core::convert::From<Tia5f0> for String {
    fn from(value: Tia5f0) -> Self {
        value.0
    }
}

#[asn(transparent)]

#[derive(Default, Debug, Clone, PartialEq, Hash)]
pub struct Tia5f2(#[asn(ia5string(size(2)))] pub String);

impl Tia5f2 {
}

impl Tia5f2 {
    pub const fn new(value: String) -> Self {
        Self(value)
    }
}

impl ::core::ops::Deref for Tia5f2 {
    type Target = String;

    fn deref(&self) -> &String {
        &self.0
    }
}

impl ::core::ops::DerefMut for Tia5f2 {
    fn deref_mut(&mut self) -> &mut String {
        &mut self.0
    }
}

impl ::core::convert::From<String> for Tia5f2 {
    fn from(value: String) -> Self {
        Self(value)
    }
}

impl ::core::convert::From<Tia5f2> for String {
    fn from(value: Tia5f2) -> Self {
        value.0
    }
}

#[asn(transparent)]

#[derive(Default, Debug, Clone, PartialEq, Hash)]
pub struct Tia5f17(#[asn(ia5string(size(17)))] pub String);

impl Tia5f17 {
}

impl Tia5f17 {
    pub const fn new(value: String) -> Self {
        Self(value)
    }
}

impl ::core::ops::Deref for Tia5f17 {
    type Target = String;

    fn deref(&self) -> &String {
        &self.0
    }
}

impl ::core::ops::DerefMut for Tia5f17 {
    fn deref_mut(&mut self) -> &mut String {
        &mut self.0
    }
}

impl ::core::convert::From<String> for Tia5f17 {
    fn from(value: String) -> Self {
        Self(value)
    }
}

impl ::core::convert::From<Tia5f17> for String {
    fn from(value: Tia5f17) -> Self {
        value.0
    }
}

#[asn(transparent)]

#[derive(Default, Debug, Clone, PartialEq, Hash)]
pub struct Tia5r0to1(#[asn(ia5string(size(0..1)))] pub String);

impl Tia5r0to1 {
}

impl Tia5r0to1 {
    pub const fn new(value: String) -> Self {
        Self(value)
    }
}

impl ::core::ops::Deref for Tia5r0to1 {
    type Target = String;

    fn deref(&self) -> &String {
        &self.0
    }
}

impl ::core::ops::DerefMut for Tia5r0to1 {
    fn deref_mut(&mut self) -> &mut String {
        &mut self.0
    }
}

impl ::core::convert::From<String> for Tia5r0to1 {
    fn from(value: String) -> Self {
        Self(value)
    }
}

impl ::core::convert::From<Tia5r0to1> for String {
    fn from(value: Tia5r0to1) -> Self {
        value.0
    }
}

#[asn(transparent)]

#[derive(Default, Debug, Clone, PartialEq, Hash)]
pub struct Tia5r0to255(#[asn(ia5string(size(0..255)))] pub String);

impl Tia5r0to255 {
}

impl Tia5r0to255 {
    pub const fn new(value: String) -> Self {
        Self(value)
    }
}

impl ::core::ops::Deref for Tia5r0to255 {
    type Target = String;

    fn deref(&self) -> &String {
        &self.0
    }
}

impl ::core::ops::DerefMut for Tia5r0to255 {
    fn deref_mut(&mut self) -> &mut String {
        &mut self.0
    }
}

impl ::core::convert::From<String> for Tia5r0to255 {
    fn from(value: String) -> Self {
        Self(value)
    }
}

impl ::core::convert::From<Tia5r0to255> for String {
    fn from(value: Tia5r0to255) -> Self {
        value.0
    }
}

#[asn(transparent)]

#[derive(Default, Debug, Clone, PartialEq, Hash)]
pub struct Tia5r0to256(#[asn(ia5string(size(0..256)))] pub String);

impl Tia5r0to256 {
}

impl Tia5r0to256 {
    pub const fn new(value: String) -> Self {
        Self(value)
    }
}

impl ::core::ops::Deref for Tia5r0to256 {
    type Target = String;

    fn deref(&self) -> &String {
        &self.0
    }
}

impl ::core::ops::DerefMut for Tia5r0to256 {
    fn deref_mut(&mut self) -> &mut String {
        &mut self.0
    }
}

impl ::core::convert::From<String> for Tia5r0to256 {
    fn from(value: String) -> Self {
        Self(value)
    }
}

impl ::core::convert::From<Tia5r0to256> for String {
    fn from(value: Tia5r0to256) -> Self {
        value.0
    }
}

#[asn(transparent)]

#[derive(Default, Debug, Clone, PartialEq, Hash)]
pub struct Tia5r1to65535(#[asn(ia5string(size(1..65535)))] pub String);

impl Tia5r1to65535 {
}

impl Tia5r1to65535 {
    pub const fn new(value: String) -> Self {
        Self(value)
    }
}

impl ::core::ops::Deref for Tia5r1to65535 {
    type Target = String;

    fn deref(&self) -> &String {
        &self.0
    }
}

impl ::core::ops::DerefMut for Tia5r1to65535 {
    fn deref_mut(&mut self) -> &mut String {
        &mut self.0
    }
}

impl ::core::convert::From<String> for Tia5r1to65535 {
    fn from(value: String) -> Self {
        Self(value)
    }
}

impl ::core::convert::From<Tia5r1to65535> for String {
    fn from(value: Tia5r1to65535) -> Self {
        value.0
    }
}

#[asn(transparent)]

#[derive(Default, Debug, Clone, PartialEq, Hash)]
pub struct Tia5r1to65536(#[asn(ia5string(size(1..65536)))] pub String);

impl Tia5r1to65536 {
}

impl Tia5r1to65536 {
    pub const fn new(value: String) -> Self {
        Self(value)
    }
}

impl ::core::ops::Deref for Tia5r1to65536 {
    type Target = String;

    fn deref(&self) -> &String {
        &self.0
    }
}

impl ::core::ops::DerefMut for Tia5r1to65536 {
    fn deref_mut(&mut self) -> &mut String {
        &mut self.0
    }
}

impl ::core::convert::From<String> for Tia5r1to65536 {
    fn from(value: String) -> Self {
        Self(value)
    }
}

impl ::core::convert::From<Tia5r1to65536> for String {
    fn from(value: Tia5r1to65536) -> Self {
        value.0
    }
}

#[asn(transparent)]

#[derive(Default, Debug, Clone, PartialEq, Hash)]
pub struct Tia5r0to65535x(#[asn(ia5string(size(0..65535,...)))] pub String);

impl Tia5r0to65535x {
}

impl Tia5r0to65535x {
    pub const fn new(value: String) -> Self {
        Self(value)
    }
}

impl ::core::ops::Deref for Tia5r0to65535x {
    type Target = String;

    fn deref(&self) -> &String {
        &self.0
    }
}

impl ::core::ops::DerefMut for Tia5r0to65535x {
    fn deref_mut(&mut self) -> &mut String {
        &mut self.0
    }
}

impl ::core::convert::From<String> for Tia5r0to65535x {
    fn from(value: String) -> Self {
        Self(value)
    }
}

impl ::core::convert::From<Tia5r0to65535x> for String {
    fn from(value: Tia5r0to65535x) -> Self {
        value.0
    }
}
// ---- harness conversions (generated by the zoo build script from the items above) ----
impl FromValue for Tia5f0 { fn from_value(v: &Value) -> Self { Tia5f0(FromValue::from_value(v)) } }
impl ToValue for Tia5f0 { fn to_value(&self) -> Value { self.0.to_value() } }
impl FromValue for Tia5f2 { fn from_value(v: &Value) -> Self { Tia5f2(FromValue::from_value(v)) } }
impl ToValue for Tia5f2 { fn to_value(&self) -> Value { self.0.to_value() } }
impl FromValue for Tia5f17 { fn from_value(v: &Value) -> Self { Tia5f17(FromValue::from_value(v)) } }
impl ToValue for Tia5f17 { fn to_value(&self) -> Value { self.0.to_value() } }
impl FromValue for Tia5r0to1 { fn from_value(v: &Value) -> Self { Tia5r0to1(FromValue::from_value(v)) } }
impl ToValue for Tia5r0to1 { fn to_value(&self) -> Value { self.0.to_value() } }
impl FromValue for Tia5r0to255 { fn from_value(v: &Value) -> Self { Tia5r0to255(FromValue::from_value(v)) } }
impl ToValue for Tia5r0to255 { fn to_value(&self) -> Value { self.0.to_value() } }
impl FromValue for Tia5r0to256 { fn from_value(v: &Value) -> Self { Tia5r0to256(FromValue::from_value(v)) } }
impl ToValue for Tia5r0to256 { fn to_value(&self) -> Value { self.0.to_value() } }
impl FromValue for Tia5r1to65535 { fn from_value(v: &Value) -> Self { Tia5r1to65535(FromValue::from_value(v)) } }
impl ToValue for Tia5r1to65535 { fn to_value(&self) -> Value { self.0.to_value() } }
impl FromValue for Tia5r1to65536 { fn from_value(v: &Value) -> Self { Tia5r1to65536(FromValue::from_value(v)) } }
impl ToValue for Tia5r1to65536 { fn to_value(&self) -> Value { self.0.to_value() } }
impl FromValue for Tia5r0to65535x { fn from_value(v: &Value) -> Self { Tia5r0to65535x(FromValue::from_value(v)) } }
impl ToValue for Tia5r0to65535x { fn to_value(&self) -> Value { self.0.to_value() } }

use asn1rs::prelude::*;

#[asn(sequence)]

#[derive(Default, Debug, Clone, PartialEq, Hash)]
pub struct Tplain {
    #[asn(integer(0..7))] pub p: u8,
    #[asn(boolean)] pub q: bool,
}

impl Tplain {
    pub const fn p_min() -> u8 {
        0
    }

    pub const fn p_max() -> u8 {
        7
    }
}

#[asn(transparent)]

#[derive(Default, Debug, Clone, PartialEq, Hash)]
pub struct Tsmall(#[asn(integer(0..255))] pub u8);

impl Tsmall {
    pub const fn value_min() -> u8 {
        0
    }

    pub const fn value_max() -> u8 {
        255
    }
}

impl Tsmall {
    pub const fn new(value: u8) -> Self {
        Self(value)
    }
}

impl ::core::ops::Deref for Tsmall {
    type Target = u8;

    fn deref(&self) -> &u8 {
        &self.0
    }
}

impl ::core::ops::DerefMut for Tsmall {
    fn deref_mut(&mut self) -> &mut u8 {
        &mut self.0
    }
}

impl ::core::convert::From<u8> for Tsmall {
    fn from(value: u8) -> Self {
        Self(value)
    }
}

impl ::core::convert::From<Tsmall> for u8 {
    fn from(value: Tsmall) -> Self {
        value.0
    }
}

#[asn(choice)]

#[derive(Debug, Clone, PartialEq, Hash)]
pub enum Tchoice {
    #[asn(integer(0..7))] I(u8),
    #[asn(boolean)] B(bool),
}

impl Tchoice {
    pub fn variants() -> [Self; 2] {
        [
        Tchoice::I(Default::default()),
        Tchoice::B(Default::default()),
        ]
    }

    pub fn value_index(&self) -> usize {
        match self {
            Tchoice::I(_) => 0,
            Tchoice::B(_) => 1,
        }
    }

    pub const fn i_min() -> u8 {
        0
    }

    pub const fn i_max() -> u8 {
        7
    }
}

impl Default for Tchoice {
    fn default() -> Tchoice {
        Tchoice::I(Default::default())
    }
}

#[asn(sequence)]

#[derive(Default, Debug, Clone, PartialEq, Hash)]
pub struct Tr1mn {
    #[asn(complex(Tchoice, tag(UNIVERSAL(1))))] pub f0: Tchoice,
}

impl Tr1mn {
}

#[asn(sequence, extensible_after(f0))]

#[derive(Default, Debug, Clone, PartialEq, Hash)]
pub struct Tr1me0 {
    #[asn(complex(Tchoice, tag(UNIVERSAL(1))))] pub f0: Tchoice,
}

impl Tr1me0 {
}

#[asn(sequence, extensible_after(f0))]

#[derive(Default, Debug, Clone, PartialEq, Hash)]
pub struct Tr1me1 {
    #[asn(complex(Tchoice, tag(UNIVERSAL(1))))] pub f0: Tchoice,
}

impl Tr1me1 {
}

#[asn(sequence)]

#[derive(Default, Debug, Clone, PartialEq, Hash)]
pub struct Tr1on {
    #[asn(optional(complex(Tchoice, tag(UNIVERSAL(1)))))] pub f0: Option<Tchoice>,
}

impl Tr1on {
}

#[asn(sequence, extensible_after(f0))]

#[derive(Default, Debug, Clone, PartialEq, Hash)]
pub struct Tr1oe0 {
    #[asn(optional(complex(Tchoice, tag(UNIVERSAL(1)))))] pub f0: Option<Tchoice>,
}

impl Tr1oe0 {
}

#[asn(sequence, extensible_after(f0))]

#[derive(Default, Debug, Clone, PartialEq, Hash)]
pub struct Tr1oe1 {
    #[asn(optional(complex(Tchoice, tag(UNIVERSAL(1)))))] pub f0: Option<Tchoice>,
}

impl Tr1oe1 {
}

#[asn(sequence)]

#[derive(Default, Debug, Clone, PartialEq, Hash)]
pub struct Tr2mmn {
    #[asn(complex(Tchoice, tag(UNIVERSAL(1))))] pub f0: Tchoice,
    #[asn(complex(Tplain, tag(UNIVERSAL(16))))] pub f1: Tplain,
}

impl Tr2mmn {
}

#[asn(sequence, extensible_after(f0))]

#[derive(Default, Debug, Clone, PartialEq, Hash)]
pub struct Tr2mme0 {
    #[asn(complex(Tchoice, tag(UNIVERSAL(1))))] pub f0: Tchoice,
    #[asn(optional(complex(Tplain, tag(UNIVERSAL(16)))))] pub f1: Option<Tplain>,
}

impl Tr2mme0 {
}

#[asn(sequence, extensible_after(f0))]

#[derive(Default, Debug, Clone, PartialEq, Hash)]
pub struct Tr2mme1 {
    #[asn(complex(Tchoice, tag(UNIVERSAL(1))))] pub f0: Tchoice,
    #[asn(optional(complex(Tplain, tag(UNIVERSAL(16)))))] pub f1: Option<Tplain>,
}

impl Tr2mme1 {
}

#[asn(sequence, extensible_after(f1))]

#[derive(Default, Debug, Clone, PartialEq, Hash)]
pub struct Tr2mme2 {
    #[asn(complex(Tchoice, tag(UNIVERSAL(1))))] pub f0: Tchoice,
    #[asn(complex(Tplain, tag(UNIVERSAL(16))))] pub f1: Tplain,
}

impl Tr2mme2 {
}

#[asn(sequence)]

#[derive(Default, Debug, Clone, PartialEq, Hash)]
pub struct Tr2omn {
    #[asn(optional(complex(Tchoice, tag(UNIVERSAL(1)))))] pub f0: Option<Tchoice>,
    #[asn(complex(Tplain, tag(UNIVERSAL(16))))] pub f1: Tplain,
}

impl Tr2omn {
}

#[asn(sequence, extensible_after(f0))]

#[derive(Default, Debug, Clone, PartialEq, Hash)]
pub struct Tr2ome0 {
    #[asn(optional(complex(Tchoice, tag(UNIVERSAL(1)))))] pub f0: Option<Tchoice>,
    #[asn(optional(complex(Tplain, tag(UNIVERSAL(16)))))] pub f1: Option<Tplain>,
}

impl Tr2ome0 {
}

#[asn(sequence, extensible_after(f0))]

#[derive(Default, Debug, Clone, PartialEq, Hash)]
pub struct Tr2ome1 {
    #[asn(optional(complex(Tchoice, tag(UNIVERSAL(1)))))] pub f0: Option<Tchoice>,
    #[asn(optional(complex(Tplain, tag(UNIVERSAL(16)))))] pub f1: Option<Tplain>,
}

impl Tr2ome1 {
}

#[asn(sequence, extensible_after(f1))]

#[derive(Default, Debug, Clone, PartialEq, Hash)]
pub struct Tr2ome2 {
    #[asn(optional(complex(Tchoice, tag(UNIVERSAL(1)))))] pub f0: Option<Tchoice>,
    #[asn(complex(Tplain, tag(UNIVERSAL(16))))] pub f1: Tplain,
}

impl Tr2ome2 {
}

#[asn(sequence)]

#[derive(Default, Debug, Clone, PartialEq, Hash)]
pub struct Tr2mon {
    #[asn(complex(Tchoice, tag(UNIVERSAL(1))))] pub f0: Tchoice,
    #[asn(optional(complex(Tplain, tag(UNIVERSAL(16)))))] pub f1: Option<Tplain>,
}

impl Tr2mon {
}

#[asn(sequence, extensible_after(f0))]

#[derive(Default, Debug, Clone, PartialEq, Hash)]
pub struct Tr2moe0 {
    #[asn(complex(Tchoice, tag(UNIVERSAL(1))))] pub f0: Tchoice,
    #[asn(optional(complex(Tplain, tag(UNIVERSAL(16)))))] pub f1: Option<Tplain>,
}

impl Tr2moe0 {
}

#[asn(sequence, extensible_after(f0))]

#[derive(Default, Debug, Clone, PartialEq, Hash)]
pub struct Tr2moe1 {
    #[asn(complex(Tchoice, tag(UNIVERSAL(1))))] pub f0: Tchoice,
    #[asn(optional(complex(Tplain, tag(UNIVERSAL(16)))))] pub f1: Option<Tplain>,
}

impl Tr2moe1 {
}

#[asn(sequence, extensible_after(f1))]

#[derive(Default, Debug, Clone, PartialEq, Hash)]
pub struct Tr2moe2 {
    #[asn(complex(Tchoice, tag(UNIVERSAL(1))))] pub f0: Tchoice,
    #[asn(optional(complex(Tplain, tag(UNIVERSAL(16)))))] pub f1: Option<Tplain>,
}

impl Tr2moe2 {
}

#[asn(sequence)]

#[derive(Default, Debug, Clone, PartialEq, Hash)]
pub struct Tr2oon {
    #[asn(optional(complex(Tchoice, tag(UNIVERSAL(1)))))] pub f0: Option<Tchoice>,
    #[asn(optional(complex(Tplain, tag(UNIVERSAL(16)))))] pub f1: Option<Tplain>,
}

impl Tr2oon {
}

#[asn(sequence, extensible_after(f0))]

#[derive(Default, Debug, Clone, PartialEq, Hash)]
pub struct Tr2ooe0 {
    #[asn(optional(complex(Tchoice, tag(UNIVERSAL(1)))))] pub f0: Option<Tchoice>,
    #[asn(optional(complex(Tplain, tag(UNIVERSAL(16)))))] pub f1: Option<Tplain>,
}

impl Tr2ooe0 {
}

#[asn(sequence, extensible_after(f0))]

#[derive(Default, Debug, Clone, PartialEq, Hash)]
pub struct Tr2ooe1 {
    #[asn(optional(complex(Tchoice, tag(UNIVERSAL(1)))))] pub f0: Option<Tchoice>,
    #[asn(optional(complex(Tplain, tag(UNIVERSAL(16)))))] pub f1: Option<Tplain>,
}

impl Tr2ooe1 {
}

#[asn(sequence, extensible_after(f1))]

#[derive(Default, Debug, Clone, PartialEq, Hash)]
pub struct Tr2ooe2 {
    #[asn(optional(complex(Tchoice, tag(UNIVERSAL(1)))))] pub f0: Option<Tchoice>,
    #[asn(optional(complex(Tplain, tag(UNIVERSAL(16)))))] pub f1: Option<Tplain>,
}

impl Tr2ooe2 {
}

#[asn(sequence)]

#[derive(Default, Debug, Clone, PartialEq, Hash)]
pub struct Tr3mmmn {
    #[asn(complex(Tchoice, tag(UNIVERSAL(1))))] pub f0: Tchoice,
    #[asn(complex(Tplain, tag(UNIVERSAL(16))))] pub f1: Tplain,
    #[asn(complex(Tsmall, tag(UNIVERSAL(2))))] pub f2: Tsmall,
}

impl Tr3mmmn {
}

#[asn(sequence, extensible_after(f0))]

#[derive(Default, Debug, Clone, PartialEq, Hash)]
pub struct Tr3mmme0 {
    #[asn(complex(Tchoice, tag(UNIVERSAL(1))))] pub f0: Tchoice,
    #[asn(optional(complex(Tplain, tag(UNIVERSAL(16)))))] pub f1: Option<Tplain>,
    #[asn(optional(complex(Tsmall, tag(UNIVERSAL(2)))))] pub f2: Option<Tsmall>,
}

impl Tr3mmme0 {
}

#[asn(sequence, extensible_after(f0))]

#[derive(Default, Debug, Clone, PartialEq, Hash)]
pub struct Tr3mmme1 {
    #[asn(complex(Tchoice, tag(UNIVERSAL(1))))] pub f0: Tchoice,
    #[asn(optional(complex(Tplain, tag(UNIVERSAL(16)))))] pub f1: Option<Tplain>,
    #[asn(optional(complex(Tsmall, tag(UNIVERSAL(2)))))] pub f2: Option<Tsmall>,
}

impl Tr3mmme1 {
}

#[asn(sequence, extensible_after(f1))]

#[derive(Default, Debug, Clone, PartialEq, Hash)]
pub struct Tr3mmme2 {
    #[asn(complex(Tchoice, tag(UNIVERSAL(1))))] pub f0: Tchoice,
    #[asn(complex(Tplain, tag(UNIVERSAL(16))))] pub f1: Tplain,
    #[asn(optional(complex(Tsmall, tag(UNIVERSAL(2)))))] pub f2: Option<Tsmall>,
}

impl Tr3mmme2 {
}

#[asn(sequence, extensible_after(f2))]

#[derive(Default, Debug, Clone, PartialEq, Hash)]
pub struct Tr3mmme3 {
    #[asn(complex(Tchoice, tag(UNIVERSAL(1))))] pub f0: Tchoice,
    #[asn(complex(Tplain, tag(UNIVERSAL(16))))] pub f1: Tplain,
    #[asn(complex(Tsmall, tag(UNIVERSAL(2))))] pub f2: Tsmall,
}

impl Tr3mmme3 {
}

#[asn(sequence)]

#[derive(Default, Debug, Clone, PartialEq, Hash)]
pub struct Tr3ommn {
    #[asn(optional(complex(Tchoice, tag(UNIVERSAL(1)))))] pub f0: Option<Tchoice>,
    #[asn(complex(Tplain, tag(UNIVERSAL(16))))] pub f1: Tplain,
    #[asn(complex(Tsmall, tag(UNIVERSAL(2))))] pub f2: Tsmall,
}

impl Tr3ommn {
}

#[asn(sequence, extensible_after(f0))]

#[derive(Default, Debug, Clone, PartialEq, Hash)]
pub struct Tr3omme0 {
    #[asn(optional(complex(Tchoice, tag(UNIVERSAL(1)))))] pub f0: Option<Tchoice>,
    #[asn(optional(complex(Tplain, tag(UNIVERSAL(16)))))] pub f1: Option<Tplain>,
    #[asn(optional(complex(Tsmall, tag(UNIVERSAL(2)))))] pub f2: Option<Tsmall>,
}

impl Tr3omme0 {
}

#[asn(sequence, extensible_after(f0))]

#[derive(Default, Debug, Clone, PartialEq, Hash)]
pub struct Tr3omme1 {
    #[asn(optional(complex(Tchoice, tag(UNIVERSAL(1)))))] pub f0: Option<Tchoice>,
    #[asn(optional(complex(Tplain, tag(UNIVERSAL(16)))))] pub f1: Option<Tplain>,
    #[asn(optional(complex(Tsmall, tag(UNIVERSAL(2)))))] pub f2: Option<Tsmall>,
}

impl Tr3omme1 {
}

#[asn(sequence, extensible_after(f1))]

#[derive(Default, Debug, Clone, PartialEq, Hash)]
pub struct Tr3omme2 {
    #[asn(optional(complex(Tchoice, tag(UNIVERSAL(1)))))] pub f0: Option<Tchoice>,
    #[asn(complex(Tplain, tag(UNIVERSAL(16))))] pub f1: Tplain,
    #[asn(optional(complex(Tsmall, tag(UNIVERSAL(2)))))] pub f2: Option<Tsmall>,
}

impl Tr3omme2 {
}

#[asn(sequence, extensible_after(f2))]

#[derive(Default, Debug, Clone, PartialEq, Hash)]
pub struct Tr3omme3 {
    #[asn(optional(complex(Tchoice, tag(UNIVERSAL(1)))))] pub f0: Option<Tchoice>,
    #[asn(complex(Tplain, tag(UNIVERSAL(16))))] pub f1: Tplain,
    #[asn(complex(Tsmall, tag(UNIVERSAL(2))))] pub f2: Tsmall,
}

impl Tr3omme3 {
}

#[asn(sequence)]

#[derive(Default, Debug, Clone, PartialEq, Hash)]
pub struct Tr3momn {
    #[asn(complex(Tchoice, tag(UNIVERSAL(1))))] pub f0: Tchoice,
    #[asn(optional(complex(Tplain, tag(UNIVERSAL(16)))))] pub f1: Option<Tplain>,
    #[asn(complex(Tsmall, tag(UNIVERSAL(2))))] pub f2: Tsmall,
}

impl Tr3momn {
}

#[asn(sequence, extensible_after(f0))]

#[derive(Default, Debug, Clone, PartialEq, Hash)]
pub struct Tr3mome0 {
    #[asn(complex(Tchoice, tag(UNIVERSAL(1))))] pub f0: Tchoice,
    #[asn(optional(complex(Tplain, tag(UNIVERSAL(16)))))] pub f1: Option<Tplain>,
    #[asn(optional(complex(Tsmall, tag(UNIVERSAL(2)))))] pub f2: Option<Tsmall>,
}

impl Tr3mome0 {
}

#[asn(sequence, extensible_after(f0))]

#[derive(Default, Debug, Clone, PartialEq, Hash)]
pub struct Tr3mome1 {
    #[asn(complex(Tchoice, tag(UNIVERSAL(1))))] pub f0: Tchoice,
    #[asn(optional(complex(Tplain, tag(UNIVERSAL(16)))))] pub f1: Option<Tplain>,
    #[asn(optional(complex(Tsmall, tag(UNIVERSAL(2)))))] pub f2: Option<Tsmall>,
}

impl Tr3mome1 {
}

#[asn(sequence, extensible_after(f1))]

#[derive(Default, Debug, Clone, PartialEq, Hash)]
pub struct Tr3mome2 {
    #[asn(complex(Tchoice, tag(UNIVERSAL(1))))] pub f0: Tchoice,
    #[asn(optional(complex(Tplain, tag(UNIVERSAL(16)))))] pub f1: Option<Tplain>,
    #[asn(optional(complex(Tsmall, tag(UNIVERSAL(2)))))] pub f2: Option<Tsmall>,
}

impl Tr3mome2 {
}

#[asn(sequence, extensible_after(f2))]

#[derive(Default, Debug, Clone, PartialEq, Hash)]
pub struct Tr3mome3 {
    #[asn(complex(Tchoice, tag(UNIVERSAL(1))))] pub f0: Tchoice,
    #[asn(optional(complex(Tplain, tag(UNIVERSAL(16)))))] pub f1: Option<Tplain>,
    #[asn(complex(Tsmall, tag(UNIVERSAL(2))))] pub f2: Tsmall,
}

impl Tr3mome3 {
}

#[asn(sequence)]

#[derive(Default, Debug, Clone, PartialEq, Hash)]
pub struct Tr3oomn {
    #[asn(optional(complex(Tchoice, tag(UNIVERSAL(1)))))] pub f0: Option<Tchoice>,
    #[asn(optional(complex(Tplain, tag(UNIVERSAL(16)))))] pub f1: Option<Tplain>,
    #[asn(complex(Tsmall, tag(UNIVERSAL(2))))] pub f2: Tsmall,
}

impl Tr3oomn {
}

#[asn(sequence, extensible_after(f0))]

#[derive(Default, Debug, Clone, PartialEq, Hash)]
pub struct Tr3oome0 {
    #[asn(optional(complex(Tchoice, tag(UNIVERSAL(1)))))] pub f0: Option<Tchoice>,
    #[asn(optional(complex(Tplain, tag(UNIVERSAL(16)))))] pub f1: Option<Tplain>,
    #[asn(optional(complex(Tsmall, tag(UNIVERSAL(2)))))] pub f2: Option<Tsmall>,
}

impl Tr3oome0 {
}

#[asn(sequence, extensible_after(f0))]

#[derive(Default, Debug, Clone, PartialEq, Hash)]
pub struct Tr3oome1 {
    #[asn(optional(complex(Tchoice, tag(UNIVERSAL(1)))))] pub f0: Option<Tchoice>,
    #[asn(optional(complex(Tplain, tag(UNIVERSAL(16)))))] pub f1: Option<Tplain>,
    #[asn(optional(complex(Tsmall, tag(UNIVERSAL(2)))))] pub f2: Option<Tsmall>,
}

impl Tr3oome1 {
}

#[asn(sequence, extensible_after(f1))]

#[derive(Default, Debug, Clone, PartialEq, Hash)]
pub struct Tr3oome2 {
    #[asn(optional(complex(Tchoice, tag(UNIVERSAL(1)))))] pub f0: Option<Tchoice>,
    #[asn(optional(complex(Tplain, tag(UNIVERSAL(16)))))] pub f1: Option<Tplain>,
    #[asn(optional(complex(Tsmall, tag(UNIVERSAL(2)))))] pub f2: Option<Tsmall>,
}

impl Tr3oome2 {
}

#[asn(sequence, extensible_after(f2))]

#[derive(Default, Debug, Clone, PartialEq, Hash)]
pub struct Tr3oome3 {
    #[asn(optional(complex(Tchoice, tag(UNIVERSAL(1)))))] pub f0: Option<Tchoice>,
    #[asn(optional(complex(Tplain, tag(UNIVERSAL(16)))))] pub f1: Option<Tplain>,
    #[asn(complex(Tsmall, tag(UNIVERSAL(2))))] pub f2: Tsmall,
}

impl Tr3oome3 {
}

#[asn(sequence)]

#[derive(Default, Debug, Clone, PartialEq, Hash)]
pub struct Tr3mmon {
    #[asn(complex(Tchoice, tag(UNIVERSAL(1))))] pub f0: Tchoice,
    #[asn(complex(Tplain, tag(UNIVERSAL(16))))] pub f1: Tplain,
    #[asn(optional(complex(Tsmall, tag(UNIVERSAL(2)))))] pub f2: Option<Tsmall>,
}

impl Tr3mmon {
}

#[asn(sequence, extensible_after(f0))]

#[derive(Default, Debug, Clone, PartialEq, Hash)]
pub struct Tr3mmoe0 {
    #[asn(complex(Tchoice, tag(UNIVERSAL(1))))] pub f0: Tchoice,
    #[asn(optional(complex(Tplain, tag(UNIVERSAL(16)))))] pub f1: Option<Tplain>,
    #[asn(optional(complex(Tsmall, tag(UNIVERSAL(2)))))] pub f2: Option<Tsmall>,
}

impl Tr3mmoe0 {
}

#[asn(sequence, extensible_after(f0))]

#[derive(Default, Debug, Clone, PartialEq, Hash)]
pub struct Tr3mmoe1 {
    #[asn(complex(Tchoice, tag(UNIVERSAL(1))))] pub f0: Tchoice,
    #[asn(optional(complex(Tplain, tag(UNIVERSAL(16)))))] pub f1: Option<Tplain>,
    #[asn(optional(complex(Tsmall, tag(UNIVERSAL(2)))))] pub f2: Option<Tsmall>,
}

impl Tr3mmoe1 {
}

#[asn(sequence, extensible_after(f1))]

#[derive(Default, Debug, Clone, PartialEq, Hash)]
pub struct Tr3mmoe2 {
    #[asn(complex(Tchoice, tag(UNIVERSAL(1))))] pub f0: Tchoice,
    #[asn(complex(Tplain, tag(UNIVERSAL(16))))] pub f1: Tplain,
    #[asn(optional(complex(Tsmall, tag(UNIVERSAL(2)))))] pub f2: Option<Tsmall>,
}

impl Tr3mmoe2 {
}

#[asn(sequence, extensible_after(f2))]

#[derive(Default, Debug, Clone, PartialEq, Hash)]
pub struct Tr3mmoe3 {
    #[asn(complex(Tchoice, tag(UNIVERSAL(1))))] pub f0: Tchoice,
    #[asn(complex(Tplain, tag(UNIVERSAL(16))))] pub f1: Tplain,
    #[asn(optional(complex(Tsmall, tag(UNIVERSAL(2)))))] pub f2: Option<Tsmall>,
}

impl Tr3mmoe3 {
}

#[asn(sequence)]

#[derive(Default, Debug, Clone, PartialEq, Hash)]
pub struct Tr3omon {
    #[asn(optional(complex(Tchoice, tag(UNIVERSAL(1)))))] pub f0: Option<Tchoice>,
    #[asn(complex(Tplain, tag(UNIVERSAL(16))))] pub f1: Tplain,
    #[asn(optional(complex(Tsmall, tag(UNIVERSAL(2)))))] pub f2: Option<Tsmall>,
}

impl Tr3omon {
}

#[asn(sequence, extensible_after(f0))]

#[derive(Default, Debug, Clone, PartialEq, Hash)]
pub struct Tr3omoe0 {
    #[asn(optional(complex(Tchoice, tag(UNIVERSAL(1)))))] pub f0: Option<Tchoice>,
    #[asn(optional(complex(Tplain, tag(UNIVERSAL(16)))))] pub f1: Option<Tplain>,
    #[asn(optional(complex(Tsmall, tag(UNIVERSAL(2)))))] pub f2: Option<Tsmall>,
}

impl Tr3omoe0 {
}

#[asn(sequence, extensible_after(f0))]

#[derive(Default, Debug, Clone, PartialEq, Hash)]
pub struct Tr3omoe1 {
    #[asn(optional(complex(Tchoice, tag(UNIVERSAL(1)))))] pub f0: Option<Tchoice>,
    #[asn(optional(complex(Tplain, tag(UNIVERSAL(16)))))] pub f1: Option<Tplain>,
    #[asn(optional(complex(Tsmall, tag(UNIVERSAL(2)))))] pub f2: Option<Tsmall>,
}

impl Tr3omoe1 {
}

#[asn(sequence, extensible_after(f1))]

#[derive(Default, Debug, Clone, PartialEq, Hash)]
pub struct Tr3omoe2 {
    #[asn(optional(complex(Tchoice, tag(UNIVERSAL(1)))))] pub f0: Option<Tchoice>,
    #[asn(complex(Tplain, tag(UNIVERSAL(16))))] pub f1: Tplain,
    #[asn(optional(complex(Tsmall, tag(UNIVERSAL(2)))))] pub f2: Option<Tsmall>,
}

impl Tr3omoe2 {
}

#[asn(sequence, extensible_after(f2))]

#[derive(Default, Debug, Clone, PartialEq, Hash)]
pub struct Tr3omoe3 {
    #[asn(optional(complex(Tchoice, tag(UNIVERSAL(1)))))] pub f0: Option<Tchoice>,
    #[asn(complex(Tplain, tag(UNIVERSAL(16))))] pub f1: Tplain,
    #[asn(optional(complex(Tsmall, tag(UNIVERSAL(2)))))] pub f2: Option<Tsmall>,
}

impl Tr3omoe3 {
}

#[asn(sequence)]

#[derive(Default, Debug, Clone, PartialEq, Hash)]
pub struct Tr3moon {
    #[asn(complex(Tchoice, tag(UNIVERSAL(1))))] pub f0: Tchoice,
    #[asn(optional(complex(Tplain, tag(UNIVERSAL(16)))))] pub f1: Option<Tplain>,
    #[asn(optional(complex(Tsmall, tag(UNIVERSAL(2)))))] pub f2: Option<Tsmall>,
}

impl Tr3moon {
}

#[asn(sequence, extensible_after(f0))]

#[derive(Default, Debug, Clone, PartialEq, Hash)]
pub struct Tr3mooe0 {
    #[asn(complex(Tchoice, tag(UNIVERSAL(1))))] pub f0: Tchoice,
    #[asn(optional(complex(Tplain, tag(UNIVERSAL(16)))))] pub f1: Option<Tplain>,
    #[asn(optional(complex(Tsmall, tag(UNIVERSAL(2)))))] pub f2: Option<Tsmall>,
}

impl Tr3mooe0 {
}

#[asn(sequence, extensible_after(f0))]

#[derive(Default, Debug, Clone, PartialEq, Hash)]
pub struct Tr3mooe1 {
    #[asn(complex(Tchoice, tag(UNIVERSAL(1))))] pub f0: Tchoice,
    #[asn(optional(complex(Tplain, tag(UNIVERSAL(16)))))] pub f1: Option<Tplain>,
    #[asn(optional(complex(Tsmall, tag(UNIVERSAL(2)))))] pub f2: Option<Tsmall>,
}

impl Tr3mooe1 {
}

#[asn(sequence, extensible_after(f1))]

#[derive(Default, Debug, Clone, PartialEq, Hash)]
pub struct Tr3mooe2 {
    #[asn(complex(Tchoice, tag(UNIVERSAL(1))))] pub f0: Tchoice,
    #[asn(optional(complex(Tplain, tag(UNIVERSAL(16)))))] pub f1: Option<Tplain>,
    #[asn(optional(complex(Tsmall, tag(UNIVERSAL(2)))))] pub f2: Option<Tsmall>,
}

impl Tr3mooe2 {
}

#[asn(sequence, extensible_after(f2))]

#[derive(Default, Debug, Clone, PartialEq, Hash)]
pub struct Tr3mooe3 {
    #[asn(complex(Tchoice, tag(UNIVERSAL(1))))] pub f0: Tchoice,
    #[asn(optional(complex(Tplain, tag(UNIVERSAL(16)))))] pub f1: Option<Tplain>,
    #[asn(optional(complex(Tsmall, tag(UNIVERSAL(2)))))] pub f2: Option<Tsmall>,
}

impl Tr3mooe3 {
}

#[asn(sequence)]

#[derive(Default, Debug, Clone, PartialEq, Hash)]
pub struct Tr3ooon {
    #[asn(optional(complex(Tchoice, tag(UNIVERSAL(1)))))] pub f0: Option<Tchoice>,
    #[asn(optional(complex(Tplain, tag(UNIVERSAL(16)))))] pub f1: Option<Tplain>,
    #[asn(optional(complex(Tsmall, tag(UNIVERSAL(2)))))] pub f2: Option<Tsmall>,
}

impl Tr3ooon {
}

#[asn(sequence, extensible_after(f0))]

#[derive(Default, Debug, Clone, PartialEq, Hash)]
pub struct Tr3oooe0 {
    #[asn(optional(complex(Tchoice, tag(UNIVERSAL(1)))))] pub f0: Option<Tchoice>,
    #[asn(optional(complex(Tplain, tag(UNIVERSAL(16)))))] pub f1: Option<Tplain>,
    #[asn(optional(complex(Tsmall, tag(UNIVERSAL(2)))))] pub f2: Option<Tsmall>,
}

impl Tr3oooe0 {
}

#[asn(sequence, extensible_after(f0))]

#[derive(Default, Debug, Clone, PartialEq, Hash)]
pub struct Tr3oooe1 {
    #[asn(optional(complex(Tchoice, tag(UNIVERSAL(1)))))] pub f0: Option<Tchoice>,
    #[asn(optional(complex(Tplain, tag(UNIVERSAL(16)))))] pub f1: Option<Tplain>,
    #[asn(optional(complex(Tsmall, tag(UNIVERSAL(2)))))] pub f2: Option<Tsmall>,
}

impl Tr3oooe1 {
}

#[asn(sequence, extensible_after(f1))]

#[derive(Default, Debug, Clone, PartialEq, Hash)]
pub struct Tr3oooe2 {
    #[asn(optional(complex(Tchoice, tag(UNIVERSAL(1)))))] pub f0: Option<Tchoice>,
    #[asn(optional(complex(Tplain, tag(UNIVERSAL(16)))))] pub f1: Option<Tplain>,
    #[asn(optional(complex(Tsmall, tag(UNIVERSAL(2)))))] pub f2: Option<Tsmall>,
}

impl Tr3oooe2 {
}

#[asn(sequence, extensible_after(f2))]

#[derive(Default, Debug, Clone, PartialEq, Hash)]
pub struct Tr3oooe3 {
    #[asn(optional(complex(Tchoice, tag(UNIVERSAL(1)))))] pub f0: Option<Tchoice>,
    #[asn(optional(complex(Tplain, tag(UNIVERSAL(16)))))] pub f1: Option<Tplain>,
    #[asn(optional(complex(Tsmall, tag(UNIVERSAL(2)))))] pub f2: Option<Tsmall>,
}

impl Tr3oooe3 {
}
// ---- harness conversions (generated by the zoo build script from the items above) ----
impl FromValue for Tplain {
    fn from_value(v: &Value) -> Self {
        let s = match v { Value::Seq(s) => s, other => panic!("Tplain: expected Seq, got {other:?}") };
        assert_eq!(s.len(), 2, "Tplain: component count");
        let _ = s;
        Tplain {
            p: FromValue::from_value(s[0].as_ref().expect("component p of Tplain must be present")),
            q: FromValue::from_value(s[1].as_ref().expect("component q of Tplain must be present")),
        }
    }
}
impl ToValue for Tplain {
    fn to_value(&self) -> Value {
        Value::Seq(vec![
            Some(self.p.to_value()),
            Some(self.q.to_value()),
        ])
    }
}
impl FromValue for Tsmall { fn from_value(v: &Value) -> Self { Tsmall(FromValue::from_value(v)) } }
impl ToValue for Tsmall { fn to_value(&self) -> Value { self.0.to_value() } }
impl FromValue for Tchoice {
    fn from_value(v: &Value) -> Self {
        let (i, inner) = match v { Value::Choice(i, inner) => (*i, &**inner), other => panic!("Tchoice: expected Choice, got {other:?}") };
        match i {
            0 => Tchoice::I(FromValue::from_value(inner)),
            1 => Tchoice::B(FromValue::from_value(inner)),
            _ => panic!("Tchoice: alternative index {i} out of range"),
        }
    }
}
impl ToValue for Tchoice {
    fn to_value(&self) -> Value {
        match self {
            Tchoice::I(x) => Value::Choice(0, Box::new(x.to_value())),
            Tchoice::B(x) => Value::Choice(1, Box::new(x.to_value())),
        }
    }
}
impl FromValue for Tr1mn {
    fn from_value(v: &Value) -> Self {
        let s = match v { Value::Seq(s) => s, other => panic!("Tr1mn: expected Seq, got {other:?}") };
        assert_eq!(s.len(), 1, "Tr1mn: component count");
        let _ = s;
        Tr1mn {
            f0: FromValue::from_value(s[0].as_ref().expect("component f0 of Tr1mn must be present")),
        }
    }
}
impl ToValue for Tr1mn {
    fn to_value(&self) -> Value {
        Value::Seq(vec![
            Some(self.f0.to_value()),
        ])
    }
}
impl FromValue for Tr1me0 {
    fn from_value(v: &Value) -> Self {
        let s = match v { Value::Seq(s) => s, other => panic!("Tr1me0: expected Seq, got {other:?}") };
        assert_eq!(s.len(), 1, "Tr1me0: component count");
        let _ = s;
        Tr1me0 {
            f0: FromValue::from_value(s[0].as_ref().expect("component f0 of Tr1me0 must be present")),
        }
    }
}
impl ToValue for Tr1me0 {
    fn to_value(&self) -> Value {
        Value::Seq(vec![
            Some(self.f0.to_value()),
        ])
    }
}
impl FromValue for Tr1me1 {
    fn from_value(v: &Value) -> Self {
        let s = match v { Value::Seq(s) => s, other => panic!("Tr1me1: expected Seq, got {other:?}") };
        assert_eq!(s.len(), 1, "Tr1me1: component count");
        let _ = s;
        Tr1me1 {
            f0: FromValue::from_value(s[0].as_ref().expect("component f0 of Tr1me1 must be present")),
        }
    }
}
impl ToValue for Tr1me1 {
    fn to_value(&self) -> Value {
        Value::Seq(vec![
            Some(self.f0.to_value()),
        ])
    }
}
impl FromValue for Tr1on {
    fn from_value(v: &Value) -> Self {
        let s = match v { Value::Seq(s) => s, other => panic!("Tr1on: expected Seq, got {other:?}") };
        assert_eq!(s.len(), 1, "Tr1on: component count");
        let _ = s;
        Tr1on {
            f0: s[0].as_ref().map(FromValue::from_value),
        }
    }
}
impl ToValue for Tr1on {
    fn to_value(&self) -> Value {
        Value::Seq(vec![
            self.f0.as_ref().map(|x| x.to_value()),
        ])
    }
}
impl FromValue for Tr1oe0 {
    fn from_value(v: &Value) -> Self {
        let s = match v { Value::Seq(s) => s, other => panic!("Tr1oe0: expected Seq, got {other:?}") };
        assert_eq!(s.len(), 1, "Tr1oe0: component count");
        let _ = s;
        Tr1oe0 {
            f0: s[0].as_ref().map(FromValue::from_value),
        }
    }
}
impl ToValue for Tr1oe0 {
    fn to_value(&self) -> Value {
        Value::Seq(vec![
            self.f0.as_ref().map(|x| x.to_value()),
        ])
    }
}
impl FromValue for Tr1oe1 {
    fn from_value(v: &Value) -> Self {
        let s = match v { Value::Seq(s) => s, other => panic!("Tr1oe1: expected Seq, got {other:?}") };
        assert_eq!(s.len(), 1, "Tr1oe1: component count");
        let _ = s;
        Tr1oe1 {
            f0: s[0].as_ref().map(FromValue::from_value),
        }
    }
}
impl ToValue for Tr1oe1 {
    fn to_value(&self) -> Value {
        Value::Seq(vec![
            self.f0.as_ref().map(|x| x.to_value()),
        ])
    }
}
impl FromValue for Tr2mmn {
    fn from_value(v: &Value) -> Self {
        let s = match v { Value::Seq(s) => s, other => panic!("Tr2mmn: expected Seq, got {other:?}") };
        assert_eq!(s.len(), 2, "Tr2mmn: component count");
        let _ = s;
        Tr2mmn {
            f0: FromValue::from_value(s[0].as_ref().expect("component f0 of Tr2mmn must be present")),
            f1: FromValue::from_value(s[1].as_ref().expect("component f1 of Tr2mmn must be present")),
        }
    }
}
impl ToValue for Tr2mmn {
    fn to_value(&self) -> Value {
        Value::Seq(vec![
            Some(self.f0.to_value()),
            Some(self.f1.to_value()),
        ])
    }
}
impl FromValue for Tr2mme0 {
    fn from_value(v: &Value) -> Self {
        let s = match v { Value::Seq(s) => s, other => panic!("Tr2mme0: expected Seq, got {other:?}") };
        assert_eq!(s.len(), 2, "Tr2mme0: component count");
        let _ = s;
        Tr2mme0 {
            f0: FromValue::from_value(s[0].as_ref().expect("component f0 of Tr2mme0 must be present")),
            f1: s[1].as_ref().map(FromValue::from_value),
        }
    }
}
impl ToValue for Tr2mme0 {
    fn to_value(&self) -> Value {
        Value::Seq(vec![
            Some(self.f0.to_value()),
            self.f1.as_ref().map(|x| x.to_value()),
        ])
    }
}
impl FromValue for Tr2mme1 {
    fn from_value(v: &Value) -> Self {
        let s = match v { Value::Seq(s) => s, other => panic!("Tr2mme1: expected Seq, got {other:?}") };
        assert_eq!(s.len(), 2, "Tr2mme1: component count");
        let _ = s;
        Tr2mme1 {
            f0: FromValue::from_value(s[0].as_ref().expect("component f0 of Tr2mme1 must be present")),
            f1: s[1].as_ref().map(FromValue::from_value),
        }
    }
}
impl ToValue for Tr2mme1 {
    fn to_value(&self) -> Value {
        Value::Seq(vec![
            Some(self.f0.to_value()),
            self.f1.as_ref().map(|x| x.to_value()),
        ])
    }
}
impl FromValue for Tr2mme2 {
    fn from_value(v: &Value) -> Self {
        let s = match v { Value::Seq(s) => s, other => panic!("Tr2mme2: expected Seq, got {other:?}") };
        assert_eq!(s.len(), 2, "Tr2mme2: component count");
        let _ = s;
        Tr2mme2 {
            f0: FromValue::from_value(s[0].as_ref().expect("component f0 of Tr2mme2 must be present")),
            f1: FromValue::from_value(s[1].as_ref().expect("component f1 of Tr2mme2 must be present")),
        }
    }
}
impl ToValue for Tr2mme2 {
    fn to_value(&self) -> Value {
        Value::Seq(vec![
            Some(self.f0.to_value()),
            Some(self.f1.to_value()),
        ])
    }
}
impl FromValue for Tr2omn {
    fn from_value(v: &Value) -> Self {
        let s = match v { Value::Seq(s) => s, other => panic!("Tr2omn: expected Seq, got {other:?}") };
        assert_eq!(s.len(), 2, "Tr2omn: component count");
        let _ = s;
        Tr2omn {
            f0: s[0].as_ref().map(FromValue::from_value),
            f1: FromValue::from_value(s[1].as_ref().expect("component f1 of Tr2omn must be present")),
        }
    }
}
impl ToValue for Tr2omn {
    fn to_value(&self) -> Value {
        Value::Seq(vec![
            self.f0.as_ref().map(|x| x.to_value()),
            Some(self.f1.to_value()),
        ])
    }
}
impl FromValue for Tr2ome0 {
    fn from_value(v: &Value) -> Self {
        let s = match v { Value::Seq(s) => s, other => panic!("Tr2ome0: expected Seq, got {other:?}") };
        assert_eq!(s.len(), 2, "Tr2ome0: component count");
        let _ = s;
        Tr2ome0 {
            f0: s[0].as_ref().map(FromValue::from_value),
            f1: s[1].as_ref().map(FromValue::from_value),
        }
    }
}
impl ToValue for Tr2ome0 {
    fn to_value(&self) -> Value {
        Value::Seq(vec![
            self.f0.as_ref().map(|x| x.to_value()),
            self.f1.as_ref().map(|x| x.to_value()),
        ])
    }
}
impl FromValue for Tr2ome1 {
    fn from_value(v: &Value) -> Self {
        let s = match v { Value::Seq(s) => s, other => panic!("Tr2ome1: expected Seq, got {other:?}") };
        assert_eq!(s.len(), 2, "Tr2ome1: component count");
        let _ = s;
        Tr2ome1 {
            f0: s[0].as_ref().map(FromValue::from_value),
            f1: s[1].as_ref().map(FromValue::from_value),
        }
    }
}
impl ToValue for Tr2ome1 {
    fn to_value(&self) -> Value {
        Value::Seq(vec![
            self.f0.as_ref().map(|x| x.to_value()),
            self.f1.as_ref().map(|x| x.to_value()),
        ])
    }
}
impl FromValue for Tr2ome2 {
    fn from_value(v: &Value) -> Self {
        let s = match v { Value::Seq(s) => s, other => panic!("Tr2ome2: expected Seq, got {other:?}") };
        assert_eq!(s.len(), 2, "Tr2ome2: component count");
        let _ = s;
        Tr2ome2 {
            f0: s[0].as_ref().map(FromValue::from_value),
            f1: FromValue::from_value(s[1].as_ref().expect("component f1 of Tr2ome2 must be present")),
        }
    }
}
impl ToValue for Tr2ome2 {
    fn to_value(&self) -> Value {
        Value::Seq(vec![
            self.f0.as_ref().map(|x| x.to_value()),
            Some(self.f1.to_value()),
        ])
    }
}
impl FromValue for Tr2mon {
    fn from_value(v: &Value) -> Self {
        let s = match v { Value::Seq(s) => s, other => panic!("Tr2mon: expected Seq, got {other:?}") };
        assert_eq!(s.len(), 2, "Tr2mon: component count");
        let _ = s;
        Tr2mon {
            f0: FromValue::from_value(s[0].as_ref().expect("component f0 of Tr2mon must be present")),
            f1: s[1].as_ref().map(FromValue::from_value),
        }
    }
}
impl ToValue for Tr2mon {
    fn to_value(&self) -> Value {
        Value::Seq(vec![
            Some(self.f0.to_value()),
            self.f1.as_ref().map(|x| x.to_value()),
        ])
    }
}
impl FromValue for Tr2moe0 {
    fn from_value(v: &Value) -> Self {
        let s = match v { Value::Seq(s) => s, other => panic!("Tr2moe0: expected Seq, got {other:?}") };
        assert_eq!(s.len(), 2, "Tr2moe0: component count");
        let _ = s;
        Tr2moe0 {
            f0: FromValue::from_value(s[0].as_ref().expect("component f0 of Tr2moe0 must be present")),
            f1: s[1].as_ref().map(FromValue::from_value),
        }
    }
}
impl ToValue for Tr2moe0 {
    fn to_value(&self) -> Value {
        Value::Seq(vec![
            Some(self.f0.to_value()),
            self.f1.as_ref().map(|x| x.to_value()),
        ])
    }
}
impl FromValue for Tr2moe1 {
    fn from_value(v: &Value) -> Self {
        let s = match v { Value::Seq(s) => s, other => panic!("Tr2moe1: expected Seq, got {other:?}") };
        assert_eq!(s.len(), 2, "Tr2moe1: component count");
        let _ = s;
        Tr2moe1 {
            f0: FromValue::from_value(s[0].as_ref().expect("component f0 of Tr2moe1 must be present")),
            f1: s[1].as_ref().map(FromValue::from_value),
        }
    }
}
impl ToValue for Tr2moe1 {
    fn to_value(&self) -> Value {
        Value::Seq(vec![
            Some(self.f0.to_value()),
            self.f1.as_ref().map(|x| x.to_value()),
        ])
    }
}
impl FromValue for Tr2moe2 {
    fn from_value(v: &Value) -> Self {
        let s = match v { Value::Seq(s) => s, other => panic!("Tr2moe2: expected Seq, got {other:?}") };
        assert_eq!(s.len(), 2, "Tr2moe2: component count");
        let _ = s;
        Tr2moe2 {
            f0: FromValue::from_value(s[0].as_ref().expect("component f0 of Tr2moe2 must be present")),
            f1: s[1].as_ref().map(FromValue::from_value),
        }
    }
}
impl ToValue for Tr2moe2 {
    fn to_value(&self) -> Value {
        Value::Seq(vec![
            Some(self.f0.to_value()),
            self.f1.as_ref().map(|x| x.to_value()),
        ])
    }
}
impl FromValue for Tr2oon {
    fn from_value(v: &Value) -> Self {
        let s = match v { Value::Seq(s) => s, other => panic!("Tr2oon: expected Seq, got {other:?}") };
        assert_eq!(s.len(), 2, "Tr2oon: component count");
        let _ = s;
        Tr2oon {
            f0: s[0].as_ref().map(FromValue::from_value),
            f1: s[1].as_ref().map(FromValue::from_value),
        }
    }
}
impl ToValue for Tr2oon {
    fn to_value(&self) -> Value {
        Value::Seq(vec![
            self.f0.as_ref().map(|x| x.to_value()),
            self.f1.as_ref().map(|x| x.to_value()),
        ])
    }
}
impl FromValue for Tr2ooe0 {
    fn from_value(v: &Value) -> Self {
        let s = match v { Value::Seq(s) => s, other => panic!("Tr2ooe0: expected Seq, got {other:?}") };
        assert_eq!(s.len(), 2, "Tr2ooe0: component count");
        let _ = s;
        Tr2ooe0 {
            f0: s[0].as_ref().map(FromValue::from_value),
            f1: s[1].as_ref().map(FromValue::from_value),
        }
    }
}
impl ToValue for Tr2ooe0 {
    fn to_value(&self) -> Value {
        Value::Seq(vec![
            self.f0.as_ref().map(|x| x.to_value()),
            self.f1.as_ref().map(|x| x.to_value()),
        ])
    }
}
impl FromValue for Tr2ooe1 {
    fn from_value(v: &Value) -> Self {
        let s = match v { Value::Seq(s) => s, other => panic!("Tr2ooe1: expected Seq, got {other:?}") };
        assert_eq!(s.len(), 2, "Tr2ooe1: component count");
        let _ = s;
        Tr2ooe1 {
            f0: s[0].as_ref().map(FromValue::from_value),
            f1: s[1].as_ref().map(FromValue::from_value),
        }
    }
}
impl ToValue for Tr2ooe1 {
    fn to_value(&self) -> Value {
        Value::Seq(vec![
            self.f0.as_ref().map(|x| x.to_value()),
            self.f1.as_ref().map(|x| x.to_value()),
        ])
    }
}
impl FromValue for Tr2ooe2 {
    fn from_value(v: &Value) -> Self {
        let s = match v { Value::Seq(s) => s, other => panic!("Tr2ooe2: expected Seq, got {other:?}") };
        assert_eq!(s.len(), 2, "Tr2ooe2: component count");
        let _ = s;
        Tr2ooe2 {
            f0: s[0].as_ref().map(FromValue::from_value),
            f1: s[1].as_ref().map(FromValue::from_value),
        }
    }
}
impl ToValue for Tr2ooe2 {
    fn to_value(&self) -> Value {
        Value::Seq(vec![
            self.f0.as_ref().map(|x| x.to_value()),
            self.f1.as_ref().map(|x| x.to_value()),
        ])
    }
}
impl FromValue for Tr3mmmn {
    fn from_value(v: &Value) -> Self {
        let s = match v { Value::Seq(s) => s, other => panic!("Tr3mmmn: expected Seq, got {other:?}") };
        assert_eq!(s.len(), 3, "Tr3mmmn: component count");
        let _ = s;
        Tr3mmmn {
            f0: FromValue::from_value(s[0].as_ref().expect("component f0 of Tr3mmmn must be present")),
            f1: FromValue::from_value(s[1].as_ref().expect("component f1 of Tr3mmmn must be present")),
            f2: FromValue::from_value(s[2].as_ref().expect("component f2 of Tr3mmmn must be present")),
        }
    }
}
impl ToValue for Tr3mmmn {
    fn to_value(&self) -> Value {
        Value::Seq(vec![
            Some(self.f0.to_value()),
            Some(self.f1.to_value()),
            Some(self.f2.to_value()),
        ])
    }
}
impl FromValue for Tr3mmme0 {
    fn from_value(v: &Value) -> Self {
        let s = match v { Value::Seq(s) => s, other => panic!("Tr3mmme0: expected Seq, got {other:?}") };
        assert_eq!(s.len(), 3, "Tr3mmme0: component count");
        let _ = s;
        Tr3mmme0 {
            f0: FromValue::from_value(s[0].as_ref().expect("component f0 of Tr3mmme0 must be present")),
            f1: s[1].as_ref().map(FromValue::from_value),
            f2: s[2].as_ref().map(FromValue::from_value),
        }
    }
}
impl ToValue for Tr3mmme0 {
    fn to_value(&self) -> Value {
        Value::Seq(vec![
            Some(self.f0.to_value()),
            self.f1.as_ref().map(|x| x.to_value()),
            self.f2.as_ref().map(|x| x.to_value()),
        ])
    }
}
impl FromValue for Tr3mmme1 {
    fn from_value(v: &Value) -> Self {
        let s = match v { Value::Seq(s) => s, other => panic!("Tr3mmme1: expected Seq, got {other:?}") };
        assert_eq!(s.len(), 3, "Tr3mmme1: component count");
        let _ = s;
        Tr3mmme1 {
            f0: FromValue::from_value(s[0].as_ref().expect("component f0 of Tr3mmme1 must be present")),
            f1: s[1].as_ref().map(FromValue::from_value),
            f2: s[2].as_ref().map(FromValue::from_value),
        }
    }
}
impl ToValue for Tr3mmme1 {
    fn to_value(&self) -> Value {
        Value::Seq(vec![
            Some(self.f0.to_value()),
            self.f1.as_ref().map(|x| x.to_value()),
            self.f2.as_ref().map(|x| x.to_value()),
        ])
    }
}
impl FromValue for Tr3mmme2 {
    fn from_value(v: &Value) -> Self {
        let s = match v { Value::Seq(s) => s, other => panic!("Tr3mmme2: expected Seq, got {other:?}") };
        assert_eq!(s.len(), 3, "Tr3mmme2: component count");
        let _ = s;
        Tr3mmme2 {
            f0: FromValue::from_value(s[0].as_ref().expect("component f0 of Tr3mmme2 must be present")),
            f1: FromValue::from_value(s[1].as_ref().expect("component f1 of Tr3mmme2 must be present")),
            f2: s[2].as_ref().map(FromValue::from_value),
        }
    }
}
impl ToValue for Tr3mmme2 {
    fn to_value(&self) -> Value {
        Value::Seq(vec![
            Some(self.f0.to_value()),
            Some(self.f1.to_value()),
            self.f2.as_ref().map(|x| x.to_value()),
        ])
    }
}
impl FromValue for Tr3mmme3 {
    fn from_value(v: &Value) -> Self {
        let s = match v { Value::Seq(s) => s, other => panic!("Tr3mmme3: expected Seq, got {other:?}") };
        assert_eq!(s.len(), 3, "Tr3mmme3: component count");
        let _ = s;
        Tr3mmme3 {
            f0: FromValue::from_value(s[0].as_ref().expect("component f0 of Tr3mmme3 must be present")),
            f1: FromValue::from_value(s[1].as_ref().expect("component f1 of Tr3mmme3 must be present")),
            f2: FromValue::from_value(s[2].as_ref().expect("component f2 of Tr3mmme3 must be present")),
        }
    }
}
impl ToValue for Tr3mmme3 {
    fn to_value(&self) -> Value {
        Value::Seq(vec![
            Some(self.f0.to_value()),
            Some(self.f1.to_value()),
            Some(self.f2.to_value()),
        ])
    }
}
impl FromValue for Tr3ommn {
    fn from_value(v: &Value) -> Self {
        let s = match v { Value::Seq(s) => s, other => panic!("Tr3ommn: expected Seq, got {other:?}") };
        assert_eq!(s.len(), 3, "Tr3ommn: component count");
        let _ = s;
        Tr3ommn {
            f0: s[0].as_ref().map(FromValue::from_value),
            f1: FromValue::from_value(s[1].as_ref().expect("component f1 of Tr3ommn must be present")),
            f2: FromValue::from_value(s[2].as_ref().expect("component f2 of Tr3ommn must be present")),
        }
    }
}
impl ToValue for Tr3ommn {
    fn to_value(&self) -> Value {
        Value::Seq(vec![
            self.f0.as_ref().map(|x| x.to_value()),
            Some(self.f1.to_value()),
            Some(self.f2.to_value()),
        ])
    }
}
impl FromValue for Tr3omme0 {
    fn from_value(v: &Value) -> Self {
        let s = match v { Value::Seq(s) => s, other => panic!("Tr3omme0: expected Seq, got {other:?}") };
        assert_eq!(s.len(), 3, "Tr3omme0: component count");
        let _ = s;
        Tr3omme0 {
            f0: s[0].as_ref().map(FromValue::from_value),
            f1: s[1].as_ref().map(FromValue::from_value),
            f2: s[2].as_ref().map(FromValue::from_value),
        }
    }
}
impl ToValue for Tr3omme0 {
    fn to_value(&self) -> Value {
        Value::Seq(vec![
            self.f0.as_ref().map(|x| x.to_value()),
            self.f1.as_ref().map(|x| x.to_value()),
            self.f2.as_ref().map(|x| x.to_value()),
        ])
    }
}
impl FromValue for Tr3omme1 {
    fn from_value(v: &Value) -> Self {
        let s = match v { Value::Seq(s) => s, other => panic!("Tr3omme1: expected Seq, got {other:?}") };
        assert_eq!(s.len(), 3, "Tr3omme1: component count");
        let _ = s;
        Tr3omme1 {
            f0: s[0].as_ref().map(FromValue::from_value),
            f1: s[1].as_ref().map(FromValue::from_value),
            f2: s[2].as_ref().map(FromValue::from_value),
        }
    }
}
impl ToValue for Tr3omme1 {
    fn to_value(&self) -> Value {
        Value::Seq(vec![
            self.f0.as_ref().map(|x| x.to_value()),
            self.f1.as_ref().map(|x| x.to_value()),
            self.f2.as_ref().map(|x| x.to_value()),
        ])
    }
}
impl FromValue for Tr3omme2 {
    fn from_value(v: &Value) -> Self {
        let s = match v { Value::Seq(s) => s, other => panic!("Tr3omme2: expected Seq, got {other:?}") };
        assert_eq!(s.len(), 3, "Tr3omme2: component count");
        let _ = s;
        Tr3omme2 {
            f0: s[0].as_ref().map(FromValue::from_value),
            f1: FromValue::from_value(s[1].as_ref().expect("component f1 of Tr3omme2 must be present")),
            f2: s[2].as_ref().map(FromValue::from_value),
        }
    }
}
impl ToValue for Tr3omme2 {
    fn to_value(&self) -> Value {
        Value::Seq(vec![
            self.f0.as_ref().map(|x| x.to_value()),
            Some(self.f1.to_value()),
            self.f2.as_ref().map(|x| x.to_value()),
        ])
    }
}
impl FromValue for Tr3omme3 {
    fn from_value(v: &Value) -> Self {
        let s = match v { Value::Seq(s) => s, other => panic!("Tr3omme3: expected Seq, got {other:?}") };
        assert_eq!(s.len(), 3, "Tr3omme3: component count");
        let _ = s;
        Tr3omme3 {
            f0: s[0].as_ref().map(FromValue::from_value),
            f1: FromValue::from_value(s[1].as_ref().expect("component f1 of Tr3omme3 must be present")),
            f2: FromValue::from_value(s[2].as_ref().expect("component f2 of Tr3omme3 must be present")),
        }
    }
}
impl ToValue for Tr3omme3 {
    fn to_value(&self) -> Value {
        Value::Seq(vec![
            self.f0.as_ref().map(|x| x.to_value()),
            Some(self.f1.to_value()),
            Some(self.f2.to_value()),
        ])
    }
}
impl FromValue for Tr3momn {
    fn from_value(v: &Value) -> Self {
        let s = match v { Value::Seq(s) => s, other => panic!("Tr3momn: expected Seq, got {other:?}") };
        assert_eq!(s.len(), 3, "Tr3momn: component count");
        let _ = s;
        Tr3momn {
            f0: FromValue::from_value(s[0].as_ref().expect("component f0 of Tr3momn must be present")),
            f1: s[1].as_ref().map(FromValue::from_value),
            f2: FromValue::from_value(s[2].as_ref().expect("component f2 of Tr3momn must be present")),
        }
    }
}
impl ToValue for Tr3momn {
    fn to_value(&self) -> Value {
        Value::Seq(vec![
            Some(self.f0.to_value()),
            self.f1.as_ref().map(|x| x.to_value()),
            Some(self.f2.to_value()),
        ])
    }
}
impl FromValue for Tr3mome0 {
    fn from_value(v: &Value) -> Self {
        let s = match v { Value::Seq(s) => s, other => panic!("Tr3mome0: expected Seq, got {other:?}") };
        assert_eq!(s.len(), 3, "Tr3mome0: component count");
        let _ = s;
        Tr3mome0 {
            f0: FromValue::from_value(s[0].as_ref().expect("component f0 of Tr3mome0 must be present")),
            f1: s[1].as_ref().map(FromValue::from_value),
            f2: s[2].as_ref().map(FromValue::from_value),
        }
    }
}
impl ToValue for Tr3mome0 {
    fn to_value(&self) -> Value {
        Value::Seq(vec![
            Some(self.f0.to_value()),
            self.f1.as_ref().map(|x| x.to_value()),
            self.f2.as_ref().map(|x| x.to_value()),
        ])
    }
}
impl FromValue for Tr3mome1 {
    fn from_value(v: &Value) -> Self {
        let s = match v { Value::Seq(s) => s, other => panic!("Tr3mome1: expected Seq, got {other:?}") };
        assert_eq!(s.len(), 3, "Tr3mome1: component count");
        let _ = s;
        Tr3mome1 {
            f0: FromValue::from_value(s[0].as_ref().expect("component f0 of Tr3mome1 must be present")),
            f1: s[1].as_ref().map(FromValue::from_value),
            f2: s[2].as_ref().map(FromValue::from_value),
        }
    }
}
impl ToValue for Tr3mome1 {
    fn to_value(&self) -> Value {
        Value::Seq(vec![
            Some(self.f0.to_value()),
            self.f1.as_ref().map(|x| x.to_value()),
            self.f2.as_ref().map(|x| x.to_value()),
        ])
    }
}
impl FromValue for Tr3mome2 {
    fn from_value(v: &Value) -> Self {
        let s = match v { Value::Seq(s) => s, other => panic!("Tr3mome2: expected Seq, got {other:?}") };
        assert_eq!(s.len(), 3, "Tr3mome2: component count");
        let _ = s;
        Tr3mome2 {
            f0: FromValue::from_value(s[0].as_ref().expect("component f0 of Tr3mome2 must be present")),
            f1: s[1].as_ref().map(FromValue::from_value),
            f2: s[2].as_ref().map(FromValue::from_value),
        }
    }
}
impl ToValue for Tr3mome2 {
    fn to_value(&self) -> Value {
        Value::Seq(vec![
            Some(self.f0.to_value()),
            self.f1.as_ref().map(|x| x.to_value()),
            self.f2.as_ref().map(|x| x.to_value()),
        ])
    }
}
impl FromValue for Tr3mome3 {
    fn from_value(v: &Value) -> Self {
        let s = match v { Value::Seq(s) => s, other => panic!("Tr3mome3: expected Seq, got {other:?}") };
        assert_eq!(s.len(), 3, "Tr3mome3: component count");
        let _ = s;
        Tr3mome3 {
            f0: FromValue::from_value(s[0].as_ref().expect("component f0 of Tr3mome3 must be present")),
            f1: s[1].as_ref().map(FromValue::from_value),
            f2: FromValue::from_value(s[2].as_ref().expect("component f2 of Tr3mome3 must be present")),
        }
    }
}
impl ToValue for Tr3mome3 {
    fn to_value(&self) -> Value {
        Value::Seq(vec![
            Some(self.f0.to_value()),
            self.f1.as_ref().map(|x| x.to_value()),
            Some(self.f2.to_value()),
        ])
    }
}
impl FromValue for Tr3oomn {
    fn from_value(v: &Value) -> Self {
        let s = match v { Value::Seq(s) => s, other => panic!("Tr3oomn: expected Seq, got {other:?}") };
        assert_eq!(s.len(), 3, "Tr3oomn: component count");
        let _ = s;
        Tr3oomn {
            f0: s[0].as_ref().map(FromValue::from_value),
            f1: s[1].as_ref().map(FromValue::from_value),
            f2: FromValue::from_value(s[2].as_ref().expect("component f2 of Tr3oomn must be present")),
        }
    }
}
impl ToValue for Tr3oomn {
    fn to_value(&self) -> Value {
        Value::Seq(vec![
            self.f0.as_ref().map(|x| x.to_value()),
            self.f1.as_ref().map(|x| x.to_value()),
            Some(self.f2.to_value()),
        ])
    }
}
impl FromValue for Tr3oome0 {
    fn from_value(v: &Value) -> Self {
        let s = match v { Value::Seq(s) => s, other => panic!("Tr3oome0: expected Seq, got {other:?}") };
        assert_eq!(s.len(), 3, "Tr3oome0: component count");
        let _ = s;
        Tr3oome0 {
            f0: s[0].as_ref().map(FromValue::from_value),
            f1: s[1].as_ref().map(FromValue::from_value),
            f2: s[2].as_ref().map(FromValue::from_value),
        }
    }
}
impl ToValue for Tr3oome0 {
    fn to_value(&self) -> Value {
        Value::Seq(vec![
            self.f0.as_ref().map(|x| x.to_value()),
            self.f1.as_ref().map(|x| x.to_value()),
            self.f2.as_ref().map(|x| x.to_value()),
        ])
    }
}
impl FromValue for Tr3oome1 {
    fn from_value(v: &Value) -> Self {
        let s = match v { Value::Seq(s) => s, other => panic!("Tr3oome1: expected Seq, got {other:?}") };
        assert_eq!(s.len(), 3, "Tr3oome1: component count");
        let _ = s;
        Tr3oome1 {
            f0: s[0].as_ref().map(FromValue::from_value),
            f1: s[1].as_ref().map(FromValue::from_value),
            f2: s[2].as_ref().map(FromValue::from_value),
        }
    }
}
impl ToValue for Tr3oome1 {
    fn to_value(&self) -> Value {
        Value::Seq(vec![
            self.f0.as_ref().map(|x| x.to_value()),
            self.f1.as_ref().map(|x| x.to_value()),
            self.f2.as_ref().map(|x| x.to_value()),
        ])
    }
}
impl FromValue for Tr3oome2 {
    fn from_value(v: &Value) -> Self {
        let s = match v { Value::Seq(s) => s, other => panic!("Tr3oome2: expected Seq, got {other:?}") };
        assert_eq!(s.len(), 3, "Tr3oome2: component count");
        let _ = s;
        Tr3oome2 {
            f0: s[0].as_ref().map(FromValue::from_value),
            f1: s[1].as_ref().map(FromValue::from_value),
            f2: s[2].as_ref().map(FromValue::from_value),
        }
    }
}
impl ToValue for Tr3oome2 {
    fn to_value(&self) -> Value {
        Value::Seq(vec![
            self.f0.as_ref().map(|x| x.to_value()),
            self.f1.as_ref().map(|x| x.to_value()),
            self.f2.as_ref().map(|x| x.to_value()),
        ])
    }
}
impl FromValue for Tr3oome3 {
    fn from_value(v: &Value) -> Self {
        let s = match v { Value::Seq(s) => s, other => panic!("Tr3oome3: expected Seq, got {other:?}") };
        assert_eq!(s.len(), 3, "Tr3oome3: component count");
        let _ = s;
        Tr3oome3 {
            f0: s[0].as_ref().map(FromValue::from_value),
            f1: s[1].as_ref().map(FromValue::from_value),
            f2: FromValue::from_value(s[2].as_ref().expect("component f2 of Tr3oome3 must be present")),
        }
    }
}
impl ToValue for Tr3oome3 {
    fn to_value(&self) -> Value {
        Value::Seq(vec![
            self.f0.as_ref().map(|x| x.to_value()),
            self.f1.as_ref().map(|x| x.to_value()),
            Some(self.f2.to_value()),
        ])
    }
}
impl FromValue for Tr3mmon {
    fn from_value(v: &Value) -> Self {
        let s = match v { Value::Seq(s) => s, other => panic!("Tr3mmon: expected Seq, got {other:?}") };
        assert_eq!(s.len(), 3, "Tr3mmon: component count");
        let _ = s;
        Tr3mmon {
            f0: FromValue::from_value(s[0].as_ref().expect("component f0 of Tr3mmon must be present")),
            f1: FromValue::from_value(s[1].as_ref().expect("component f1 of Tr3mmon must be present")),
            f2: s[2].as_ref().map(FromValue::from_value),
        }
    }
}
impl ToValue for Tr3mmon {
    fn to_value(&self) -> Value {
        Value::Seq(vec![
            Some(self.f0.to_value()),
            Some(self.f1.to_value()),
            self.f2.as_ref().map(|x| x.to_value()),
        ])
    }
}
impl FromValue for Tr3mmoe0 {
    fn from_value(v: &Value) -> Self {
        let s = match v { Value::Seq(s) => s, other => panic!("Tr3mmoe0: expected Seq, got {other:?}") };
        assert_eq!(s.len(), 3, "Tr3mmoe0: component count");
        let _ = s;
        Tr3mmoe0 {
            f0: FromValue::from_value(s[0].as_ref().expect("component f0 of Tr3mmoe0 must be present")),
            f1: s[1].as_ref().map(FromValue::from_value),
            f2: s[2].as_ref().map(FromValue::from_value),
        }
    }
}
impl ToValue for Tr3mmoe0 {
    fn to_value(&self) -> Value {
        Value::Seq(vec![
            Some(self.f0.to_value()),
            self.f1.as_ref().map(|x| x.to_value()),
            self.f2.as_ref().map(|x| x.to_value()),
        ])
    }
}
impl FromValue for Tr3mmoe1 {
    fn from_value(v: &Value) -> Self {
        let s = match v { Value::Seq(s) => s, other => panic!("Tr3mmoe1: expected Seq, got {other:?}") };
        assert_eq!(s.len(), 3, "Tr3mmoe1: component count");
        let _ = s;
        Tr3mmoe1 {
            f0: FromValue::from_value(s[0].as_ref().expect("component f0 of Tr3mmoe1 must be present")),
            f1: s[1].as_ref().map(FromValue::from_value),
            f2: s[2].as_ref().map(FromValue::from_value),
        }
    }
}
impl ToValue for Tr3mmoe1 {
    fn to_value(&self) -> Value {
        Value::Seq(vec![
            Some(self.f0.to_value()),
            self.f1.as_ref().map(|x| x.to_value()),
            self.f2.as_ref().map(|x| x.to_value()),
        ])
    }
}
impl FromValue for Tr3mmoe2 {
    fn from_value(v: &Value) -> Self {
        let s = match v { Value::Seq(s) => s, other => panic!("Tr3mmoe2: expected Seq, got {other:?}") };
        assert_eq!(s.len(), 3, "Tr3mmoe2: component count");
        let _ = s;
        Tr3mmoe2 {
            f0: FromValue::from_value(s[0].as_ref().expect("component f0 of Tr3mmoe2 must be present")),
            f1: FromValue::from_value(s[1].as_ref().expect("component f1 of Tr3mmoe2 must be present")),
            f2: s[2].as_ref().map(FromValue::from_value),
        }
    }
}
impl ToValue for Tr3mmoe2 {
    fn to_value(&self) -> Value {
        Value::Seq(vec![
            Some(self.f0.to_value()),
            Some(self.f1.to_value()),
            self.f2.as_ref().map(|x| x.to_value()),
        ])
    }
}
impl FromValue for Tr3mmoe3 {
    fn from_value(v: &Value) -> Self {
        let s = match v { Value::Seq(s) => s, other => panic!("Tr3mmoe3: expected Seq, got {other:?}") };
        assert_eq!(s.len(), 3, "Tr3mmoe3: component count");
        let _ = s;
        Tr3mmoe3 {
            f0: FromValue::from_value(s[0].as_ref().expect("component f0 of Tr3mmoe3 must be present")),
            f1: FromValue::from_value(s[1].as_ref().expect("component f1 of Tr3mmoe3 must be present")),
            f2: s[2].as_ref().map(FromValue::from_value),
        }
    }
}
impl ToValue for Tr3mmoe3 {
    fn to_value(&self) -> Value {
        Value::Seq(vec![
            Some(self.f0.to_value()),
            Some(self.f1.to_value()),
            self.f2.as_ref().map(|x| x.to_value()),
        ])
    }
}
impl FromValue for Tr3omon {
    fn from_value(v: &Value) -> Self {
        let s = match v { Value::Seq(s) => s, other => panic!("Tr3omon: expected Seq, got {other:?}") };
        assert_eq!(s.len(), 3, "Tr3omon: component count");
        let _ = s;
        Tr3omon {
            f0: s[0].as_ref().map(FromValue::from_value),
            f1: FromValue::from_value(s[1].as_ref().expect("component f1 of Tr3omon must be present")),
            f2: s[2].as_ref().map(FromValue::from_value),
        }
    }
}
impl ToValue for Tr3omon {
    fn to_value(&self) -> Value {
        Value::Seq(vec![
            self.f0.as_ref().map(|x| x.to_value()),
            Some(self.f1.to_value()),
            self.f2.as_ref().map(|x| x.to_value()),
        ])
    }
}
impl FromValue for Tr3omoe0 {
    fn from_value(v: &Value) -> Self {
        let s = match v { Value::Seq(s) => s, other => panic!("Tr3omoe0: expected Seq, got {other:?}") };
        assert_eq!(s.len(), 3, "Tr3omoe0: component count");
        let _ = s;
        Tr3omoe0 {
            f0: s[0].as_ref().map(FromValue::from_value),
            f1: s[1].as_ref().map(FromValue::from_value),
            f2: s[2].as_ref().map(FromValue::from_value),
        }
    }
}
impl ToValue for Tr3omoe0 {
    fn to_value(&self) -> Value {
        Value::Seq(vec![
            self.f0.as_ref().map(|x| x.to_value()),
            self.f1.as_ref().map(|x| x.to_value()),
            self.f2.as_ref().map(|x| x.to_value()),
        ])
    }
}
impl FromValue for Tr3omoe1 {
    fn from_value(v: &Value) -> Self {
        let s = match v { Value::Seq(s) => s, other => panic!("Tr3omoe1: expected Seq, got {other:?}") };
        assert_eq!(s.len(), 3, "Tr3omoe1: component count");
        let _ = s;
        Tr3omoe1 {
            f0: s[0].as_ref().map(FromValue::from_value),
            f1: s[1].as_ref().map(FromValue::from_value),
            f2: s[2].as_ref().map(FromValue::from_value),
        }
    }
}
impl ToValue for Tr3omoe1 {
    fn to_value(&self) -> Value {
        Value::Seq(vec![
            self.f0.as_ref().map(|x| x.to_value()),
            self.f1.as_ref().map(|x| x.to_value()),
            self.f2.as_ref().map(|x| x.to_value()),
        ])
    }
}
impl FromValue for Tr3omoe2 {
    fn from_value(v: &Value) -> Self {
        let s = match v { Value::Seq(s) => s, other => panic!("Tr3omoe2: expected Seq, got {other:?}") };
        assert_eq!(s.len(), 3, "Tr3omoe2: component count");
        let _ = s;
        Tr3omoe2 {
            f0: s[0].as_ref().map(FromValue::from_value),
            f1: FromValue::from_value(s[1].as_ref().expect("component f1 of Tr3omoe2 must be present")),
            f2: s[2].as_ref().map(FromValue::from_value),
        }
    }
}
impl ToValue for Tr3omoe2 {
    fn to_value(&self) -> Value {
        Value::Seq(vec![
            self.f0.as_ref().map(|x| x.to_value()),
            Some(self.f1.to_value()),
            self.f2.as_ref().map(|x| x.to_value()),
        ])
    }
}
impl FromValue for Tr3omoe3 {
    fn from_value(v: &Value) -> Self {
        let s = match v { Value::Seq(s) => s, other => panic!("Tr3omoe3: expected Seq, got {other:?}") };
        assert_eq!(s.len(), 3, "Tr3omoe3: component count");
        let _ = s;
        Tr3omoe3 {
            f0: s[0].as_ref().map(FromValue::from_value),
            f1: FromValue::from_value(s[1].as_ref().expect("component f1 of Tr3omoe3 must be present")),
            f2: s[2].as_ref().map(FromValue::from_value),
        }
    }
}
impl ToValue for Tr3omoe3 {
    fn to_value(&self) -> Value {
        Value::Seq(vec![
            self.f0.as_ref().map(|x| x.to_value()),
            Some(self.f1.to_value()),
            self.f2.as_ref().map(|x| x.to_value()),
        ])
    }
}
impl FromValue for Tr3moon {
    fn from_value(v: &Value) -> Self {
        let s = match v { Value::Seq(s) => s, other => panic!("Tr3moon: expected Seq, got {other:?}") };
        assert_eq!(s.len(), 3, "Tr3moon: component count");
        let _ = s;
        Tr3moon {
            f0: FromValue::from_value(s[0].as_ref().expect("component f0 of Tr3moon must be present")),
            f1: s[1].as_ref().map(FromValue::from_value),
            f2: s[2].as_ref().map(FromValue::from_value),
        }
    }
}
impl ToValue for Tr3moon {
    fn to_value(&self) -> Value {
        Value::Seq(vec![
            Some(self.f0.to_value()),
            self.f1.as_ref().map(|x| x.to_value()),
            self.f2.as_ref().map(|x| x.to_value()),
        ])
    }
}
impl FromValue for Tr3mooe0 {
    fn from_value(v: &Value) -> Self {
        let s = match v { Value::Seq(s) => s, other => panic!("Tr3mooe0: expected Seq, got {other:?}") };
        assert_eq!(s.len(), 3, "Tr3mooe0: component count");
        let _ = s;
        Tr3mooe0 {
            f0: FromValue::from_value(s[0].as_ref().expect("component f0 of Tr3mooe0 must be present")),
            f1: s[1].as_ref().map(FromValue::from_value),
            f2: s[2].as_ref().map(FromValue::from_value),
        }
    }
}
impl ToValue for Tr3mooe0 {
    fn to_value(&self) -> Value {
        Value::Seq(vec![
            Some(self.f0.to_value()),
            self.f1.as_ref().map(|x| x.to_value()),
            self.f2.as_ref().map(|x| x.to_value()),
        ])
    }
}
impl FromValue for Tr3mooe1 {
    fn from_value(v: &Value) -> Self {
        let s = match v { Value::Seq(s) => s, other => panic!("Tr3mooe1: expected Seq, got {other:?}") };
        assert_eq!(s.len(), 3, "Tr3mooe1: component count");
        let _ = s;
        Tr3mooe1 {
            f0: FromValue::from_value(s[0].as_ref().expect("component f0 of Tr3mooe1 must be present")),
            f1: s[1].as_ref().map(FromValue::from_value),
            f2: s[2].as_ref().map(FromValue::from_value),
        }
    }
}
impl ToValue for Tr3mooe1 {
    fn to_value(&self) -> Value {
        Value::Seq(vec![
            Some(self.f0.to_value()),
            self.f1.as_ref().map(|x| x.to_value()),
            self.f2.as_ref().map(|x| x.to_value()),
        ])
    }
}
impl FromValue for Tr3mooe2 {
    fn from_value(v: &Value) -> Self {
        let s = match v { Value::Seq(s) => s, other => panic!("Tr3mooe2: expected Seq, got {other:?}") };
        assert_eq!(s.len(), 3, "Tr3mooe2: component count");
        let _ = s;
        Tr3mooe2 {
            f0: FromValue::from_value(s[0].as_ref().expect("component f0 of Tr3mooe2 must be present")),
            f1: s[1].as_ref().map(FromValue::from_value),
            f2: s[2].as_ref().map(FromValue::from_value),
        }
    }
}
impl ToValue for Tr3mooe2 {
    fn to_value(&self) -> Value {
        Value::Seq(vec![
            Some(self.f0.to_value()),
            self.f1.as_ref().map(|x| x.to_value()),
            self.f2.as_ref().map(|x| x.to_value()),
        ])
    }
}
impl FromValue for Tr3mooe3 {
    fn from_value(v: &Value) -> Self {
        let s = match v { Value::Seq(s) => s, other => panic!("Tr3mooe3: expected Seq, got {other:?}") };
        assert_eq!(s.len(), 3, "Tr3mooe3: component count");
        let _ = s;
        Tr3mooe3 {
            f0: FromValue::from_value(s[0].as_ref().expect("component f0 of Tr3mooe3 must be present")),
            f1: s[1].as_ref().map(FromValue::from_value),
            f2: s[2].as_ref().map(FromValue::from_value),
        }
    }
}
impl ToValue for Tr3mooe3 {
    fn to_value(&self) -> Value {
        Value::Seq(vec![
            Some(self.f0.to_value()),
            self.f1.as_ref().map(|x| x.to_value()),
            self.f2.as_ref().map(|x| x.to_value()),
        ])
    }
}
impl FromValue for Tr3ooon {
    fn from_value(v: &Value) -> Self {
        let s = match v { Value::Seq(s) => s, other => panic!("Tr3ooon: expected Seq, got {other:?}") };
        assert_eq!(s.len(), 3, "Tr3ooon: component count");
        let _ = s;
        Tr3ooon {
            f0: s[0].as_ref().map(FromValue::from_value),
            f1: s[1].as_ref().map(FromValue::from_value),
            f2: s[2].as_ref().map(FromValue::from_value),
        }
    }
}
impl ToValue for Tr3ooon {
    fn to_value(&self) -> Value {
        Value::Seq(vec![
            self.f0.as_ref().map(|x| x.to_value()),
            self.f1.as_ref().map(|x| x.to_value()),
            self.f2.as_ref().map(|x| x.to_value()),
        ])
    }
}
impl FromValue for Tr3oooe0 {
    fn from_value(v: &Value) -> Self {
        let s = match v { Value::Seq(s) => s, other => panic!("Tr3oooe0: expected Seq, got {other:?}") };
        assert_eq!(s.len(), 3, "Tr3oooe0: component count");
        let _ = s;
        Tr3oooe0 {
            f0: s[0].as_ref().map(FromValue::from_value),
            f1: s[1].as_ref().map(FromValue::from_value),
            f2: s[2].as_ref().map(FromValue::from_value),
        }
    }
}
impl ToValue for Tr3oooe0 {
    fn to_value(&self) -> Value {
        Value::Seq(vec![
            self.f0.as_ref().map(|x| x.to_value()),
            self.f1.as_ref().map(|x| x.to_value()),
            self.f2.as_ref().map(|x| x.to_value()),
        ])
    }
}
impl FromValue for Tr3oooe1 {
    fn from_value(v: &Value) -> Self {
        let s = match v { Value::Seq(s) => s, other => panic!("Tr3oooe1: expected Seq, got {other:?}") };
        assert_eq!(s.len(), 3, "Tr3oooe1: component count");
        let _ = s;
        Tr3oooe1 {
            f0: s[0].as_ref().map(FromValue::from_value),
            f1: s[1].as_ref().map(FromValue::from_value),
            f2: s[2].as_ref().map(FromValue::from_value),
        }
    }
}
impl ToValue for Tr3oooe1 {
    fn to_value(&self) -> Value {
        Value::Seq(vec![
            self.f0.as_ref().map(|x| x.to_value()),
            self.f1.as_ref().map(|x| x.to_value()),
            self.f2.as_ref().map(|x| x.to_value()),
        ])
    }
}
impl FromValue for Tr3oooe2 {
    fn from_value(v: &Value) -> Self {
        let s = match v { Value::Seq(s) => s, other => panic!("Tr3oooe2: expected Seq, got {other:?}") };
        assert_eq!(s.len(), 3, "Tr3oooe2: component count");
        let _ = s;
        Tr3oooe2 {
            f0: s[0].as_ref().map(FromValue::from_value),
            f1: s[1].as_ref().map(FromValue::from_value),
            f2: s[2].as_ref().map(FromValue::from_value),
        }
    }
}
impl ToValue for Tr3oooe2 {
    fn to_value(&self) -> Value {
        Value::Seq(vec![
            self.f0.as_ref().map(|x| x.to_value()),
            self.f1.as_ref().map(|x| x.to_value()),
            self.f2.as_ref().map(|x| x.to_value()),
        ])
    }
}
impl FromValue for Tr3oooe3 {
    fn from_value(v: &Value) -> Self {
        let s = match v { Value::Seq(s) => s, other => panic!("Tr3oooe3: expected Seq, got {other:?}") };
        assert_eq!(s.len(), 3, "Tr3oooe3: component count");
        let _ = s;
        Tr3oooe3 {
            f0: s[0].as_ref().map(FromValue::from_value),
            f1: s[1].as_ref().map(FromValue::from_value),
            f2: s[2].as_ref().map(FromValue::from_value),
        }
    }
}
impl ToValue for Tr3oooe3 {
    fn to_value(&self) -> Value {
        Value::Seq(vec![
            self.f0.as_ref().map(|x| x.to_value()),
            self.f1.as_ref().map(|x| x.to_value()),
            self.f2.as_ref().map(|x| x.to_value()),
        ])
    }
}

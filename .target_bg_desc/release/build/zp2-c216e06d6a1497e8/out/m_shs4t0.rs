use asn1rs::prelude::*;

#[asn(sequence)]

#[derive(Default, Debug, Clone, PartialEq, Hash)]
pub struct Ts4mmmmn {
    #[asn(integer(0..7))] pub f0: u8,
    #[asn(integer(0..7))] pub f1: u8,
    #[asn(integer(0..7))] pub f2: u8,
    #[asn(integer(0..7))] pub f3: u8,
}

impl Ts4mmmmn {
    pub const fn f0_min() -> u8 {
        0
    }

    pub const fn f0_max() -> u8 {
        7
    }

    pub const fn f1_min() -> u8 {
        0
    }

    pub const fn f1_max() -> u8 {
        7
    }

    pub const fn f2_min() -> u8 {
        0
    }

    pub const fn f2_max() -> u8 {
        7
    }

    pub const fn f3_min() -> u8 {
        0
    }

    pub const fn f3_max() -> u8 {
        7
    }
}

#[asn(sequence, extensible_after(f0))]

#[derive(Default, Debug, Clone, PartialEq, Hash)]
pub struct Ts4mmmme0 {
    #[asn(integer(0..7))] pub f0: u8,
    #[asn(optional(integer(0..7)))] pub f1: Option<u8>,
    #[asn(optional(integer(0..7)))] pub f2: Option<u8>,
    #[asn(optional(integer(0..7)))] pub f3: Option<u8>,
}

impl Ts4mmmme0 {
    pub const fn f0_min() -> u8 {
        0
    }

    pub const fn f0_max() -> u8 {
        7
    }

    pub const fn f1_min() -> u8 {
        0
    }

    pub const fn f1_max() -> u8 {
        7
    }

    pub const fn f2_min() -> u8 {
        0
    }

    pub const fn f2_max() -> u8 {
        7
    }

    pub const fn f3_min() -> u8 {
        0
    }

    pub const fn f3_max() -> u8 {
        7
    }
}

#[asn(sequence, extensible_after(f0))]

#[derive(Default, Debug, Clone, PartialEq, Hash)]
pub struct Ts4mmmme1 {
    #[asn(integer(0..7))] pub f0: u8,
    #[asn(optional(integer(0..7)))] pub f1: Option<u8>,
    #[asn(optional(integer(0..7)))] pub f2: Option<u8>,
    #[asn(optional(integer(0..7)))] pub f3: Option<u8>,
}

impl Ts4mmmme1 {
    pub const fn f0_min() -> u8 {
        0
    }

    pub const fn f0_max() -> u8 {
        7
    }

    pub const fn f1_min() -> u8 {
        0
    }

    pub const fn f1_max() -> u8 {
        7
    }

    pub const fn f2_min() -> u8 {
        0
    }

    pub const fn f2_max() -> u8 {
        7
    }

    pub const fn f3_min() -> u8 {
        0
    }

    pub const fn f3_max() -> u8 {
        7
    }
}

#[asn(sequence, extensible_after(f1))]

#[derive(Default, Debug, Clone, PartialEq, Hash)]
pub struct Ts4mmmme2 {
    #[asn(integer(0..7))] pub f0: u8,
    #[asn(integer(0..7))] pub f1: u8,
    #[asn(optional(integer(0..7)))] pub f2: Option<u8>,
    #[asn(optional(integer(0..7)))] pub f3: Option<u8>,
}

impl Ts4mmmme2 {
    pub const fn f0_min() -> u8 {
        0
    }

    pub const fn f0_max() -> u8 {
        7
    }

    pub const fn f1_min() -> u8 {
        0
    }

    pub const fn f1_max() -> u8 {
        7
    }

    pub const fn f2_min() -> u8 {
        0
    }

    pub const fn f2_max() -> u8 {
        7
    }

    pub const fn f3_min() -> u8 {
        0
    }

    pub const fn f3_max() -> u8 {
        7
    }
}

#[asn(sequence, extensible_after(f2))]

#[derive(Default, Debug, Clone, PartialEq, Hash)]
pub struct Ts4mmmme3 {
    #[asn(integer(0..7))] pub f0: u8,
    #[asn(integer(0..7))] pub f1: u8,
    #[asn(integer(0..7))] pub f2: u8,
    #[asn(optional(integer(0..7)))] pub f3: Option<u8>,
}

impl Ts4mmmme3 {
    pub const fn f0_min() -> u8 {
        0
    }

    pub const fn f0_max() -> u8 {
        7
    }

    pub const fn f1_min() -> u8 {
        0
    }

    pub const fn f1_max() -> u8 {
        7
    }

    pub const fn f2_min() -> u8 {
        0
    }

    pub const fn f2_max() -> u8 {
        7
    }

    pub const fn f3_min() -> u8 {
        0
    }

    pub const fn f3_max() -> u8 {
        7
    }
}

#[asn(sequence, extensible_after(f3))]

#[derive(Default, Debug, Clone, PartialEq, Hash)]
pub struct Ts4mmmme4 {
    #[asn(integer(0..7))] pub f0: u8,
    #[asn(integer(0..7))] pub f1: u8,
    #[asn(integer(0..7))] pub f2: u8,
    #[asn(integer(0..7))] pub f3: u8,
}

impl Ts4mmmme4 {
    pub const fn f0_min() -> u8 {
        0
    }

    pub const fn f0_max() -> u8 {
        7
    }

    pub const fn f1_min() -> u8 {
        0
    }

    pub const fn f1_max() -> u8 {
        7
    }

    pub const fn f2_min() -> u8 {
        0
    }

    pub const fn f2_max() -> u8 {
        7
    }

    pub const fn f3_min() -> u8 {
        0
    }

    pub const fn f3_max() -> u8 {
        7
    }
}

#[asn(sequence)]

#[derive(Default, Debug, Clone, PartialEq, Hash)]
pub struct Ts4ommmn {
    #[asn(optional(integer(0..7)))] pub f0: Option<u8>,
    #[asn(integer(0..7))] pub f1: u8,
    #[asn(integer(0..7))] pub f2: u8,
    #[asn(integer(0..7))] pub f3: u8,
}

impl Ts4ommmn {
    pub const fn f0_min() -> u8 {
        0
    }

    pub const fn f0_max() -> u8 {
        7
    }

    pub const fn f1_min() -> u8 {
        0
    }

    pub const fn f1_max() -> u8 {
        7
    }

    pub const fn f2_min() -> u8 {
        0
    }

    pub const fn f2_max() -> u8 {
        7
    }

    pub const fn f3_min() -> u8 {
        0
    }

    pub const fn f3_max() -> u8 {
        7
    }
}

#[asn(sequence, extensible_after(f0))]

#[derive(Default, Debug, Clone, PartialEq, Hash)]
pub struct Ts4ommme0 {
    #[asn(optional(integer(0..7)))] pub f0: Option<u8>,
    #[asn(optional(integer(0..7)))] pub f1: Option<u8>,
    #[asn(optional(integer(0..7)))] pub f2: Option<u8>,
    #[asn(optional(integer(0..7)))] pub f3: Option<u8>,
}

impl Ts4ommme0 {
    pub const fn f0_min() -> u8 {
        0
    }

    pub const fn f0_max() -> u8 {
        7
    }

    pub const fn f1_min() -> u8 {
        0
    }

    pub const fn f1_max() -> u8 {
        7
    }

    pub const fn f2_min() -> u8 {
        0
    }

    pub const fn f2_max() -> u8 {
        7
    }

    pub const fn f3_min() -> u8 {
        0
    }

    pub const fn f3_max() -> u8 {
        7
    }
}

#[asn(sequence, extensible_after(f0))]

#[derive(Default, Debug, Clone, PartialEq, Hash)]
pub struct Ts4ommme1 {
    #[asn(optional(integer(0..7)))] pub f0: Option<u8>,
    #[asn(optional(integer(0..7)))] pub f1: Option<u8>,
    #[asn(optional(integer(0..7)))] pub f2: Option<u8>,
    #[asn(optional(integer(0..7)))] pub f3: Option<u8>,
}

impl Ts4ommme1 {
    pub const fn f0_min() -> u8 {
        0
    }

    pub const fn f0_max() -> u8 {
        7
    }

    pub const fn f1_min() -> u8 {
        0
    }

    pub const fn f1_max() -> u8 {
        7
    }

    pub const fn f2_min() -> u8 {
        0
    }

    pub const fn f2_max() -> u8 {
        7
    }

    pub const fn f3_min() -> u8 {
        0
    }

    pub const fn f3_max() -> u8 {
        7
    }
}

#[asn(sequence, extensible_after(f1))]

#[derive(Default, Debug, Clone, PartialEq, Hash)]
pub struct Ts4ommme2 {
    #[asn(optional(integer(0..7)))] pub f0: Option<u8>,
    #[asn(integer(0..7))] pub f1: u8,
    #[asn(optional(integer(0..7)))] pub f2: Option<u8>,
    #[asn(optional(integer(0..7)))] pub f3: Option<u8>,
}

impl Ts4ommme2 {
    pub const fn f0_min() -> u8 {
        0
    }

    pub const fn f0_max() -> u8 {
        7
    }

    pub const fn f1_min() -> u8 {
        0
    }

    pub const fn f1_max() -> u8 {
        7
    }

    pub const fn f2_min() -> u8 {
        0
    }

    pub const fn f2_max() -> u8 {
        7
    }

    pub const fn f3_min() -> u8 {
        0
    }

    pub const fn f3_max() -> u8 {
        7
    }
}

#[asn(sequence, extensible_after(f2))]

#[derive(Default, Debug, Clone, PartialEq, Hash)]
pub struct Ts4ommme3 {
    #[asn(optional(integer(0..7)))] pub f0: Option<u8>,
    #[asn(integer(0..7))] pub f1: u8,
    #[asn(integer(0..7))] pub f2: u8,
    #[asn(optional(integer(0..7)))] pub f3: Option<u8>,
}

impl Ts4ommme3 {
    pub const fn f0_min() -> u8 {
        0
    }

    pub const fn f0_max() -> u8 {
        7
    }

    pub const fn f1_min() -> u8 {
        0
    }

    pub const fn f1_max() -> u8 {
        7
    }

    pub const fn f2_min() -> u8 {
        0
    }

    pub const fn f2_max() -> u8 {
        7
    }

    pub const fn f3_min() -> u8 {
        0
    }

    pub const fn f3_max() -> u8 {
        7
    }
}

#[asn(sequence, extensible_after(f3))]

#[derive(Default, Debug, Clone, PartialEq, Hash)]
pub struct Ts4ommme4 {
    #[asn(optional(integer(0..7)))] pub f0: Option<u8>,
    #[asn(integer(0..7))] pub f1: u8,
    #[asn(integer(0..7))] pub f2: u8,
    #[asn(integer(0..7))] pub f3: u8,
}

impl Ts4ommme4 {
    pub const fn f0_min() -> u8 {
        0
    }

    pub const fn f0_max() -> u8 {
        7
    }

    pub const fn f1_min() -> u8 {
        0
    }

    pub const fn f1_max() -> u8 {
        7
    }

    pub const fn f2_min() -> u8 {
        0
    }

    pub const fn f2_max() -> u8 {
        7
    }

    pub const fn f3_min() -> u8 {
        0
    }

    pub const fn f3_max() -> u8 {
        7
    }
}

#[asn(sequence)]

#[derive(Default, Debug, Clone, PartialEq, Hash)]
pub struct Ts4dmmmn {
    #[asn(default(integer(0..7), 5))] pub f0: u8,
    #[asn(integer(0..7))] pub f1: u8,
    #[asn(integer(0..7))] pub f2: u8,
    #[asn(integer(0..7))] pub f3: u8,
}

impl Ts4dmmmn {
    pub const fn f0_min() -> u8 {
        0
    }

    pub const fn f0_max() -> u8 {
        7
    }

    pub const fn f1_min() -> u8 {
        0
    }

    pub const fn f1_max() -> u8 {
        7
    }

    pub const fn f2_min() -> u8 {
        0
    }

    pub const fn f2_max() -> u8 {
        7
    }

    pub const fn f3_min() -> u8 {
        0
    }

    pub const fn f3_max() -> u8 {
        7
    }
}

#[asn(sequence, extensible_after(f0))]

#[derive(Default, Debug, Clone, PartialEq, Hash)]
pub struct Ts4dmmme0 {
    #[asn(default(integer(0..7), 5))] pub f0: u8,
    #[asn(optional(integer(0..7)))] pub f1: Option<u8>,
    #[asn(optional(integer(0..7)))] pub f2: Option<u8>,
    #[asn(optional(integer(0..7)))] pub f3: Option<u8>,
}

impl Ts4dmmme0 {
    pub const fn f0_min() -> u8 {
        0
    }

    pub const fn f0_max() -> u8 {
        7
    }

    pub const fn f1_min() -> u8 {
        0
    }

    pub const fn f1_max() -> u8 {
        7
    }

    pub const fn f2_min() -> u8 {
        0
    }

    pub const fn f2_max() -> u8 {
        7
    }

    pub const fn f3_min() -> u8 {
        0
    }

    pub const fn f3_max() -> u8 {
        7
    }
}

#[asn(sequence, extensible_after(f0))]

#[derive(Default, Debug, Clone, PartialEq, Hash)]
pub struct Ts4dmmme1 {
    #[asn(default(integer(0..7), 5))] pub f0: u8,
    #[asn(optional(integer(0..7)))] pub f1: Option<u8>,
    #[asn(optional(integer(0..7)))] pub f2: Option<u8>,
    #[asn(optional(integer(0..7)))] pub f3: Option<u8>,
}

impl Ts4dmmme1 {
    pub const fn f0_min() -> u8 {
        0
    }

    pub const fn f0_max() -> u8 {
        7
    }

    pub const fn f1_min() -> u8 {
        0
    }

    pub const fn f1_max() -> u8 {
        7
    }

    pub const fn f2_min() -> u8 {
        0
    }

    pub const fn f2_max() -> u8 {
        7
    }

    pub const fn f3_min() -> u8 {
        0
    }

    pub const fn f3_max() -> u8 {
        7
    }
}

#[asn(sequence, extensible_after(f1))]

#[derive(Default, Debug, Clone, PartialEq, Hash)]
pub struct Ts4dmmme2 {
    #[asn(default(integer(0..7), 5))] pub f0: u8,
    #[asn(integer(0..7))] pub f1: u8,
    #[asn(optional(integer(0..7)))] pub f2: Option<u8>,
    #[asn(optional(integer(0..7)))] pub f3: Option<u8>,
}

impl Ts4dmmme2 {
    pub const fn f0_min() -> u8 {
        0
    }

    pub const fn f0_max() -> u8 {
        7
    }

    pub const fn f1_min() -> u8 {
        0
    }

    pub const fn f1_max() -> u8 {
        7
    }

    pub const fn f2_min() -> u8 {
        0
    }

    pub const fn f2_max() -> u8 {
        7
    }

    pub const fn f3_min() -> u8 {
        0
    }

    pub const fn f3_max() -> u8 {
        7
    }
}

#[asn(sequence, extensible_after(f2))]

#[derive(Default, Debug, Clone, PartialEq, Hash)]
pub struct Ts4dmmme3 {
    #[asn(default(integer(0..7), 5))] pub f0: u8,
    #[asn(integer(0..7))] pub f1: u8,
    #[asn(integer(0..7))] pub f2: u8,
    #[asn(optional(integer(0..7)))] pub f3: Option<u8>,
}

impl Ts4dmmme3 {
    pub const fn f0_min() -> u8 {
        0
    }

    pub const fn f0_max() -> u8 {
        7
    }

    pub const fn f1_min() -> u8 {
        0
    }

    pub const fn f1_max() -> u8 {
        7
    }

    pub const fn f2_min() -> u8 {
        0
    }

    pub const fn f2_max() -> u8 {
        7
    }

    pub const fn f3_min() -> u8 {
        0
    }

    pub const fn f3_max() -> u8 {
        7
    }
}

#[asn(sequence, extensible_after(f3))]

#[derive(Default, Debug, Clone, PartialEq, Hash)]
pub struct Ts4dmmme4 {
    #[asn(default(integer(0..7), 5))] pub f0: u8,
    #[asn(integer(0..7))] pub f1: u8,
    #[asn(integer(0..7))] pub f2: u8,
    #[asn(integer(0..7))] pub f3: u8,
}

impl Ts4dmmme4 {
    pub const fn f0_min() -> u8 {
        0
    }

    pub const fn f0_max() -> u8 {
        7
    }

    pub const fn f1_min() -> u8 {
        0
    }

    pub const fn f1_max() -> u8 {
        7
    }

    pub const fn f2_min() -> u8 {
        0
    }

    pub const fn f2_max() -> u8 {
        7
    }

    pub const fn f3_min() -> u8 {
        0
    }

    pub const fn f3_max() -> u8 {
        7
    }
}

#[asn(sequence)]

#[derive(Default, Debug, Clone, PartialEq, Hash)]
pub struct Ts4mommn {
    #[asn(integer(0..7))] pub f0: u8,
    #[asn(optional(integer(0..7)))] pub f1: Option<u8>,
    #[asn(integer(0..7))] pub f2: u8,
    #[asn(integer(0..7))] pub f3: u8,
}

impl Ts4mommn {
    pub const fn f0_min() -> u8 {
        0
    }

    pub const fn f0_max() -> u8 {
        7
    }

    pub const fn f1_min() -> u8 {
        0
    }

    pub const fn f1_max() -> u8 {
        7
    }

    pub const fn f2_min() -> u8 {
        0
    }

    pub const fn f2_max() -> u8 {
        7
    }

    pub const fn f3_min() -> u8 {
        0
    }

    pub const fn f3_max() -> u8 {
        7
    }
}

#[asn(sequence, extensible_after(f0))]

#[derive(Default, Debug, Clone, PartialEq, Hash)]
pub struct Ts4momme0 {
    #[asn(integer(0..7))] pub f0: u8,
    #[asn(optional(integer(0..7)))] pub f1: Option<u8>,
    #[asn(optional(integer(0..7)))] pub f2: Option<u8>,
    #[asn(optional(integer(0..7)))] pub f3: Option<u8>,
}

impl Ts4momme0 {
    pub const fn f0_min() -> u8 {
        0
    }

    pub const fn f0_max() -> u8 {
        7
    }

    pub const fn f1_min() -> u8 {
        0
    }

    pub const fn f1_max() -> u8 {
        7
    }

    pub const fn f2_min() -> u8 {
        0
    }

    pub const fn f2_max() -> u8 {
        7
    }

    pub const fn f3_min() -> u8 {
        0
    }

    pub const fn f3_max() -> u8 {
        7
    }
}

#[asn(sequence, extensible_after(f0))]

#[derive(Default, Debug, Clone, PartialEq, Hash)]
pub struct Ts4momme1 {
    #[asn(integer(0..7))] pub f0: u8,
    #[asn(optional(integer(0..7)))] pub f1: Option<u8>,
    #[asn(optional(integer(0..7)))] pub f2: Option<u8>,
    #[asn(optional(integer(0..7)))] pub f3: Option<u8>,
}

impl Ts4momme1 {
    pub const fn f0_min() -> u8 {
        0
    }

    pub const fn f0_max() -> u8 {
        7
    }

    pub const fn f1_min() -> u8 {
        0
    }

    pub const fn f1_max() -> u8 {
        7
    }

    pub const fn f2_min() -> u8 {
        0
    }

    pub const fn f2_max() -> u8 {
        7
    }

    pub const fn f3_min() -> u8 {
        0
    }

    pub const fn f3_max() -> u8 {
        7
    }
}

#[asn(sequence, extensible_after(f1))]

#[derive(Default, Debug, Clone, PartialEq, Hash)]
pub struct Ts4momme2 {
    #[asn(integer(0..7))] pub f0: u8,
    #[asn(optional(integer(0..7)))] pub f1: Option<u8>,
    #[asn(optional(integer(0..7)))] pub f2: Option<u8>,
    #[asn(optional(integer(0..7)))] pub f3: Option<u8>,
}

impl Ts4momme2 {
    pub const fn f0_min() -> u8 {
        0
    }

    pub const fn f0_max() -> u8 {
        7
    }

    pub const fn f1_min() -> u8 {
        0
    }

    pub const fn f1_max() -> u8 {
        7
    }

    pub const fn f2_min() -> u8 {
        0
    }

    pub const fn f2_max() -> u8 {
        7
    }

    pub const fn f3_min() -> u8 {
        0
    }

    pub const fn f3_max() -> u8 {
        7
    }
}

#[asn(sequence, extensible_after(f2))]

#[derive(Default, Debug, Clone, PartialEq, Hash)]
pub struct Ts4momme3 {
    #[asn(integer(0..7))] pub f0: u8,
    #[asn(optional(integer(0..7)))] pub f1: Option<u8>,
    #[asn(integer(0..7))] pub f2: u8,
    #[asn(optional(integer(0..7)))] pub f3: Option<u8>,
}

impl Ts4momme3 {
    pub const fn f0_min() -> u8 {
        0
    }

    pub const fn f0_max() -> u8 {
        7
    }

    pub const fn f1_min() -> u8 {
        0
    }

    pub const fn f1_max() -> u8 {
        7
    }

    pub const fn f2_min() -> u8 {
        0
    }

    pub const fn f2_max() -> u8 {
        7
    }

    pub const fn f3_min() -> u8 {
        0
    }

    pub const fn f3_max() -> u8 {
        7
    }
}

#[asn(sequence, extensible_after(f3))]

#[derive(Default, Debug, Clone, PartialEq, Hash)]
pub struct Ts4momme4 {
    #[asn(integer(0..7))] pub f0: u8,
    #[asn(optional(integer(0..7)))] pub f1: Option<u8>,
    #[asn(integer(0..7))] pub f2: u8,
    #[asn(integer(0..7))] pub f3: u8,
}

impl Ts4momme4 {
    pub const fn f0_min() -> u8 {
        0
    }

    pub const fn f0_max() -> u8 {
        7
    }

    pub const fn f1_min() -> u8 {
        0
    }

    pub const fn f1_max() -> u8 {
        7
    }

    pub const fn f2_min() -> u8 {
        0
    }

    pub const fn f2_max() -> u8 {
        7
    }

    pub const fn f3_min() -> u8 {
        0
    }

    pub const fn f3_max() -> u8 {
        7
    }
}

#[asn(sequence)]

#[derive(Default, Debug, Clone, PartialEq, Hash)]
pub struct Ts4oommn {
    #[asn(optional(integer(0..7)))] pub f0: Option<u8>,
    #[asn(optional(integer(0..7)))] pub f1: Option<u8>,
    #[asn(integer(0..7))] pub f2: u8,
    #[asn(integer(0..7))] pub f3: u8,
}

impl Ts4oommn {
    pub const fn f0_min() -> u8 {
        0
    }

    pub const fn f0_max() -> u8 {
        7
    }

    pub const fn f1_min() -> u8 {
        0
    }

    pub const fn f1_max() -> u8 {
        7
    }

    pub const fn f2_min() -> u8 {
        0
    }

    pub const fn f2_max() -> u8 {
        7
    }

    pub const fn f3_min() -> u8 {
        0
    }

    pub const fn f3_max() -> u8 {
        7
    }
}

#[asn(sequence, extensible_after(f0))]

#[derive(Default, Debug, Clone, PartialEq, Hash)]
pub struct Ts4oomme0 {
    #[asn(optional(integer(0..7)))] pub f0: Option<u8>,
    #[asn(optional(integer(0..7)))] pub f1: Option<u8>,
    #[asn(optional(integer(0..7)))] pub f2: Option<u8>,
    #[asn(optional(integer(0..7)))] pub f3: Option<u8>,
}

impl Ts4oomme0 {
    pub const fn f0_min() -> u8 {
        0
    }

    pub const fn f0_max() -> u8 {
        7
    }

    pub const fn f1_min() -> u8 {
        0
    }

    pub const fn f1_max() -> u8 {
        7
    }

    pub const fn f2_min() -> u8 {
        0
    }

    pub const fn f2_max() -> u8 {
        7
    }

    pub const fn f3_min() -> u8 {
        0
    }

    pub const fn f3_max() -> u8 {
        7
    }
}

#[asn(sequence, extensible_after(f0))]

#[derive(Default, Debug, Clone, PartialEq, Hash)]
pub struct Ts4oomme1 {
    #[asn(optional(integer(0..7)))] pub f0: Option<u8>,
    #[asn(optional(integer(0..7)))] pub f1: Option<u8>,
    #[asn(optional(integer(0..7)))] pub f2: Option<u8>,
    #[asn(optional(integer(0..7)))] pub f3: Option<u8>,
}

impl Ts4oomme1 {
    pub const fn f0_min() -> u8 {
        0
    }

    pub const fn f0_max() -> u8 {
        7
    }

    pub const fn f1_min() -> u8 {
        0
    }

    pub const fn f1_max() -> u8 {
        7
    }

    pub const fn f2_min() -> u8 {
        0
    }

    pub const fn f2_max() -> u8 {
        7
    }

    pub const fn f3_min() -> u8 {
        0
    }

    pub const fn f3_max() -> u8 {
        7
    }
}

#[asn(sequence, extensible_after(f1))]

#[derive(Default, Debug, Clone, PartialEq, Hash)]
pub struct Ts4oomme2 {
    #[asn(optional(integer(0..7)))] pub f0: Option<u8>,
    #[asn(optional(integer(0..7)))] pub f1: Option<u8>,
    #[asn(optional(integer(0..7)))] pub f2: Option<u8>,
    #[asn(optional(integer(0..7)))] pub f3: Option<u8>,
}

impl Ts4oomme2 {
    pub const fn f0_min() -> u8 {
        0
    }

    pub const fn f0_max() -> u8 {
        7
    }

    pub const fn f1_min() -> u8 {
        0
    }

    pub const fn f1_max() -> u8 {
        7
    }

    pub const fn f2_min() -> u8 {
        0
    }

    pub const fn f2_max() -> u8 {
        7
    }

    pub const fn f3_min() -> u8 {
        0
    }

    pub const fn f3_max() -> u8 {
        7
    }
}

#[asn(sequence, extensible_after(f2))]

#[derive(Default, Debug, Clone, PartialEq, Hash)]
pub struct Ts4oomme3 {
    #[asn(optional(integer(0..7)))] pub f0: Option<u8>,
    #[asn(optional(integer(0..7)))] pub f1: Option<u8>,
    #[asn(integer(0..7))] pub f2: u8,
    #[asn(optional(integer(0..7)))] pub f3: Option<u8>,
}

impl Ts4oomme3 {
    pub const fn f0_min() -> u8 {
        0
    }

    pub const fn f0_max() -> u8 {
        7
    }

    pub const fn f1_min() -> u8 {
        0
    }

    pub const fn f1_max() -> u8 {
        7
    }

    pub const fn f2_min() -> u8 {
        0
    }

    pub const fn f2_max() -> u8 {
        7
    }

    pub const fn f3_min() -> u8 {
        0
    }

    pub const fn f3_max() -> u8 {
        7
    }
}

#[asn(sequence, extensible_after(f3))]

#[derive(Default, Debug, Clone, PartialEq, Hash)]
pub struct Ts4oomme4 {
    #[asn(optional(integer(0..7)))] pub f0: Option<u8>,
    #[asn(optional(integer(0..7)))] pub f1: Option<u8>,
    #[asn(integer(0..7))] pub f2: u8,
    #[asn(integer(0..7))] pub f3: u8,
}

impl Ts4oomme4 {
    pub const fn f0_min() -> u8 {
        0
    }

    pub const fn f0_max() -> u8 {
        7
    }

    pub const fn f1_min() -> u8 {
        0
    }

    pub const fn f1_max() -> u8 {
        7
    }

    pub const fn f2_min() -> u8 {
        0
    }

    pub const fn f2_max() -> u8 {
        7
    }

    pub const fn f3_min() -> u8 {
        0
    }

    pub const fn f3_max() -> u8 {
        7
    }
}

#[asn(sequence)]

#[derive(Default, Debug, Clone, PartialEq, Hash)]
pub struct Ts4dommn {
    #[asn(default(integer(0..7), 5))] pub f0: u8,
    #[asn(optional(integer(0..7)))] pub f1: Option<u8>,
    #[asn(integer(0..7))] pub f2: u8,
    #[asn(integer(0..7))] pub f3: u8,
}

impl Ts4dommn {
    pub const fn f0_min() -> u8 {
        0
    }

    pub const fn f0_max() -> u8 {
        7
    }

    pub const fn f1_min() -> u8 {
        0
    }

    pub const fn f1_max() -> u8 {
        7
    }

    pub const fn f2_min() -> u8 {
        0
    }

    pub const fn f2_max() -> u8 {
        7
    }

    pub const fn f3_min() -> u8 {
        0
    }

    pub const fn f3_max() -> u8 {
        7
    }
}

#[asn(sequence, extensible_after(f0))]

#[derive(Default, Debug, Clone, PartialEq, Hash)]
pub struct Ts4domme0 {
    #[asn(default(integer(0..7), 5))] pub f0: u8,
    #[asn(optional(integer(0..7)))] pub f1: Option<u8>,
    #[asn(optional(integer(0..7)))] pub f2: Option<u8>,
    #[asn(optional(integer(0..7)))] pub f3: Option<u8>,
}

impl Ts4domme0 {
    pub const fn f0_min() -> u8 {
        0
    }

    pub const fn f0_max() -> u8 {
        7
    }

    pub const fn f1_min() -> u8 {
        0
    }

    pub const fn f1_max() -> u8 {
        7
    }

    pub const fn f2_min() -> u8 {
        0
    }

    pub const fn f2_max() -> u8 {
        7
    }

    pub const fn f3_min() -> u8 {
        0
    }

    pub const fn f3_max() -> u8 {
        7
    }
}

#[asn(sequence, extensible_after(f0))]

#[derive(Default, Debug, Clone, PartialEq, Hash)]
pub struct Ts4domme1 {
    #[asn(default(integer(0..7), 5))] pub f0: u8,
    #[asn(optional(integer(0..7)))] pub f1: Option<u8>,
    #[asn(optional(integer(0..7)))] pub f2: Option<u8>,
    #[asn(optional(integer(0..7)))] pub f3: Option<u8>,
}

impl Ts4domme1 {
    pub const fn f0_min() -> u8 {
        0
    }

    pub const fn f0_max() -> u8 {
        7
    }

    pub const fn f1_min() -> u8 {
        0
    }

    pub const fn f1_max() -> u8 {
        7
    }

    pub const fn f2_min() -> u8 {
        0
    }

    pub const fn f2_max() -> u8 {
        7
    }

    pub const fn f3_min() -> u8 {
        0
    }

    pub const fn f3_max() -> u8 {
        7
    }
}

#[asn(sequence, extensible_after(f1))]

#[derive(Default, Debug, Clone, PartialEq, Hash)]
pub struct Ts4domme2 {
    #[asn(default(integer(0..7), 5))] pub f0: u8,
    #[asn(optional(integer(0..7)))] pub f1: Option<u8>,
    #[asn(optional(integer(0..7)))] pub f2: Option<u8>,
    #[asn(optional(integer(0..7)))] pub f3: Option<u8>,
}

impl Ts4domme2 {
    pub const fn f0_min() -> u8 {
        0
    }

    pub const fn f0_max() -> u8 {
        7
    }

    pub const fn f1_min() -> u8 {
        0
    }

    pub const fn f1_max() -> u8 {
        7
    }

    pub const fn f2_min() -> u8 {
        0
    }

    pub const fn f2_max() -> u8 {
        7
    }

    pub const fn f3_min() -> u8 {
        0
    }

    pub const fn f3_max() -> u8 {
        7
    }
}

#[asn(sequence, extensible_after(f2))]

#[derive(Default, Debug, Clone, PartialEq, Hash)]
pub struct Ts4domme3 {
    #[asn(default(integer(0..7), 5))] pub f0: u8,
    #[asn(optional(integer(0..7)))] pub f1: Option<u8>,
    #[asn(integer(0..7))] pub f2: u8,
    #[asn(optional(integer(0..7)))] pub f3: Option<u8>,
}

impl Ts4domme3 {
    pub const fn f0_min() -> u8 {
        0
    }

    pub const fn f0_max() -> u8 {
        7
    }

    pub const fn f1_min() -> u8 {
        0
    }

    pub const fn f1_max() -> u8 {
        7
    }

    pub const fn f2_min() -> u8 {
        0
    }

    pub const fn f2_max() -> u8 {
        7
    }

    pub const fn f3_min() -> u8 {
        0
    }

    pub const fn f3_max() -> u8 {
        7
    }
}

#[asn(sequence, extensible_after(f3))]

#[derive(Default, Debug, Clone, PartialEq, Hash)]
pub struct Ts4domme4 {
    #[asn(default(integer(0..7), 5))] pub f0: u8,
    #[asn(optional(integer(0..7)))] pub f1: Option<u8>,
    #[asn(integer(0..7))] pub f2: u8,
    #[asn(integer(0..7))] pub f3: u8,
}

impl Ts4domme4 {
    pub const fn f0_min() -> u8 {
        0
    }

    pub const fn f0_max() -> u8 {
        7
    }

    pub const fn f1_min() -> u8 {
        0
    }

    pub const fn f1_max() -> u8 {
        7
    }

    pub const fn f2_min() -> u8 {
        0
    }

    pub const fn f2_max() -> u8 {
        7
    }

    pub const fn f3_min() -> u8 {
        0
    }

    pub const fn f3_max() -> u8 {
        7
    }
}

#[asn(sequence)]

#[derive(Default, Debug, Clone, PartialEq, Hash)]
pub struct Ts4mdmmn {
    #[asn(integer(0..7))] pub f0: u8,
    #[asn(default(integer(0..7), 5))] pub f1: u8,
    #[asn(integer(0..7))] pub f2: u8,
    #[asn(integer(0..7))] pub f3: u8,
}

impl Ts4mdmmn {
    pub const fn f0_min() -> u8 {
        0
    }

    pub const fn f0_max() -> u8 {
        7
    }

    pub const fn f1_min() -> u8 {
        0
    }

    pub const fn f1_max() -> u8 {
        7
    }

    pub const fn f2_min() -> u8 {
        0
    }

    pub const fn f2_max() -> u8 {
        7
    }

    pub const fn f3_min() -> u8 {
        0
    }

    pub const fn f3_max() -> u8 {
        7
    }
}

#[asn(sequence, extensible_after(f0))]

#[derive(Default, Debug, Clone, PartialEq, Hash)]
pub struct Ts4mdmme0 {
    #[asn(integer(0..7))] pub f0: u8,
    #[asn(default(integer(0..7), 5))] pub f1: u8,
    #[asn(optional(integer(0..7)))] pub f2: Option<u8>,
    #[asn(optional(integer(0..7)))] pub f3: Option<u8>,
}

impl Ts4mdmme0 {
    pub const fn f0_min() -> u8 {
        0
    }

    pub const fn f0_max() -> u8 {
        7
    }

    pub const fn f1_min() -> u8 {
        0
    }

    pub const fn f1_max() -> u8 {
        7
    }

    pub const fn f2_min() -> u8 {
        0
    }

    pub const fn f2_max() -> u8 {
        7
    }

    pub const fn f3_min() -> u8 {
        0
    }

    pub const fn f3_max() -> u8 {
        7
    }
}

#[asn(sequence, extensible_after(f0))]

#[derive(Default, Debug, Clone, PartialEq, Hash)]
pub struct Ts4mdmme1 {
    #[asn(integer(0..7))] pub f0: u8,
    #[asn(default(integer(0..7), 5))] pub f1: u8,
    #[asn(optional(integer(0..7)))] pub f2: Option<u8>,
    #[asn(optional(integer(0..7)))] pub f3: Option<u8>,
}

impl Ts4mdmme1 {
    pub const fn f0_min() -> u8 {
        0
    }

    pub const fn f0_max() -> u8 {
        7
    }

    pub const fn f1_min() -> u8 {
        0
    }

    pub const fn f1_max() -> u8 {
        7
    }

    pub const fn f2_min() -> u8 {
        0
    }

    pub const fn f2_max() -> u8 {
        7
    }

    pub const fn f3_min() -> u8 {
        0
    }

    pub const fn f3_max() -> u8 {
        7
    }
}

#[asn(sequence, extensible_after(f1))]

#[derive(Default, Debug, Clone, PartialEq, Hash)]
pub struct Ts4mdmme2 {
    #[asn(integer(0..7))] pub f0: u8,
    #[asn(default(integer(0..7), 5))] pub f1: u8,
    #[asn(optional(integer(0..7)))] pub f2: Option<u8>,
    #[asn(optional(integer(0..7)))] pub f3: Option<u8>,
}

impl Ts4mdmme2 {
    pub const fn f0_min() -> u8 {
        0
    }

    pub const fn f0_max() -> u8 {
        7
    }

    pub const fn f1_min() -> u8 {
        0
    }

    pub const fn f1_max() -> u8 {
        7
    }

    pub const fn f2_min() -> u8 {
        0
    }

    pub const fn f2_max() -> u8 {
        7
    }

    pub const fn f3_min() -> u8 {
        0
    }

    pub const fn f3_max() -> u8 {
        7
    }
}

#[asn(sequence, extensible_after(f2))]

#[derive(Default, Debug, Clone, PartialEq, Hash)]
pub struct Ts4mdmme3 {
    #[asn(integer(0..7))] pub f0: u8,
    #[asn(default(integer(0..7), 5))] pub f1: u8,
    #[asn(integer(0..7))] pub f2: u8,
    #[asn(optional(integer(0..7)))] pub f3: Option<u8>,
}

impl Ts4mdmme3 {
    pub const fn f0_min() -> u8 {
        0
    }

    pub const fn f0_max() -> u8 {
        7
    }

    pub const fn f1_min() -> u8 {
        0
    }

    pub const fn f1_max() -> u8 {
        7
    }

    pub const fn f2_min() -> u8 {
        0
    }

    pub const fn f2_max() -> u8 {
        7
    }

    pub const fn f3_min() -> u8 {
        0
    }

    pub const fn f3_max() -> u8 {
        7
    }
}

#[asn(sequence, extensible_after(f3))]

#[derive(Default, Debug, Clone, PartialEq, Hash)]
pub struct Ts4mdmme4 {
    #[asn(integer(0..7))] pub f0: u8,
    #[asn(default(integer(0..7), 5))] pub f1: u8,
    #[asn(integer(0..7))] pub f2: u8,
    #[asn(integer(0..7))] pub f3: u8,
}

impl Ts4mdmme4 {
    pub const fn f0_min() -> u8 {
        0
    }

    pub const fn f0_max() -> u8 {
        7
    }

    pub const fn f1_min() -> u8 {
        0
    }

    pub const fn f1_max() -> u8 {
        7
    }

    pub const fn f2_min() -> u8 {
        0
    }

    pub const fn f2_max() -> u8 {
        7
    }

    pub const fn f3_min() -> u8 {
        0
    }

    pub const fn f3_max() -> u8 {
        7
    }
}

#[asn(sequence)]

#[derive(Default, Debug, Clone, PartialEq, Hash)]
pub struct Ts4odmmn {
    #[asn(optional(integer(0..7)))] pub f0: Option<u8>,
    #[asn(default(integer(0..7), 5))] pub f1: u8,
    #[asn(integer(0..7))] pub f2: u8,
    #[asn(integer(0..7))] pub f3: u8,
}

impl Ts4odmmn {
    pub const fn f0_min() -> u8 {
        0
    }

    pub const fn f0_max() -> u8 {
        7
    }

    pub const fn f1_min() -> u8 {
        0
    }

    pub const fn f1_max() -> u8 {
        7
    }

    pub const fn f2_min() -> u8 {
        0
    }

    pub const fn f2_max() -> u8 {
        7
    }

    pub const fn f3_min() -> u8 {
        0
    }

    pub const fn f3_max() -> u8 {
        7
    }
}

#[asn(sequence, extensible_after(f0))]

#[derive(Default, Debug, Clone, PartialEq, Hash)]
pub struct Ts4odmme0 {
    #[asn(optional(integer(0..7)))] pub f0: Option<u8>,
    #[asn(default(integer(0..7), 5))] pub f1: u8,
    #[asn(optional(integer(0..7)))] pub f2: Option<u8>,
    #[asn(optional(integer(0..7)))] pub f3: Option<u8>,
}

impl Ts4odmme0 {
    pub const fn f0_min() -> u8 {
        0
    }

    pub const fn f0_max() -> u8 {
        7
    }

    pub const fn f1_min() -> u8 {
        0
    }

    pub const fn f1_max() -> u8 {
        7
    }

    pub const fn f2_min() -> u8 {
        0
    }

    pub const fn f2_max() -> u8 {
        7
    }

    pub const fn f3_min() -> u8 {
        0
    }

    pub const fn f3_max() -> u8 {
        7
    }
}

#[asn(sequence, extensible_after(f0))]

#[derive(Default, Debug, Clone, PartialEq, Hash)]
pub struct Ts4odmme1 {
    #[asn(optional(integer(0..7)))] pub f0: Option<u8>,
    #[asn(default(integer(0..7), 5))] pub f1: u8,
    #[asn(optional(integer(0..7)))] pub f2: Option<u8>,
    #[asn(optional(integer(0..7)))] pub f3: Option<u8>,
}

impl Ts4odmme1 {
    pub const fn f0_min() -> u8 {
        0
    }

    pub const fn f0_max() -> u8 {
        7
    }

    pub const fn f1_min() -> u8 {
        0
    }

    pub const fn f1_max() -> u8 {
        7
    }

    pub const fn f2_min() -> u8 {
        0
    }

    pub const fn f2_max() -> u8 {
        7
    }

    pub const fn f3_min() -> u8 {
        0
    }

    pub const fn f3_max() -> u8 {
        7
    }
}

#[asn(sequence, extensible_after(f1))]

#[derive(Default, Debug, Clone, PartialEq, Hash)]
pub struct Ts4odmme2 {
    #[asn(optional(integer(0..7)))] pub f0: Option<u8>,
    #[asn(default(integer(0..7), 5))] pub f1: u8,
    #[asn(optional(integer(0..7)))] pub f2: Option<u8>,
    #[asn(optional(integer(0..7)))] pub f3: Option<u8>,
}

impl Ts4odmme2 {
    pub const fn f0_min() -> u8 {
        0
    }

    pub const fn f0_max() -> u8 {
        7
    }

    pub const fn f1_min() -> u8 {
        0
    }

    pub const fn f1_max() -> u8 {
        7
    }

    pub const fn f2_min() -> u8 {
        0
    }

    pub const fn f2_max() -> u8 {
        7
    }

    pub const fn f3_min() -> u8 {
        0
    }

    pub const fn f3_max() -> u8 {
        7
    }
}

#[asn(sequence, extensible_after(f2))]

#[derive(Default, Debug, Clone, PartialEq, Hash)]
pub struct Ts4odmme3 {
    #[asn(optional(integer(0..7)))] pub f0: Option<u8>,
    #[asn(default(integer(0..7), 5))] pub f1: u8,
    #[asn(integer(0..7))] pub f2: u8,
    #[asn(optional(integer(0..7)))] pub f3: Option<u8>,
}

impl Ts4odmme3 {
    pub const fn f0_min() -> u8 {
        0
    }

    pub const fn f0_max() -> u8 {
        7
    }

    pub const fn f1_min() -> u8 {
        0
    }

    pub const fn f1_max() -> u8 {
        7
    }

    pub const fn f2_min() -> u8 {
        0
    }

    pub const fn f2_max() -> u8 {
        7
    }

    pub const fn f3_min() -> u8 {
        0
    }

    pub const fn f3_max() -> u8 {
        7
    }
}

#[asn(sequence, extensible_after(f3))]

#[derive(Default, Debug, Clone, PartialEq, Hash)]
pub struct Ts4odmme4 {
    #[asn(optional(integer(0..7)))] pub f0: Option<u8>,
    #[asn(default(integer(0..7), 5))] pub f1: u8,
    #[asn(integer(0..7))] pub f2: u8,
    #[asn(integer(0..7))] pub f3: u8,
}

impl Ts4odmme4 {
    pub const fn f0_min() -> u8 {
        0
    }

    pub const fn f0_max() -> u8 {
        7
    }

    pub const fn f1_min() -> u8 {
        0
    }

    pub const fn f1_max() -> u8 {
        7
    }

    pub const fn f2_min() -> u8 {
        0
    }

    pub const fn f2_max() -> u8 {
        7
    }

    pub const fn f3_min() -> u8 {
        0
    }

    pub const fn f3_max() -> u8 {
        7
    }
}

#[asn(sequence)]

#[derive(Default, Debug, Clone, PartialEq, Hash)]
pub struct Ts4ddmmn {
    #[asn(default(integer(0..7), 5))] pub f0: u8,
    #[asn(default(integer(0..7), 5))] pub f1: u8,
    #[asn(integer(0..7))] pub f2: u8,
    #[asn(integer(0..7))] pub f3: u8,
}

impl Ts4ddmmn {
    pub const fn f0_min() -> u8 {
        0
    }

    pub const fn f0_max() -> u8 {
        7
    }

    pub const fn f1_min() -> u8 {
        0
    }

    pub const fn f1_max() -> u8 {
        7
    }

    pub const fn f2_min() -> u8 {
        0
    }

    pub const fn f2_max() -> u8 {
        7
    }

    pub const fn f3_min() -> u8 {
        0
    }

    pub const fn f3_max() -> u8 {
        7
    }
}

#[asn(sequence, extensible_after(f0))]

#[derive(Default, Debug, Clone, PartialEq, Hash)]
pub struct Ts4ddmme0 {
    #[asn(default(integer(0..7), 5))] pub f0: u8,
    #[asn(default(integer(0..7), 5))] pub f1: u8,
    #[asn(optional(integer(0..7)))] pub f2: Option<u8>,
    #[asn(optional(integer(0..7)))] pub f3: Option<u8>,
}

impl Ts4ddmme0 {
    pub const fn f0_min() -> u8 {
        0
    }

    pub const fn f0_max() -> u8 {
        7
    }

    pub const fn f1_min() -> u8 {
        0
    }

    pub const fn f1_max() -> u8 {
        7
    }

    pub const fn f2_min() -> u8 {
        0
    }

    pub const fn f2_max() -> u8 {
        7
    }

    pub const fn f3_min() -> u8 {
        0
    }

    pub const fn f3_max() -> u8 {
        7
    }
}

#[asn(sequence, extensible_after(f0))]

#[derive(Default, Debug, Clone, PartialEq, Hash)]
pub struct Ts4ddmme1 {
    #[asn(default(integer(0..7), 5))] pub f0: u8,
    #[asn(default(integer(0..7), 5))] pub f1: u8,
    #[asn(optional(integer(0..7)))] pub f2: Option<u8>,
    #[asn(optional(integer(0..7)))] pub f3: Option<u8>,
}

impl Ts4ddmme1 {
    pub const fn f0_min() -> u8 {
        0
    }

    pub const fn f0_max() -> u8 {
        7
    }

    pub const fn f1_min() -> u8 {
        0
    }

    pub const fn f1_max() -> u8 {
        7
    }

    pub const fn f2_min() -> u8 {
        0
    }

    pub const fn f2_max() -> u8 {
        7
    }

    pub const fn f3_min() -> u8 {
        0
    }

    pub const fn f3_max() -> u8 {
        7
    }
}

#[asn(sequence, extensible_after(f1))]

#[derive(Default, Debug, Clone, PartialEq, Hash)]
pub struct Ts4ddmme2 {
    #[asn(default(integer(0..7), 5))] pub f0: u8,
    #[asn(default(integer(0..7), 5))] pub f1: u8,
    #[asn(optional(integer(0..7)))] pub f2: Option<u8>,
    #[asn(optional(integer(0..7)))] pub f3: Option<u8>,
}

impl Ts4ddmme2 {
    pub const fn f0_min() -> u8 {
        0
    }

    pub const fn f0_max() -> u8 {
        7
    }

    pub const fn f1_min() -> u8 {
        0
    }

    pub const fn f1_max() -> u8 {
        7
    }

    pub const fn f2_min() -> u8 {
        0
    }

    pub const fn f2_max() -> u8 {
        7
    }

    pub const fn f3_min() -> u8 {
        0
    }

    pub const fn f3_max() -> u8 {
        7
    }
}

#[asn(sequence, extensible_after(f2))]

#[derive(Default, Debug, Clone, PartialEq, Hash)]
pub struct Ts4ddmme3 {
    #[asn(default(integer(0..7), 5))] pub f0: u8,
    #[asn(default(integer(0..7), 5))] pub f1: u8,
    #[asn(integer(0..7))] pub f2: u8,
    #[asn(optional(integer(0..7)))] pub f3: Option<u8>,
}

impl Ts4ddmme3 {
    pub const fn f0_min() -> u8 {
        0
    }

    pub const fn f0_max() -> u8 {
        7
    }

    pub const fn f1_min() -> u8 {
        0
    }

    pub const fn f1_max() -> u8 {
        7
    }

    pub const fn f2_min() -> u8 {
        0
    }

    pub const fn f2_max() -> u8 {
        7
    }

    pub const fn f3_min() -> u8 {
        0
    }

    pub const fn f3_max() -> u8 {
        7
    }
}

#[asn(sequence, extensible_after(f3))]

#[derive(Default, Debug, Clone, PartialEq, Hash)]
pub struct Ts4ddmme4 {
    #[asn(default(integer(0..7), 5))] pub f0: u8,
    #[asn(default(integer(0..7), 5))] pub f1: u8,
    #[asn(integer(0..7))] pub f2: u8,
    #[asn(integer(0..7))] pub f3: u8,
}

impl Ts4ddmme4 {
    pub const fn f0_min() -> u8 {
        0
    }

    pub const fn f0_max() -> u8 {
        7
    }

    pub const fn f1_min() -> u8 {
        0
    }

    pub const fn f1_max() -> u8 {
        7
    }

    pub const fn f2_min() -> u8 {
        0
    }

    pub const fn f2_max() -> u8 {
        7
    }

    pub const fn f3_min() -> u8 {
        0
    }

    pub const fn f3_max() -> u8 {
        7
    }
}

#[asn(sequence)]

#[derive(Default, Debug, Clone, PartialEq, Hash)]
pub struct Ts4mmomn {
    #[asn(integer(0..7))] pub f0: u8,
    #[asn(integer(0..7))] pub f1: u8,
    #[asn(optional(integer(0..7)))] pub f2: Option<u8>,
    #[asn(integer(0..7))] pub f3: u8,
}

impl Ts4mmomn {
    pub const fn f0_min() -> u8 {
        0
    }

    pub const fn f0_max() -> u8 {
        7
    }

    pub const fn f1_min() -> u8 {
        0
    }

    pub const fn f1_max() -> u8 {
        7
    }

    pub const fn f2_min() -> u8 {
        0
    }

    pub const fn f2_max() -> u8 {
        7
    }

    pub const fn f3_min() -> u8 {
        0
    }

    pub const fn f3_max() -> u8 {
        7
    }
}

#[asn(sequence, extensible_after(f0))]

#[derive(Default, Debug, Clone, PartialEq, Hash)]
pub struct Ts4mmome0 {
    #[asn(integer(0..7))] pub f0: u8,
    #[asn(optional(integer(0..7)))] pub f1: Option<u8>,
    #[asn(optional(integer(0..7)))] pub f2: Option<u8>,
    #[asn(optional(integer(0..7)))] pub f3: Option<u8>,
}

impl Ts4mmome0 {
    pub const fn f0_min() -> u8 {
        0
    }

    pub const fn f0_max() -> u8 {
        7
    }

    pub const fn f1_min() -> u8 {
        0
    }

    pub const fn f1_max() -> u8 {
        7
    }

    pub const fn f2_min() -> u8 {
        0
    }

    pub const fn f2_max() -> u8 {
        7
    }

    pub const fn f3_min() -> u8 {
        0
    }

    pub const fn f3_max() -> u8 {
        7
    }
}

#[asn(sequence, extensible_after(f0))]

#[derive(Default, Debug, Clone, PartialEq, Hash)]
pub struct Ts4mmome1 {
    #[asn(integer(0..7))] pub f0: u8,
    #[asn(optional(integer(0..7)))] pub f1: Option<u8>,
    #[asn(optional(integer(0..7)))] pub f2: Option<u8>,
    #[asn(optional(integer(0..7)))] pub f3: Option<u8>,
}

impl Ts4mmome1 {
    pub const fn f0_min() -> u8 {
        0
    }

    pub const fn f0_max() -> u8 {
        7
    }

    pub const fn f1_min() -> u8 {
        0
    }

    pub const fn f1_max() -> u8 {
        7
    }

    pub const fn f2_min() -> u8 {
        0
    }

    pub const fn f2_max() -> u8 {
        7
    }

    pub const fn f3_min() -> u8 {
        0
    }

    pub const fn f3_max() -> u8 {
        7
    }
}

#[asn(sequence, extensible_after(f1))]

#[derive(Default, Debug, Clone, PartialEq, Hash)]
pub struct Ts4mmome2 {
    #[asn(integer(0..7))] pub f0: u8,
    #[asn(integer(0..7))] pub f1: u8,
    #[asn(optional(integer(0..7)))] pub f2: Option<u8>,
    #[asn(optional(integer(0..7)))] pub f3: Option<u8>,
}

impl Ts4mmome2 {
    pub const fn f0_min() -> u8 {
        0
    }

    pub const fn f0_max() -> u8 {
        7
    }

    pub const fn f1_min() -> u8 {
        0
    }

    pub const fn f1_max() -> u8 {
        7
    }

    pub const fn f2_min() -> u8 {
        0
    }

    pub const fn f2_max() -> u8 {
        7
    }

    pub const fn f3_min() -> u8 {
        0
    }

    pub const fn f3_max() -> u8 {
        7
    }
}

#[asn(sequence, extensible_after(f2))]

#[derive(Default, Debug, Clone, PartialEq, Hash)]
pub struct Ts4mmome3 {
    #[asn(integer(0..7))] pub f0: u8,
    #[asn(integer(0..7))] pub f1: u8,
    #[asn(optional(integer(0..7)))] pub f2: Option<u8>,
    #[asn(optional(integer(0..7)))] pub f3: Option<u8>,
}

impl Ts4mmome3 {
    pub const fn f0_min() -> u8 {
        0
    }

    pub const fn f0_max() -> u8 {
        7
    }

    pub const fn f1_min() -> u8 {
        0
    }

    pub const fn f1_max() -> u8 {
        7
    }

    pub const fn f2_min() -> u8 {
        0
    }

    pub const fn f2_max() -> u8 {
        7
    }

    pub const fn f3_min() -> u8 {
        0
    }

    pub const fn f3_max() -> u8 {
        7
    }
}

#[asn(sequence, extensible_after(f3))]

#[derive(Default, Debug, Clone, PartialEq, Hash)]
pub struct Ts4mmome4 {
    #[asn(integer(0..7))] pub f0: u8,
    #[asn(integer(0..7))] pub f1: u8,
    #[asn(optional(integer(0..7)))] pub f2: Option<u8>,
    #[asn(integer(0..7))] pub f3: u8,
}

impl Ts4mmome4 {
    pub const fn f0_min() -> u8 {
        0
    }

    pub const fn f0_max() -> u8 {
        7
    }

    pub const fn f1_min() -> u8 {
        0
    }

    pub const fn f1_max() -> u8 {
        7
    }

    pub const fn f2_min() -> u8 {
        0
    }

    pub const fn f2_max() -> u8 {
        7
    }

    pub const fn f3_min() -> u8 {
        0
    }

    pub const fn f3_max() -> u8 {
        7
    }
}

#[asn(sequence)]

#[derive(Default, Debug, Clone, PartialEq, Hash)]
pub struct Ts4omomn {
    #[asn(optional(integer(0..7)))] pub f0: Option<u8>,
    #[asn(integer(0..7))] pub f1: u8,
    #[asn(optional(integer(0..7)))] pub f2: Option<u8>,
    #[asn(integer(0..7))] pub f3: u8,
}

impl Ts4omomn {
    pub const fn f0_min() -> u8 {
        0
    }

    pub const fn f0_max() -> u8 {
        7
    }

    pub const fn f1_min() -> u8 {
        0
    }

    pub const fn f1_max() -> u8 {
        7
    }

    pub const fn f2_min() -> u8 {
        0
    }

    pub const fn f2_max() -> u8 {
        7
    }

    pub const fn f3_min() -> u8 {
        0
    }

    pub const fn f3_max() -> u8 {
        7
    }
}

#[asn(sequence, extensible_after(f0))]

#[derive(Default, Debug, Clone, PartialEq, Hash)]
pub struct Ts4omome0 {
    #[asn(optional(integer(0..7)))] pub f0: Option<u8>,
    #[asn(optional(integer(0..7)))] pub f1: Option<u8>,
    #[asn(optional(integer(0..7)))] pub f2: Option<u8>,
    #[asn(optional(integer(0..7)))] pub f3: Option<u8>,
}

impl Ts4omome0 {
    pub const fn f0_min() -> u8 {
        0
    }

    pub const fn f0_max() -> u8 {
        7
    }

    pub const fn f1_min() -> u8 {
        0
    }

    pub const fn f1_max() -> u8 {
        7
    }

    pub const fn f2_min() -> u8 {
        0
    }

    pub const fn f2_max() -> u8 {
        7
    }

    pub const fn f3_min() -> u8 {
        0
    }

    pub const fn f3_max() -> u8 {
        7
    }
}

#[asn(sequence, extensible_after(f0))]

#[derive(Default, Debug, Clone, PartialEq, Hash)]
pub struct Ts4omome1 {
    #[asn(optional(integer(0..7)))] pub f0: Option<u8>,
    #[asn(optional(integer(0..7)))] pub f1: Option<u8>,
    #[asn(optional(integer(0..7)))] pub f2: Option<u8>,
    #[asn(optional(integer(0..7)))] pub f3: Option<u8>,
}

impl Ts4omome1 {
    pub const fn f0_min() -> u8 {
        0
    }

    pub const fn f0_max() -> u8 {
        7
    }

    pub const fn f1_min() -> u8 {
        0
    }

    pub const fn f1_max() -> u8 {
        7
    }

    pub const fn f2_min() -> u8 {
        0
    }

    pub const fn f2_max() -> u8 {
        7
    }

    pub const fn f3_min() -> u8 {
        0
    }

    pub const fn f3_max() -> u8 {
        7
    }
}

#[asn(sequence, extensible_after(f1))]

#[derive(Default, Debug, Clone, PartialEq, Hash)]
pub struct Ts4omome2 {
    #[asn(optional(integer(0..7)))] pub f0: Option<u8>,
    #[asn(integer(0..7))] pub f1: u8,
    #[asn(optional(integer(0..7)))] pub f2: Option<u8>,
    #[asn(optional(integer(0..7)))] pub f3: Option<u8>,
}

impl Ts4omome2 {
    pub const fn f0_min() -> u8 {
        0
    }

    pub const fn f0_max() -> u8 {
        7
    }

    pub const fn f1_min() -> u8 {
        0
    }

    pub const fn f1_max() -> u8 {
        7
    }

    pub const fn f2_min() -> u8 {
        0
    }

    pub const fn f2_max() -> u8 {
        7
    }

    pub const fn f3_min() -> u8 {
        0
    }

    pub const fn f3_max() -> u8 {
        7
    }
}

#[asn(sequence, extensible_after(f2))]

#[derive(Default, Debug, Clone, PartialEq, Hash)]
pub struct Ts4omome3 {
    #[asn(optional(integer(0..7)))] pub f0: Option<u8>,
    #[asn(integer(0..7))] pub f1: u8,
    #[asn(optional(integer(0..7)))] pub f2: Option<u8>,
    #[asn(optional(integer(0..7)))] pub f3: Option<u8>,
}

impl Ts4omome3 {
    pub const fn f0_min() -> u8 {
        0
    }

    pub const fn f0_max() -> u8 {
        7
    }

    pub const fn f1_min() -> u8 {
        0
    }

    pub const fn f1_max() -> u8 {
        7
    }

    pub const fn f2_min() -> u8 {
        0
    }

    pub const fn f2_max() -> u8 {
        7
    }

    pub const fn f3_min() -> u8 {
        0
    }

    pub const fn f3_max() -> u8 {
        7
    }
}

#[asn(sequence, extensible_after(f3))]

#[derive(Default, Debug, Clone, PartialEq, Hash)]
pub struct Ts4omome4 {
    #[asn(optional(integer(0..7)))] pub f0: Option<u8>,
    #[asn(integer(0..7))] pub f1: u8,
    #[asn(optional(integer(0..7)))] pub f2: Option<u8>,
    #[asn(integer(0..7))] pub f3: u8,
}

impl Ts4omome4 {
    pub const fn f0_min() -> u8 {
        0
    }

    pub const fn f0_max() -> u8 {
        7
    }

    pub const fn f1_min() -> u8 {
        0
    }

    pub const fn f1_max() -> u8 {
        7
    }

    pub const fn f2_min() -> u8 {
        0
    }

    pub const fn f2_max() -> u8 {
        7
    }

    pub const fn f3_min() -> u8 {
        0
    }

    pub const fn f3_max() -> u8 {
        7
    }
}

#[asn(sequence)]

#[derive(Default, Debug, Clone, PartialEq, Hash)]
pub struct Ts4dmomn {
    #[asn(default(integer(0..7), 5))] pub f0: u8,
    #[asn(integer(0..7))] pub f1: u8,
    #[asn(optional(integer(0..7)))] pub f2: Option<u8>,
    #[asn(integer(0..7))] pub f3: u8,
}

impl Ts4dmomn {
    pub const fn f0_min() -> u8 {
        0
    }

    pub const fn f0_max() -> u8 {
        7
    }

    pub const fn f1_min() -> u8 {
        0
    }

    pub const fn f1_max() -> u8 {
        7
    }

    pub const fn f2_min() -> u8 {
        0
    }

    pub const fn f2_max() -> u8 {
        7
    }

    pub const fn f3_min() -> u8 {
        0
    }

    pub const fn f3_max() -> u8 {
        7
    }
}

#[asn(sequence, extensible_after(f0))]

#[derive(Default, Debug, Clone, PartialEq, Hash)]
pub struct Ts4dmome0 {
    #[asn(default(integer(0..7), 5))] pub f0: u8,
    #[asn(optional(integer(0..7)))] pub f1: Option<u8>,
    #[asn(optional(integer(0..7)))] pub f2: Option<u8>,
    #[asn(optional(integer(0..7)))] pub f3: Option<u8>,
}

impl Ts4dmome0 {
    pub const fn f0_min() -> u8 {
        0
    }

    pub const fn f0_max() -> u8 {
        7
    }

    pub const fn f1_min() -> u8 {
        0
    }

    pub const fn f1_max() -> u8 {
        7
    }

    pub const fn f2_min() -> u8 {
        0
    }

    pub const fn f2_max() -> u8 {
        7
    }

    pub const fn f3_min() -> u8 {
        0
    }

    pub const fn f3_max() -> u8 {
        7
    }
}

#[asn(sequence, extensible_after(f0))]

#[derive(Default, Debug, Clone, PartialEq, Hash)]
pub struct Ts4dmome1 {
    #[asn(default(integer(0..7), 5))] pub f0: u8,
    #[asn(optional(integer(0..7)))] pub f1: Option<u8>,
    #[asn(optional(integer(0..7)))] pub f2: Option<u8>,
    #[asn(optional(integer(0..7)))] pub f3: Option<u8>,
}

impl Ts4dmome1 {
    pub const fn f0_min() -> u8 {
        0
    }

    pub const fn f0_max() -> u8 {
        7
    }

    pub const fn f1_min() -> u8 {
        0
    }

    pub const fn f1_max() -> u8 {
        7
    }

    pub const fn f2_min() -> u8 {
        0
    }

    pub const fn f2_max() -> u8 {
        7
    }

    pub const fn f3_min() -> u8 {
        0
    }

    pub const fn f3_max() -> u8 {
        7
    }
}

#[asn(sequence, extensible_after(f1))]

#[derive(Default, Debug, Clone, PartialEq, Hash)]
pub struct Ts4dmome2 {
    #[asn(default(integer(0..7), 5))] pub f0: u8,
    #[asn(integer(0..7))] pub f1: u8,
    #[asn(optional(integer(0..7)))] pub f2: Option<u8>,
    #[asn(optional(integer(0..7)))] pub f3: Option<u8>,
}

impl Ts4dmome2 {
    pub const fn f0_min() -> u8 {
        0
    }

    pub const fn f0_max() -> u8 {
        7
    }

    pub const fn f1_min() -> u8 {
        0
    }

    pub const fn f1_max() -> u8 {
        7
    }

    pub const fn f2_min() -> u8 {
        0
    }

    pub const fn f2_max() -> u8 {
        7
    }

    pub const fn f3_min() -> u8 {
        0
    }

    pub const fn f3_max() -> u8 {
        7
    }
}

#[asn(sequence, extensible_after(f2))]

#[derive(Default, Debug, Clone, PartialEq, Hash)]
pub struct Ts4dmome3 {
    #[asn(default(integer(0..7), 5))] pub f0: u8,
    #[asn(integer(0..7))] pub f1: u8,
    #[asn(optional(integer(0..7)))] pub f2: Option<u8>,
    #[asn(optional(integer(0..7)))] pub f3: Option<u8>,
}

impl Ts4dmome3 {
    pub const fn f0_min() -> u8 {
        0
    }

    pub const fn f0_max() -> u8 {
        7
    }

    pub const fn f1_min() -> u8 {
        0
    }

    pub const fn f1_max() -> u8 {
        7
    }

    pub const fn f2_min() -> u8 {
        0
    }

    pub const fn f2_max() -> u8 {
        7
    }

    pub const fn f3_min() -> u8 {
        0
    }

    pub const fn f3_max() -> u8 {
        7
    }
}

#[asn(sequence, extensible_after(f3))]

#[derive(Default, Debug, Clone, PartialEq, Hash)]
pub struct Ts4dmome4 {
    #[asn(default(integer(0..7), 5))] pub f0: u8,
    #[asn(integer(0..7))] pub f1: u8,
    #[asn(optional(integer(0..7)))] pub f2: Option<u8>,
    #[asn(integer(0..7))] pub f3: u8,
}

impl Ts4dmome4 {
    pub const fn f0_min() -> u8 {
        0
    }

    pub const fn f0_max() -> u8 {
        7
    }

    pub const fn f1_min() -> u8 {
        0
    }

    pub const fn f1_max() -> u8 {
        7
    }

    pub const fn f2_min() -> u8 {
        0
    }

    pub const fn f2_max() -> u8 {
        7
    }

    pub const fn f3_min() -> u8 {
        0
    }

    pub const fn f3_max() -> u8 {
        7
    }
}

#[asn(sequence)]

#[derive(Default, Debug, Clone, PartialEq, Hash)]
pub struct Ts4moomn {
    #[asn(integer(0..7))] pub f0: u8,
    #[asn(optional(integer(0..7)))] pub f1: Option<u8>,
    #[asn(optional(integer(0..7)))] pub f2: Option<u8>,
    #[asn(integer(0..7))] pub f3: u8,
}

impl Ts4moomn {
    pub const fn f0_min() -> u8 {
        0
    }

    pub const fn f0_max() -> u8 {
        7
    }

    pub const fn f1_min() -> u8 {
        0
    }

    pub const fn f1_max() -> u8 {
        7
    }

    pub const fn f2_min() -> u8 {
        0
    }

    pub const fn f2_max() -> u8 {
        7
    }

    pub const fn f3_min() -> u8 {
        0
    }

    pub const fn f3_max() -> u8 {
        7
    }
}

#[asn(sequence, extensible_after(f0))]

#[derive(Default, Debug, Clone, PartialEq, Hash)]
pub struct Ts4moome0 {
    #[asn(integer(0..7))] pub f0: u8,
    #[asn(optional(integer(0..7)))] pub f1: Option<u8>,
    #[asn(optional(integer(0..7)))] pub f2: Option<u8>,
    #[asn(optional(integer(0..7)))] pub f3: Option<u8>,
}

impl Ts4moome0 {
    pub const fn f0_min() -> u8 {
        0
    }

    pub const fn f0_max() -> u8 {
        7
    }

    pub const fn f1_min() -> u8 {
        0
    }

    pub const fn f1_max() -> u8 {
        7
    }

    pub const fn f2_min() -> u8 {
        0
    }

    pub const fn f2_max() -> u8 {
        7
    }

    pub const fn f3_min() -> u8 {
        0
    }

    pub const fn f3_max() -> u8 {
        7
    }
}

#[asn(sequence, extensible_after(f0))]

#[derive(Default, Debug, Clone, PartialEq, Hash)]
pub struct Ts4moome1 {
    #[asn(integer(0..7))] pub f0: u8,
    #[asn(optional(integer(0..7)))] pub f1: Option<u8>,
    #[asn(optional(integer(0..7)))] pub f2: Option<u8>,
    #[asn(optional(integer(0..7)))] pub f3: Option<u8>,
}

impl Ts4moome1 {
    pub const fn f0_min() -> u8 {
        0
    }

    pub const fn f0_max() -> u8 {
        7
    }

    pub const fn f1_min() -> u8 {
        0
    }

    pub const fn f1_max() -> u8 {
        7
    }

    pub const fn f2_min() -> u8 {
        0
    }

    pub const fn f2_max() -> u8 {
        7
    }

    pub const fn f3_min() -> u8 {
        0
    }

    pub const fn f3_max() -> u8 {
        7
    }
}

#[asn(sequence, extensible_after(f1))]

#[derive(Default, Debug, Clone, PartialEq, Hash)]
pub struct Ts4moome2 {
    #[asn(integer(0..7))] pub f0: u8,
    #[asn(optional(integer(0..7)))] pub f1: Option<u8>,
    #[asn(optional(integer(0..7)))] pub f2: Option<u8>,
    #[asn(optional(integer(0..7)))] pub f3: Option<u8>,
}

impl Ts4moome2 {
    pub const fn f0_min() -> u8 {
        0
    }

    pub const fn f0_max() -> u8 {
        7
    }

    pub const fn f1_min() -> u8 {
        0
    }

    pub const fn f1_max() -> u8 {
        7
    }

    pub const fn f2_min() -> u8 {
        0
    }

    pub const fn f2_max() -> u8 {
        7
    }

    pub const fn f3_min() -> u8 {
        0
    }

    pub const fn f3_max() -> u8 {
        7
    }
}

#[asn(sequence, extensible_after(f2))]

#[derive(Default, Debug, Clone, PartialEq, Hash)]
pub struct Ts4moome3 {
    #[asn(integer(0..7))] pub f0: u8,
    #[asn(optional(integer(0..7)))] pub f1: Option<u8>,
    #[asn(optional(integer(0..7)))] pub f2: Option<u8>,
    #[asn(optional(integer(0..7)))] pub f3: Option<u8>,
}

impl Ts4moome3 {
    pub const fn f0_min() -> u8 {
        0
    }

    pub const fn f0_max() -> u8 {
        7
    }

    pub const fn f1_min() -> u8 {
        0
    }

    pub const fn f1_max() -> u8 {
        7
    }

    pub const fn f2_min() -> u8 {
        0
    }

    pub const fn f2_max() -> u8 {
        7
    }

    pub const fn f3_min() -> u8 {
        0
    }

    pub const fn f3_max() -> u8 {
        7
    }
}

#[asn(sequence, extensible_after(f3))]

#[derive(Default, Debug, Clone, PartialEq, Hash)]
pub struct Ts4moome4 {
    #[asn(integer(0..7))] pub f0: u8,
    #[asn(optional(integer(0..7)))] pub f1: Option<u8>,
    #[asn(optional(integer(0..7)))] pub f2: Option<u8>,
    #[asn(integer(0..7))] pub f3: u8,
}

impl Ts4moome4 {
    pub const fn f0_min() -> u8 {
        0
    }

    pub const fn f0_max() -> u8 {
        7
    }

    pub const fn f1_min() -> u8 {
        0
    }

    pub const fn f1_max() -> u8 {
        7
    }

    pub const fn f2_min() -> u8 {
        0
    }

    pub const fn f2_max() -> u8 {
        7
    }

    pub const fn f3_min() -> u8 {
        0
    }

    pub const fn f3_max() -> u8 {
        7
    }
}

#[asn(sequence)]

#[derive(Default, Debug, Clone, PartialEq, Hash)]
pub struct Ts4ooomn {
    #[asn(optional(integer(0..7)))] pub f0: Option<u8>,
    #[asn(optional(integer(0..7)))] pub f1: Option<u8>,
    #[asn(optional(integer(0..7)))] pub f2: Option<u8>,
    #[asn(integer(0..7))] pub f3: u8,
}

impl Ts4ooomn {
    pub const fn f0_min() -> u8 {
        0
    }

    pub const fn f0_max() -> u8 {
        7
    }

    pub const fn f1_min() -> u8 {
        0
    }

    pub const fn f1_max() -> u8 {
        7
    }

    pub const fn f2_min() -> u8 {
        0
    }

    pub const fn f2_max() -> u8 {
        7
    }

    pub const fn f3_min() -> u8 {
        0
    }

    pub const fn f3_max() -> u8 {
        7
    }
}

#[asn(sequence, extensible_after(f0))]

#[derive(Default, Debug, Clone, PartialEq, Hash)]
pub struct Ts4ooome0 {
    #[asn(optional(integer(0..7)))] pub f0: Option<u8>,
    #[asn(optional(integer(0..7)))] pub f1: Option<u8>,
    #[asn(optional(integer(0..7)))] pub f2: Option<u8>,
    #[asn(optional(integer(0..7)))] pub f3: Option<u8>,
}

impl Ts4ooome0 {
    pub const fn f0_min() -> u8 {
        0
    }

    pub const fn f0_max() -> u8 {
        7
    }

    pub const fn f1_min() -> u8 {
        0
    }

    pub const fn f1_max() -> u8 {
        7
    }

    pub const fn f2_min() -> u8 {
        0
    }

    pub const fn f2_max() -> u8 {
        7
    }

    pub const fn f3_min() -> u8 {
        0
    }

    pub const fn f3_max() -> u8 {
        7
    }
}

#[asn(sequence, extensible_after(f0))]

#[derive(Default, Debug, Clone, PartialEq, Hash)]
pub struct Ts4ooome1 {
    #[asn(optional(integer(0..7)))] pub f0: Option<u8>,
    #[asn(optional(integer(0..7)))] pub f1: Option<u8>,
    #[asn(optional(integer(0..7)))] pub f2: Option<u8>,
    #[asn(optional(integer(0..7)))] pub f3: Option<u8>,
}

impl Ts4ooome1 {
    pub const fn f0_min() -> u8 {
        0
    }

    pub const fn f0_max() -> u8 {
        7
    }

    pub const fn f1_min() -> u8 {
        0
    }

    pub const fn f1_max() -> u8 {
        7
    }

    pub const fn f2_min() -> u8 {
        0
    }

    pub const fn f2_max() -> u8 {
        7
    }

    pub const fn f3_min() -> u8 {
        0
    }

    pub const fn f3_max() -> u8 {
        7
    }
}

#[asn(sequence, extensible_after(f1))]

#[derive(Default, Debug, Clone, PartialEq, Hash)]
pub struct Ts4ooome2 {
    #[asn(optional(integer(0..7)))] pub f0: Option<u8>,
    #[asn(optional(integer(0..7)))] pub f1: Option<u8>,
    #[asn(optional(integer(0..7)))] pub f2: Option<u8>,
    #[asn(optional(integer(0..7)))] pub f3: Option<u8>,
}

impl Ts4ooome2 {
    pub const fn f0_min() -> u8 {
        0
    }

    pub const fn f0_max() -> u8 {
        7
    }

    pub const fn f1_min() -> u8 {
        0
    }

    pub const fn f1_max() -> u8 {
        7
    }

    pub const fn f2_min() -> u8 {
        0
    }

    pub const fn f2_max() -> u8 {
        7
    }

    pub const fn f3_min() -> u8 {
        0
    }

    pub const fn f3_max() -> u8 {
        7
    }
}

#[asn(sequence, extensible_after(f2))]

#[derive(Default, Debug, Clone, PartialEq, Hash)]
pub struct Ts4ooome3 {
    #[asn(optional(integer(0..7)))] pub f0: Option<u8>,
    #[asn(optional(integer(0..7)))] pub f1: Option<u8>,
    #[asn(optional(integer(0..7)))] pub f2: Option<u8>,
    #[asn(optional(integer(0..7)))] pub f3: Option<u8>,
}

impl Ts4ooome3 {
    pub const fn f0_min() -> u8 {
        0
    }

    pub const fn f0_max() -> u8 {
        7
    }

    pub const fn f1_min() -> u8 {
        0
    }

    pub const fn f1_max() -> u8 {
        7
    }

    pub const fn f2_min() -> u8 {
        0
    }

    pub const fn f2_max() -> u8 {
        7
    }

    pub const fn f3_min() -> u8 {
        0
    }

    pub const fn f3_max() -> u8 {
        7
    }
}

#[asn(sequence, extensible_after(f3))]

#[derive(Default, Debug, Clone, PartialEq, Hash)]
pub struct Ts4ooome4 {
    #[asn(optional(integer(0..7)))] pub f0: Option<u8>,
    #[asn(optional(integer(0..7)))] pub f1: Option<u8>,
    #[asn(optional(integer(0..7)))] pub f2: Option<u8>,
    #[asn(integer(0..7))] pub f3: u8,
}

impl Ts4ooome4 {
    pub const fn f0_min() -> u8 {
        0
    }

    pub const fn f0_max() -> u8 {
        7
    }

    pub const fn f1_min() -> u8 {
        0
    }

    pub const fn f1_max() -> u8 {
        7
    }

    pub const fn f2_min() -> u8 {
        0
    }

    pub const fn f2_max() -> u8 {
        7
    }

    pub const fn f3_min() -> u8 {
        0
    }

    pub const fn f3_max() -> u8 {
        7
    }
}

#[asn(sequence)]

#[derive(Default, Debug, Clone, PartialEq, Hash)]
pub struct Ts4doomn {
    #[asn(default(integer(0..7), 5))] pub f0: u8,
    #[asn(optional(integer(0..7)))] pub f1: Option<u8>,
    #[asn(optional(integer(0..7)))] pub f2: Option<u8>,
    #[asn(integer(0..7))] pub f3: u8,
}

impl Ts4doomn {
    pub const fn f0_min() -> u8 {
        0
    }

    pub const fn f0_max() -> u8 {
        7
    }

    pub const fn f1_min() -> u8 {
        0
    }

    pub const fn f1_max() -> u8 {
        7
    }

    pub const fn f2_min() -> u8 {
        0
    }

    pub const fn f2_max() -> u8 {
        7
    }

    pub const fn f3_min() -> u8 {
        0
    }

    pub const fn f3_max() -> u8 {
        7
    }
}

#[asn(sequence, extensible_after(f0))]

#[derive(Default, Debug, Clone, PartialEq, Hash)]
pub struct Ts4doome0 {
    #[asn(default(integer(0..7), 5))] pub f0: u8,
    #[asn(optional(integer(0..7)))] pub f1: Option<u8>,
    #[asn(optional(integer(0..7)))] pub f2: Option<u8>,
    #[asn(optional(integer(0..7)))] pub f3: Option<u8>,
}

impl Ts4doome0 {
    pub const fn f0_min() -> u8 {
        0
    }

    pub const fn f0_max() -> u8 {
        7
    }

    pub const fn f1_min() -> u8 {
        0
    }

    pub const fn f1_max() -> u8 {
        7
    }

    pub const fn f2_min() -> u8 {
        0
    }

    pub const fn f2_max() -> u8 {
        7
    }

    pub const fn f3_min() -> u8 {
        0
    }

    pub const fn f3_max() -> u8 {
        7
    }
}

#[asn(sequence, extensible_after(f0))]

#[derive(Default, Debug, Clone, PartialEq, Hash)]
pub struct Ts4doome1 {
    #[asn(default(integer(0..7), 5))] pub f0: u8,
    #[asn(optional(integer(0..7)))] pub f1: Option<u8>,
    #[asn(optional(integer(0..7)))] pub f2: Option<u8>,
    #[asn(optional(integer(0..7)))] pub f3: Option<u8>,
}

impl Ts4doome1 {
    pub const fn f0_min() -> u8 {
        0
    }

    pub const fn f0_max() -> u8 {
        7
    }

    pub const fn f1_min() -> u8 {
        0
    }

    pub const fn f1_max() -> u8 {
        7
    }

    pub const fn f2_min() -> u8 {
        0
    }

    pub const fn f2_max() -> u8 {
        7
    }

    pub const fn f3_min() -> u8 {
        0
    }

    pub const fn f3_max() -> u8 {
        7
    }
}

#[asn(sequence, extensible_after(f1))]

#[derive(Default, Debug, Clone, PartialEq, Hash)]
pub struct Ts4doome2 {
    #[asn(default(integer(0..7), 5))] pub f0: u8,
    #[asn(optional(integer(0..7)))] pub f1: Option<u8>,
    #[asn(optional(integer(0..7)))] pub f2: Option<u8>,
    #[asn(optional(integer(0..7)))] pub f3: Option<u8>,
}

impl Ts4doome2 {
    pub const fn f0_min() -> u8 {
        0
    }

    pub const fn f0_max() -> u8 {
        7
    }

    pub const fn f1_min() -> u8 {
        0
    }

    pub const fn f1_max() -> u8 {
        7
    }

    pub const fn f2_min() -> u8 {
        0
    }

    pub const fn f2_max() -> u8 {
        7
    }

    pub const fn f3_min() -> u8 {
        0
    }

    pub const fn f3_max() -> u8 {
        7
    }
}

#[asn(sequence, extensible_after(f2))]

#[derive(Default, Debug, Clone, PartialEq, Hash)]
pub struct Ts4doome3 {
    #[asn(default(integer(0..7), 5))] pub f0: u8,
    #[asn(optional(integer(0..7)))] pub f1: Option<u8>,
    #[asn(optional(integer(0..7)))] pub f2: Option<u8>,
    #[asn(optional(integer(0..7)))] pub f3: Option<u8>,
}

impl Ts4doome3 {
    pub const fn f0_min() -> u8 {
        0
    }

    pub const fn f0_max() -> u8 {
        7
    }

    pub const fn f1_min() -> u8 {
        0
    }

    pub const fn f1_max() -> u8 {
        7
    }

    pub const fn f2_min() -> u8 {
        0
    }

    pub const fn f2_max() -> u8 {
        7
    }

    pub const fn f3_min() -> u8 {
        0
    }

    pub const fn f3_max() -> u8 {
        7
    }
}

#[asn(sequence, extensible_after(f3))]

#[derive(Default, Debug, Clone, PartialEq, Hash)]
pub struct Ts4doome4 {
    #[asn(default(integer(0..7), 5))] pub f0: u8,
    #[asn(optional(integer(0..7)))] pub f1: Option<u8>,
    #[asn(optional(integer(0..7)))] pub f2: Option<u8>,
    #[asn(integer(0..7))] pub f3: u8,
}

impl Ts4doome4 {
    pub const fn f0_min() -> u8 {
        0
    }

    pub const fn f0_max() -> u8 {
        7
    }

    pub const fn f1_min() -> u8 {
        0
    }

    pub const fn f1_max() -> u8 {
        7
    }

    pub const fn f2_min() -> u8 {
        0
    }

    pub const fn f2_max() -> u8 {
        7
    }

    pub const fn f3_min() -> u8 {
        0
    }

    pub const fn f3_max() -> u8 {
        7
    }
}

#[asn(sequence)]

#[derive(Default, Debug, Clone, PartialEq, Hash)]
pub struct Ts4mdomn {
    #[asn(integer(0..7))] pub f0: u8,
    #[asn(default(integer(0..7), 5))] pub f1: u8,
    #[asn(optional(integer(0..7)))] pub f2: Option<u8>,
    #[asn(integer(0..7))] pub f3: u8,
}

impl Ts4mdomn {
    pub const fn f0_min() -> u8 {
        0
    }

    pub const fn f0_max() -> u8 {
        7
    }

    pub const fn f1_min() -> u8 {
        0
    }

    pub const fn f1_max() -> u8 {
        7
    }

    pub const fn f2_min() -> u8 {
        0
    }

    pub const fn f2_max() -> u8 {
        7
    }

    pub const fn f3_min() -> u8 {
        0
    }

    pub const fn f3_max() -> u8 {
        7
    }
}

#[asn(sequence, extensible_after(f0))]

#[derive(Default, Debug, Clone, PartialEq, Hash)]
pub struct Ts4mdome0 {
    #[asn(integer(0..7))] pub f0: u8,
    #[asn(default(integer(0..7), 5))] pub f1: u8,
    #[asn(optional(integer(0..7)))] pub f2: Option<u8>,
    #[asn(optional(integer(0..7)))] pub f3: Option<u8>,
}

impl Ts4mdome0 {
    pub const fn f0_min() -> u8 {
        0
    }

    pub const fn f0_max() -> u8 {
        7
    }

    pub const fn f1_min() -> u8 {
        0
    }

    pub const fn f1_max() -> u8 {
        7
    }

    pub const fn f2_min() -> u8 {
        0
    }

    pub const fn f2_max() -> u8 {
        7
    }

    pub const fn f3_min() -> u8 {
        0
    }

    pub const fn f3_max() -> u8 {
        7
    }
}

#[asn(sequence, extensible_after(f0))]

#[derive(Default, Debug, Clone, PartialEq, Hash)]
pub struct Ts4mdome1 {
    #[asn(integer(0..7))] pub f0: u8,
    #[asn(default(integer(0..7), 5))] pub f1: u8,
    #[asn(optional(integer(0..7)))] pub f2: Option<u8>,
    #[asn(optional(integer(0..7)))] pub f3: Option<u8>,
}

impl Ts4mdome1 {
    pub const fn f0_min() -> u8 {
        0
    }

    pub const fn f0_max() -> u8 {
        7
    }

    pub const fn f1_min() -> u8 {
        0
    }

    pub const fn f1_max() -> u8 {
        7
    }

    pub const fn f2_min() -> u8 {
        0
    }

    pub const fn f2_max() -> u8 {
        7
    }

    pub const fn f3_min() -> u8 {
        0
    }

    pub const fn f3_max() -> u8 {
        7
    }
}

#[asn(sequence, extensible_after(f1))]

#[derive(Default, Debug, Clone, PartialEq, Hash)]
pub struct Ts4mdome2 {
    #[asn(integer(0..7))] pub f0: u8,
    #[asn(default(integer(0..7), 5))] pub f1: u8,
    #[asn(optional(integer(0..7)))] pub f2: Option<u8>,
    #[asn(optional(integer(0..7)))] pub f3: Option<u8>,
}

impl Ts4mdome2 {
    pub const fn f0_min() -> u8 {
        0
    }

    pub const fn f0_max() -> u8 {
        7
    }

    pub const fn f1_min() -> u8 {
        0
    }

    pub const fn f1_max() -> u8 {
        7
    }

    pub const fn f2_min() -> u8 {
        0
    }

    pub const fn f2_max() -> u8 {
        7
    }

    pub const fn f3_min() -> u8 {
        0
    }

    pub const fn f3_max() -> u8 {
        7
    }
}

#[asn(sequence, extensible_after(f2))]

#[derive(Default, Debug, Clone, PartialEq, Hash)]
pub struct Ts4mdome3 {
    #[asn(integer(0..7))] pub f0: u8,
    #[asn(default(integer(0..7), 5))] pub f1: u8,
    #[asn(optional(integer(0..7)))] pub f2: Option<u8>,
    #[asn(optional(integer(0..7)))] pub f3: Option<u8>,
}

impl Ts4mdome3 {
    pub const fn f0_min() -> u8 {
        0
    }

    pub const fn f0_max() -> u8 {
        7
    }

    pub const fn f1_min() -> u8 {
        0
    }

    pub const fn f1_max() -> u8 {
        7
    }

    pub const fn f2_min() -> u8 {
        0
    }

    pub const fn f2_max() -> u8 {
        7
    }

    pub const fn f3_min() -> u8 {
        0
    }

    pub const fn f3_max() -> u8 {
        7
    }
}

#[asn(sequence, extensible_after(f3))]

#[derive(Default, Debug, Clone, PartialEq, Hash)]
pub struct Ts4mdome4 {
    #[asn(integer(0..7))] pub f0: u8,
    #[asn(default(integer(0..7), 5))] pub f1: u8,
    #[asn(optional(integer(0..7)))] pub f2: Option<u8>,
    #[asn(integer(0..7))] pub f3: u8,
}

impl Ts4mdome4 {
    pub const fn f0_min() -> u8 {
        0
    }

    pub const fn f0_max() -> u8 {
        7
    }

    pub const fn f1_min() -> u8 {
        0
    }

    pub const fn f1_max() -> u8 {
        7
    }

    pub const fn f2_min() -> u8 {
        0
    }

    pub const fn f2_max() -> u8 {
        7
    }

    pub const fn f3_min() -> u8 {
        0
    }

    pub const fn f3_max() -> u8 {
        7
    }
}

#[asn(sequence)]

#[derive(Default, Debug, Clone, PartialEq, Hash)]
pub struct Ts4odomn {
    #[asn(optional(integer(0..7)))] pub f0: Option<u8>,
    #[asn(default(integer(0..7), 5))] pub f1: u8,
    #[asn(optional(integer(0..7)))] pub f2: Option<u8>,
    #[asn(integer(0..7))] pub f3: u8,
}

impl Ts4odomn {
    pub const fn f0_min() -> u8 {
        0
    }

    pub const fn f0_max() -> u8 {
        7
    }

    pub const fn f1_min() -> u8 {
        0
    }

    pub const fn f1_max() -> u8 {
        7
    }

    pub const fn f2_min() -> u8 {
        0
    }

    pub const fn f2_max() -> u8 {
        7
    }

    pub const fn f3_min() -> u8 {
        0
    }

    pub const fn f3_max() -> u8 {
        7
    }
}

#[asn(sequence, extensible_after(f0))]

#[derive(Default, Debug, Clone, PartialEq, Hash)]
pub struct Ts4odome0 {
    #[asn(optional(integer(0..7)))] pub f0: Option<u8>,
    #[asn(default(integer(0..7), 5))] pub f1: u8,
    #[asn(optional(integer(0..7)))] pub f2: Option<u8>,
    #[asn(optional(integer(0..7)))] pub f3: Option<u8>,
}

impl Ts4odome0 {
    pub const fn f0_min() -> u8 {
        0
    }

    pub const fn f0_max() -> u8 {
        7
    }

    pub const fn f1_min() -> u8 {
        0
    }

    pub const fn f1_max() -> u8 {
        7
    }

    pub const fn f2_min() -> u8 {
        0
    }

    pub const fn f2_max() -> u8 {
        7
    }

    pub const fn f3_min() -> u8 {
        0
    }

    pub const fn f3_max() -> u8 {
        7
    }
}

#[asn(sequence, extensible_after(f0))]

#[derive(Default, Debug, Clone, PartialEq, Hash)]
pub struct Ts4odome1 {
    #[asn(optional(integer(0..7)))] pub f0: Option<u8>,
    #[asn(default(integer(0..7), 5))] pub f1: u8,
    #[asn(optional(integer(0..7)))] pub f2: Option<u8>,
    #[asn(optional(integer(0..7)))] pub f3: Option<u8>,
}

impl Ts4odome1 {
    pub const fn f0_min() -> u8 {
        0
    }

    pub const fn f0_max() -> u8 {
        7
    }

    pub const fn f1_min() -> u8 {
        0
    }

    pub const fn f1_max() -> u8 {
        7
    }

    pub const fn f2_min() -> u8 {
        0
    }

    pub const fn f2_max() -> u8 {
        7
    }

    pub const fn f3_min() -> u8 {
        0
    }

    pub const fn f3_max() -> u8 {
        7
    }
}

#[asn(sequence, extensible_after(f1))]

#[derive(Default, Debug, Clone, PartialEq, Hash)]
pub struct Ts4odome2 {
    #[asn(optional(integer(0..7)))] pub f0: Option<u8>,
    #[asn(default(integer(0..7), 5))] pub f1: u8,
    #[asn(optional(integer(0..7)))] pub f2: Option<u8>,
    #[asn(optional(integer(0..7)))] pub f3: Option<u8>,
}

impl Ts4odome2 {
    pub const fn f0_min() -> u8 {
        0
    }

    pub const fn f0_max() -> u8 {
        7
    }

    pub const fn f1_min() -> u8 {
        0
    }

    pub const fn f1_max() -> u8 {
        7
    }

    pub const fn f2_min() -> u8 {
        0
    }

    pub const fn f2_max() -> u8 {
        7
    }

    pub const fn f3_min() -> u8 {
        0
    }

    pub const fn f3_max() -> u8 {
        7
    }
}

#[asn(sequence, extensible_after(f2))]

#[derive(Default, Debug, Clone, PartialEq, Hash)]
pub struct Ts4odome3 {
    #[asn(optional(integer(0..7)))] pub f0: Option<u8>,
    #[asn(default(integer(0..7), 5))] pub f1: u8,
    #[asn(optional(integer(0..7)))] pub f2: Option<u8>,
    #[asn(optional(integer(0..7)))] pub f3: Option<u8>,
}

impl Ts4odome3 {
    pub const fn f0_min() -> u8 {
        0
    }

    pub const fn f0_max() -> u8 {
        7
    }

    pub const fn f1_min() -> u8 {
        0
    }

    pub const fn f1_max() -> u8 {
        7
    }

    pub const fn f2_min() -> u8 {
        0
    }

    pub const fn f2_max() -> u8 {
        7
    }

    pub const fn f3_min() -> u8 {
        0
    }

    pub const fn f3_max() -> u8 {
        7
    }
}

#[asn(sequence, extensible_after(f3))]

#[derive(Default, Debug, Clone, PartialEq, Hash)]
pub struct Ts4odome4 {
    #[asn(optional(integer(0..7)))] pub f0: Option<u8>,
    #[asn(default(integer(0..7), 5))] pub f1: u8,
    #[asn(optional(integer(0..7)))] pub f2: Option<u8>,
    #[asn(integer(0..7))] pub f3: u8,
}

impl Ts4odome4 {
    pub const fn f0_min() -> u8 {
        0
    }

    pub const fn f0_max() -> u8 {
        7
    }

    pub const fn f1_min() -> u8 {
        0
    }

    pub const fn f1_max() -> u8 {
        7
    }

    pub const fn f2_min() -> u8 {
        0
    }

    pub const fn f2_max() -> u8 {
        7
    }

    pub const fn f3_min() -> u8 {
        0
    }

    pub const fn f3_max() -> u8 {
        7
    }
}

#[asn(sequence)]

#[derive(Default, Debug, Clone, PartialEq, Hash)]
pub struct Ts4ddomn {
    #[asn(default(integer(0..7), 5))] pub f0: u8,
    #[asn(default(integer(0..7), 5))] pub f1: u8,
    #[asn(optional(integer(0..7)))] pub f2: Option<u8>,
    #[asn(integer(0..7))] pub f3: u8,
}

impl Ts4ddomn {
    pub const fn f0_min() -> u8 {
        0
    }

    pub const fn f0_max() -> u8 {
        7
    }

    pub const fn f1_min() -> u8 {
        0
    }

    pub const fn f1_max() -> u8 {
        7
    }

    pub const fn f2_min() -> u8 {
        0
    }

    pub const fn f2_max() -> u8 {
        7
    }

    pub const fn f3_min() -> u8 {
        0
    }

    pub const fn f3_max() -> u8 {
        7
    }
}

#[asn(sequence, extensible_after(f0))]

#[derive(Default, Debug, Clone, PartialEq, Hash)]
pub struct Ts4ddome0 {
    #[asn(default(integer(0..7), 5))] pub f0: u8,
    #[asn(default(integer(0..7), 5))] pub f1: u8,
    #[asn(optional(integer(0..7)))] pub f2: Option<u8>,
    #[asn(optional(integer(0..7)))] pub f3: Option<u8>,
}

impl Ts4ddome0 {
    pub const fn f0_min() -> u8 {
        0
    }

    pub const fn f0_max() -> u8 {
        7
    }

    pub const fn f1_min() -> u8 {
        0
    }

    pub const fn f1_max() -> u8 {
        7
    }

    pub const fn f2_min() -> u8 {
        0
    }

    pub const fn f2_max() -> u8 {
        7
    }

    pub const fn f3_min() -> u8 {
        0
    }

    pub const fn f3_max() -> u8 {
        7
    }
}

#[asn(sequence, extensible_after(f0))]

#[derive(Default, Debug, Clone, PartialEq, Hash)]
pub struct Ts4ddome1 {
    #[asn(default(integer(0..7), 5))] pub f0: u8,
    #[asn(default(integer(0..7), 5))] pub f1: u8,
    #[asn(optional(integer(0..7)))] pub f2: Option<u8>,
    #[asn(optional(integer(0..7)))] pub f3: Option<u8>,
}

impl Ts4ddome1 {
    pub const fn f0_min() -> u8 {
        0
    }

    pub const fn f0_max() -> u8 {
        7
    }

    pub const fn f1_min() -> u8 {
        0
    }

    pub const fn f1_max() -> u8 {
        7
    }

    pub const fn f2_min() -> u8 {
        0
    }

    pub const fn f2_max() -> u8 {
        7
    }

    pub const fn f3_min() -> u8 {
        0
    }

    pub const fn f3_max() -> u8 {
        7
    }
}

#[asn(sequence, extensible_after(f1))]

#[derive(Default, Debug, Clone, PartialEq, Hash)]
pub struct Ts4ddome2 {
    #[asn(default(integer(0..7), 5))] pub f0: u8,
    #[asn(default(integer(0..7), 5))] pub f1: u8,
    #[asn(optional(integer(0..7)))] pub f2: Option<u8>,
    #[asn(optional(integer(0..7)))] pub f3: Option<u8>,
}

impl Ts4ddome2 {
    pub const fn f0_min() -> u8 {
        0
    }

    pub const fn f0_max() -> u8 {
        7
    }

    pub const fn f1_min() -> u8 {
        0
    }

    pub const fn f1_max() -> u8 {
        7
    }

    pub const fn f2_min() -> u8 {
        0
    }

    pub const fn f2_max() -> u8 {
        7
    }

    pub const fn f3_min() -> u8 {
        0
    }

    pub const fn f3_max() -> u8 {
        7
    }
}

#[asn(sequence, extensible_after(f2))]

#[derive(Default, Debug, Clone, PartialEq, Hash)]
pub struct Ts4ddome3 {
    #[asn(default(integer(0..7), 5))] pub f0: u8,
    #[asn(default(integer(0..7), 5))] pub f1: u8,
    #[asn(optional(integer(0..7)))] pub f2: Option<u8>,
    #[asn(optional(integer(0..7)))] pub f3: Option<u8>,
}

impl Ts4ddome3 {
    pub const fn f0_min() -> u8 {
        0
    }

    pub const fn f0_max() -> u8 {
        7
    }

    pub const fn f1_min() -> u8 {
        0
    }

    pub const fn f1_max() -> u8 {
        7
    }

    pub const fn f2_min() -> u8 {
        0
    }

    pub const fn f2_max() -> u8 {
        7
    }

    pub const fn f3_min() -> u8 {
        0
    }

    pub const fn f3_max() -> u8 {
        7
    }
}

#[asn(sequence, extensible_after(f3))]

#[derive(Default, Debug, Clone, PartialEq, Hash)]
pub struct Ts4ddome4 {
    #[asn(default(integer(0..7), 5))] pub f0: u8,
    #[asn(default(integer(0..7), 5))] pub f1: u8,
    #[asn(optional(integer(0..7)))] pub f2: Option<u8>,
    #[asn(integer(0..7))] pub f3: u8,
}

impl Ts4ddome4 {
    pub const fn f0_min() -> u8 {
        0
    }

    pub const fn f0_max() -> u8 {
        7
    }

    pub const fn f1_min() -> u8 {
        0
    }

    pub const fn f1_max() -> u8 {
        7
    }

    pub const fn f2_min() -> u8 {
        0
    }

    pub const fn f2_max() -> u8 {
        7
    }

    pub const fn f3_min() -> u8 {
        0
    }

    pub const fn f3_max() -> u8 {
        7
    }
}

#[asn(sequence)]

#[derive(Default, Debug, Clone, PartialEq, Hash)]
pub struct Ts4mmdmn {
    #[asn(integer(0..7))] pub f0: u8,
    #[asn(integer(0..7))] pub f1: u8,
    #[asn(default(integer(0..7), 5))] pub f2: u8,
    #[asn(integer(0..7))] pub f3: u8,
}

impl Ts4mmdmn {
    pub const fn f0_min() -> u8 {
        0
    }

    pub const fn f0_max() -> u8 {
        7
    }

    pub const fn f1_min() -> u8 {
        0
    }

    pub const fn f1_max() -> u8 {
        7
    }

    pub const fn f2_min() -> u8 {
        0
    }

    pub const fn f2_max() -> u8 {
        7
    }

    pub const fn f3_min() -> u8 {
        0
    }

    pub const fn f3_max() -> u8 {
        7
    }
}

#[asn(sequence, extensible_after(f0))]

#[derive(Default, Debug, Clone, PartialEq, Hash)]
pub struct Ts4mmdme0 {
    #[asn(integer(0..7))] pub f0: u8,
    #[asn(optional(integer(0..7)))] pub f1: Option<u8>,
    #[asn(default(integer(0..7), 5))] pub f2: u8,
    #[asn(optional(integer(0..7)))] pub f3: Option<u8>,
}

impl Ts4mmdme0 {
    pub const fn f0_min() -> u8 {
        0
    }

    pub const fn f0_max() -> u8 {
        7
    }

    pub const fn f1_min() -> u8 {
        0
    }

    pub const fn f1_max() -> u8 {
        7
    }

    pub const fn f2_min() -> u8 {
        0
    }

    pub const fn f2_max() -> u8 {
        7
    }

    pub const fn f3_min() -> u8 {
        0
    }

    pub const fn f3_max() -> u8 {
        7
    }
}

#[asn(sequence, extensible_after(f0))]

#[derive(Default, Debug, Clone, PartialEq, Hash)]
pub struct Ts4mmdme1 {
    #[asn(integer(0..7))] pub f0: u8,
    #[asn(optional(integer(0..7)))] pub f1: Option<u8>,
    #[asn(default(integer(0..7), 5))] pub f2: u8,
    #[asn(optional(integer(0..7)))] pub f3: Option<u8>,
}

impl Ts4mmdme1 {
    pub const fn f0_min() -> u8 {
        0
    }

    pub const fn f0_max() -> u8 {
        7
    }

    pub const fn f1_min() -> u8 {
        0
    }

    pub const fn f1_max() -> u8 {
        7
    }

    pub const fn f2_min() -> u8 {
        0
    }

    pub const fn f2_max() -> u8 {
        7
    }

    pub const fn f3_min() -> u8 {
        0
    }

    pub const fn f3_max() -> u8 {
        7
    }
}

#[asn(sequence, extensible_after(f1))]

#[derive(Default, Debug, Clone, PartialEq, Hash)]
pub struct Ts4mmdme2 {
    #[asn(integer(0..7))] pub f0: u8,
    #[asn(integer(0..7))] pub f1: u8,
    #[asn(default(integer(0..7), 5))] pub f2: u8,
    #[asn(optional(integer(0..7)))] pub f3: Option<u8>,
}

impl Ts4mmdme2 {
    pub const fn f0_min() -> u8 {
        0
    }

    pub const fn f0_max() -> u8 {
        7
    }

    pub const fn f1_min() -> u8 {
        0
    }

    pub const fn f1_max() -> u8 {
        7
    }

    pub const fn f2_min() -> u8 {
        0
    }

    pub const fn f2_max() -> u8 {
        7
    }

    pub const fn f3_min() -> u8 {
        0
    }

    pub const fn f3_max() -> u8 {
        7
    }
}

#[asn(sequence, extensible_after(f2))]

#[derive(Default, Debug, Clone, PartialEq, Hash)]
pub struct Ts4mmdme3 {
    #[asn(integer(0..7))] pub f0: u8,
    #[asn(integer(0..7))] pub f1: u8,
    #[asn(default(integer(0..7), 5))] pub f2: u8,
    #[asn(optional(integer(0..7)))] pub f3: Option<u8>,
}

impl Ts4mmdme3 {
    pub const fn f0_min() -> u8 {
        0
    }

    pub const fn f0_max() -> u8 {
        7
    }

    pub const fn f1_min() -> u8 {
        0
    }

    pub const fn f1_max() -> u8 {
        7
    }

    pub const fn f2_min() -> u8 {
        0
    }

    pub const fn f2_max() -> u8 {
        7
    }

    pub const fn f3_min() -> u8 {
        0
    }

    pub const fn f3_max() -> u8 {
        7
    }
}

#[asn(sequence, extensible_after(f3))]

#[derive(Default, Debug, Clone, PartialEq, Hash)]
pub struct Ts4mmdme4 {
    #[asn(integer(0..7))] pub f0: u8,
    #[asn(integer(0..7))] pub f1: u8,
    #[asn(default(integer(0..7), 5))] pub f2: u8,
    #[asn(integer(0..7))] pub f3: u8,
}

impl Ts4mmdme4 {
    pub const fn f0_min() -> u8 {
        0
    }

    pub const fn f0_max() -> u8 {
        7
    }

    pub const fn f1_min() -> u8 {
        0
    }

    pub const fn f1_max() -> u8 {
        7
    }

    pub const fn f2_min() -> u8 {
        0
    }

    pub const fn f2_max() -> u8 {
        7
    }

    pub const fn f3_min() -> u8 {
        0
    }

    pub const fn f3_max() -> u8 {
        7
    }
}

#[asn(sequence)]

#[derive(Default, Debug, Clone, PartialEq, Hash)]
pub struct Ts4omdmn {
    #[asn(optional(integer(0..7)))] pub f0: Option<u8>,
    #[asn(integer(0..7))] pub f1: u8,
    #[asn(default(integer(0..7), 5))] pub f2: u8,
    #[asn(integer(0..7))] pub f3: u8,
}

impl Ts4omdmn {
    pub const fn f0_min() -> u8 {
        0
    }

    pub const fn f0_max() -> u8 {
        7
    }

    pub const fn f1_min() -> u8 {
        0
    }

    pub const fn f1_max() -> u8 {
        7
    }

    pub const fn f2_min() -> u8 {
        0
    }

    pub const fn f2_max() -> u8 {
        7
    }

    pub const fn f3_min() -> u8 {
        0
    }

    pub const fn f3_max() -> u8 {
        7
    }
}

#[asn(sequence, extensible_after(f0))]

#[derive(Default, Debug, Clone, PartialEq, Hash)]
pub struct Ts4omdme0 {
    #[asn(optional(integer(0..7)))] pub f0: Option<u8>,
    #[asn(optional(integer(0..7)))] pub f1: Option<u8>,
    #[asn(default(integer(0..7), 5))] pub f2: u8,
    #[asn(optional(integer(0..7)))] pub f3: Option<u8>,
}

impl Ts4omdme0 {
    pub const fn f0_min() -> u8 {
        0
    }

    pub const fn f0_max() -> u8 {
        7
    }

    pub const fn f1_min() -> u8 {
        0
    }

    pub const fn f1_max() -> u8 {
        7
    }

    pub const fn f2_min() -> u8 {
        0
    }

    pub const fn f2_max() -> u8 {
        7
    }

    pub const fn f3_min() -> u8 {
        0
    }

    pub const fn f3_max() -> u8 {
        7
    }
}

#[asn(sequence, extensible_after(f0))]

#[derive(Default, Debug, Clone, PartialEq, Hash)]
pub struct Ts4omdme1 {
    #[asn(optional(integer(0..7)))] pub f0: Option<u8>,
    #[asn(optional(integer(0..7)))] pub f1: Option<u8>,
    #[asn(default(integer(0..7), 5))] pub f2: u8,
    #[asn(optional(integer(0..7)))] pub f3: Option<u8>,
}

impl Ts4omdme1 {
    pub const fn f0_min() -> u8 {
        0
    }

    pub const fn f0_max() -> u8 {
        7
    }

    pub const fn f1_min() -> u8 {
        0
    }

    pub const fn f1_max() -> u8 {
        7
    }

    pub const fn f2_min() -> u8 {
        0
    }

    pub const fn f2_max() -> u8 {
        7
    }

    pub const fn f3_min() -> u8 {
        0
    }

    pub const fn f3_max() -> u8 {
        7
    }
}

#[asn(sequence, extensible_after(f1))]

#[derive(Default, Debug, Clone, PartialEq, Hash)]
pub struct Ts4omdme2 {
    #[asn(optional(integer(0..7)))] pub f0: Option<u8>,
    #[asn(integer(0..7))] pub f1: u8,
    #[asn(default(integer(0..7), 5))] pub f2: u8,
    #[asn(optional(integer(0..7)))] pub f3: Option<u8>,
}

impl Ts4omdme2 {
    pub const fn f0_min() -> u8 {
        0
    }

    pub const fn f0_max() -> u8 {
        7
    }

    pub const fn f1_min() -> u8 {
        0
    }

    pub const fn f1_max() -> u8 {
        7
    }

    pub const fn f2_min() -> u8 {
        0
    }

    pub const fn f2_max() -> u8 {
        7
    }

    pub const fn f3_min() -> u8 {
        0
    }

    pub const fn f3_max() -> u8 {
        7
    }
}

#[asn(sequence, extensible_after(f2))]

#[derive(Default, Debug, Clone, PartialEq, Hash)]
pub struct Ts4omdme3 {
    #[asn(optional(integer(0..7)))] pub f0: Option<u8>,
    #[asn(integer(0..7))] pub f1: u8,
    #[asn(default(integer(0..7), 5))] pub f2: u8,
    #[asn(optional(integer(0..7)))] pub f3: Option<u8>,
}

impl Ts4omdme3 {
    pub const fn f0_min() -> u8 {
        0
    }

    pub const fn f0_max() -> u8 {
        7
    }

    pub const fn f1_min() -> u8 {
        0
    }

    pub const fn f1_max() -> u8 {
        7
    }

    pub const fn f2_min() -> u8 {
        0
    }

    pub const fn f2_max() -> u8 {
        7
    }

    pub const fn f3_min() -> u8 {
        0
    }

    pub const fn f3_max() -> u8 {
        7
    }
}

#[asn(sequence, extensible_after(f3))]

#[derive(Default, Debug, Clone, PartialEq, Hash)]
pub struct Ts4omdme4 {
    #[asn(optional(integer(0..7)))] pub f0: Option<u8>,
    #[asn(integer(0..7))] pub f1: u8,
    #[asn(default(integer(0..7), 5))] pub f2: u8,
    #[asn(integer(0..7))] pub f3: u8,
}

impl Ts4omdme4 {
    pub const fn f0_min() -> u8 {
        0
    }

    pub const fn f0_max() -> u8 {
        7
    }

    pub const fn f1_min() -> u8 {
        0
    }

    pub const fn f1_max() -> u8 {
        7
    }

    pub const fn f2_min() -> u8 {
        0
    }

    pub const fn f2_max() -> u8 {
        7
    }

    pub const fn f3_min() -> u8 {
        0
    }

    pub const fn f3_max() -> u8 {
        7
    }
}
// ---- harness conversions (generated by the zoo build script from the items above) ----
impl FromValue for Ts4mmmmn {
    fn from_value(v: &Value) -> Self {
        let s = match v { Value::Seq(s) => s, other => panic!("Ts4mmmmn: expected Seq, got {other:?}") };
        assert_eq!(s.len(), 4, "Ts4mmmmn: component count");
        let _ = s;
        Ts4mmmmn {
            f0: FromValue::from_value(s[0].as_ref().expect("component f0 of Ts4mmmmn must be present")),
            f1: FromValue::from_value(s[1].as_ref().expect("component f1 of Ts4mmmmn must be present")),
            f2: FromValue::from_value(s[2].as_ref().expect("component f2 of Ts4mmmmn must be present")),
            f3: FromValue::from_value(s[3].as_ref().expect("component f3 of Ts4mmmmn must be present")),
        }
    }
}
impl ToValue for Ts4mmmmn {
    fn to_value(&self) -> Value {
        Value::Seq(vec![
            Some(self.f0.to_value()),
            Some(self.f1.to_value()),
            Some(self.f2.to_value()),
            Some(self.f3.to_value()),
        ])
    }
}
impl FromValue for Ts4mmmme0 {
    fn from_value(v: &Value) -> Self {
        let s = match v { Value::Seq(s) => s, other => panic!("Ts4mmmme0: expected Seq, got {other:?}") };
        assert_eq!(s.len(), 4, "Ts4mmmme0: component count");
        let _ = s;
        Ts4mmmme0 {
            f0: FromValue::from_value(s[0].as_ref().expect("component f0 of Ts4mmmme0 must be present")),
            f1: s[1].as_ref().map(FromValue::from_value),
            f2: s[2].as_ref().map(FromValue::from_value),
            f3: s[3].as_ref().map(FromValue::from_value),
        }
    }
}
impl ToValue for Ts4mmmme0 {
    fn to_value(&self) -> Value {
        Value::Seq(vec![
            Some(self.f0.to_value()),
            self.f1.as_ref().map(|x| x.to_value()),
            self.f2.as_ref().map(|x| x.to_value()),
            self.f3.as_ref().map(|x| x.to_value()),
        ])
    }
}
impl FromValue for Ts4mmmme1 {
    fn from_value(v: &Value) -> Self {
        let s = match v { Value::Seq(s) => s, other => panic!("Ts4mmmme1: expected Seq, got {other:?}") };
        assert_eq!(s.len(), 4, "Ts4mmmme1: component count");
        let _ = s;
        Ts4mmmme1 {
            f0: FromValue::from_value(s[0].as_ref().expect("component f0 of Ts4mmmme1 must be present")),
            f1: s[1].as_ref().map(FromValue::from_value),
            f2: s[2].as_ref().map(FromValue::from_value),
            f3: s[3].as_ref().map(FromValue::from_value),
        }
    }
}
impl ToValue for Ts4mmmme1 {
    fn to_value(&self) -> Value {
        Value::Seq(vec![
            Some(self.f0.to_value()),
            self.f1.as_ref().map(|x| x.to_value()),
            self.f2.as_ref().map(|x| x.to_value()),
            self.f3.as_ref().map(|x| x.to_value()),
        ])
    }
}
impl FromValue for Ts4mmmme2 {
    fn from_value(v: &Value) -> Self {
        let s = match v { Value::Seq(s) => s, other => panic!("Ts4mmmme2: expected Seq, got {other:?}") };
        assert_eq!(s.len(), 4, "Ts4mmmme2: component count");
        let _ = s;
        Ts4mmmme2 {
            f0: FromValue::from_value(s[0].as_ref().expect("component f0 of Ts4mmmme2 must be present")),
            f1: FromValue::from_value(s[1].as_ref().expect("component f1 of Ts4mmmme2 must be present")),
            f2: s[2].as_ref().map(FromValue::from_value),
            f3: s[3].as_ref().map(FromValue::from_value),
        }
    }
}
impl ToValue for Ts4mmmme2 {
    fn to_value(&self) -> Value {
        Value::Seq(vec![
            Some(self.f0.to_value()),
            Some(self.f1.to_value()),
            self.f2.as_ref().map(|x| x.to_value()),
            self.f3.as_ref().map(|x| x.to_value()),
        ])
    }
}
impl FromValue for Ts4mmmme3 {
    fn from_value(v: &Value) -> Self {
        let s = match v { Value::Seq(s) => s, other => panic!("Ts4mmmme3: expected Seq, got {other:?}") };
        assert_eq!(s.len(), 4, "Ts4mmmme3: component count");
        let _ = s;
        Ts4mmmme3 {
            f0: FromValue::from_value(s[0].as_ref().expect("component f0 of Ts4mmmme3 must be present")),
            f1: FromValue::from_value(s[1].as_ref().expect("component f1 of Ts4mmmme3 must be present")),
            f2: FromValue::from_value(s[2].as_ref().expect("component f2 of Ts4mmmme3 must be present")),
            f3: s[3].as_ref().map(FromValue::from_value),
        }
    }
}
impl ToValue for Ts4mmmme3 {
    fn to_value(&self) -> Value {
        Value::Seq(vec![
            Some(self.f0.to_value()),
            Some(self.f1.to_value()),
            Some(self.f2.to_value()),
            self.f3.as_ref().map(|x| x.to_value()),
        ])
    }
}
impl FromValue for Ts4mmmme4 {
    fn from_value(v: &Value) -> Self {
        let s = match v { Value::Seq(s) => s, other => panic!("Ts4mmmme4: expected Seq, got {other:?}") };
        assert_eq!(s.len(), 4, "Ts4mmmme4: component count");
        let _ = s;
        Ts4mmmme4 {
            f0: FromValue::from_value(s[0].as_ref().expect("component f0 of Ts4mmmme4 must be present")),
            f1: FromValue::from_value(s[1].as_ref().expect("component f1 of Ts4mmmme4 must be present")),
            f2: FromValue::from_value(s[2].as_ref().expect("component f2 of Ts4mmmme4 must be present")),
            f3: FromValue::from_value(s[3].as_ref().expect("component f3 of Ts4mmmme4 must be present")),
        }
    }
}
impl ToValue for Ts4mmmme4 {
    fn to_value(&self) -> Value {
        Value::Seq(vec![
            Some(self.f0.to_value()),
            Some(self.f1.to_value()),
            Some(self.f2.to_value()),
            Some(self.f3.to_value()),
        ])
    }
}
impl FromValue for Ts4ommmn {
    fn from_value(v: &Value) -> Self {
        let s = match v { Value::Seq(s) => s, other => panic!("Ts4ommmn: expected Seq, got {other:?}") };
        assert_eq!(s.len(), 4, "Ts4ommmn: component count");
        let _ = s;
        Ts4ommmn {
            f0: s[0].as_ref().map(FromValue::from_value),
            f1: FromValue::from_value(s[1].as_ref().expect("component f1 of Ts4ommmn must be present")),
            f2: FromValue::from_value(s[2].as_ref().expect("component f2 of Ts4ommmn must be present")),
            f3: FromValue::from_value(s[3].as_ref().expect("component f3 of Ts4ommmn must be present")),
        }
    }
}
impl ToValue for Ts4ommmn {
    fn to_value(&self) -> Value {
        Value::Seq(vec![
            self.f0.as_ref().map(|x| x.to_value()),
            Some(self.f1.to_value()),
            Some(self.f2.to_value()),
            Some(self.f3.to_value()),
        ])
    }
}
impl FromValue for Ts4ommme0 {
    fn from_value(v: &Value) -> Self {
        let s = match v { Value::Seq(s) => s, other => panic!("Ts4ommme0: expected Seq, got {other:?}") };
        assert_eq!(s.len(), 4, "Ts4ommme0: component count");
        let _ = s;
        Ts4ommme0 {
            f0: s[0].as_ref().map(FromValue::from_value),
            f1: s[1].as_ref().map(FromValue::from_value),
            f2: s[2].as_ref().map(FromValue::from_value),
            f3: s[3].as_ref().map(FromValue::from_value),
        }
    }
}
impl ToValue for Ts4ommme0 {
    fn to_value(&self) -> Value {
        Value::Seq(vec![
            self.f0.as_ref().map(|x| x.to_value()),
            self.f1.as_ref().map(|x| x.to_value()),
            self.f2.as_ref().map(|x| x.to_value()),
            self.f3.as_ref().map(|x| x.to_value()),
        ])
    }
}
impl FromValue for Ts4ommme1 {
    fn from_value(v: &Value) -> Self {
        let s = match v { Value::Seq(s) => s, other => panic!("Ts4ommme1: expected Seq, got {other:?}") };
        assert_eq!(s.len(), 4, "Ts4ommme1: component count");
        let _ = s;
        Ts4ommme1 {
            f0: s[0].as_ref().map(FromValue::from_value),
            f1: s[1].as_ref().map(FromValue::from_value),
            f2: s[2].as_ref().map(FromValue::from_value),
            f3: s[3].as_ref().map(FromValue::from_value),
        }
    }
}
impl ToValue for Ts4ommme1 {
    fn to_value(&self) -> Value {
        Value::Seq(vec![
            self.f0.as_ref().map(|x| x.to_value()),
            self.f1.as_ref().map(|x| x.to_value()),
            self.f2.as_ref().map(|x| x.to_value()),
            self.f3.as_ref().map(|x| x.to_value()),
        ])
    }
}
impl FromValue for Ts4ommme2 {
    fn from_value(v: &Value) -> Self {
        let s = match v { Value::Seq(s) => s, other => panic!("Ts4ommme2: expected Seq, got {other:?}") };
        assert_eq!(s.len(), 4, "Ts4ommme2: component count");
        let _ = s;
        Ts4ommme2 {
            f0: s[0].as_ref().map(FromValue::from_value),
            f1: FromValue::from_value(s[1].as_ref().expect("component f1 of Ts4ommme2 must be present")),
            f2: s[2].as_ref().map(FromValue::from_value),
            f3: s[3].as_ref().map(FromValue::from_value),
        }
    }
}
impl ToValue for Ts4ommme2 {
    fn to_value(&self) -> Value {
        Value::Seq(vec![
            self.f0.as_ref().map(|x| x.to_value()),
            Some(self.f1.to_value()),
            self.f2.as_ref().map(|x| x.to_value()),
            self.f3.as_ref().map(|x| x.to_value()),
        ])
    }
}
impl FromValue for Ts4ommme3 {
    fn from_value(v: &Value) -> Self {
        let s = match v { Value::Seq(s) => s, other => panic!("Ts4ommme3: expected Seq, got {other:?}") };
        assert_eq!(s.len(), 4, "Ts4ommme3: component count");
        let _ = s;
        Ts4ommme3 {
            f0: s[0].as_ref().map(FromValue::from_value),
            f1: FromValue::from_value(s[1].as_ref().expect("component f1 of Ts4ommme3 must be present")),
            f2: FromValue::from_value(s[2].as_ref().expect("component f2 of Ts4ommme3 must be present")),
            f3: s[3].as_ref().map(FromValue::from_value),
        }
    }
}
impl ToValue for Ts4ommme3 {
    fn to_value(&self) -> Value {
        Value::Seq(vec![
            self.f0.as_ref().map(|x| x.to_value()),
            Some(self.f1.to_value()),
            Some(self.f2.to_value()),
            self.f3.as_ref().map(|x| x.to_value()),
        ])
    }
}
impl FromValue for Ts4ommme4 {
    fn from_value(v: &Value) -> Self {
        let s = match v { Value::Seq(s) => s, other => panic!("Ts4ommme4: expected Seq, got {other:?}") };
        assert_eq!(s.len(), 4, "Ts4ommme4: component count");
        let _ = s;
        Ts4ommme4 {
            f0: s[0].as_ref().map(FromValue::from_value),
            f1: FromValue::from_value(s[1].as_ref().expect("component f1 of Ts4ommme4 must be present")),
            f2: FromValue::from_value(s[2].as_ref().expect("component f2 of Ts4ommme4 must be present")),
            f3: FromValue::from_value(s[3].as_ref().expect("component f3 of Ts4ommme4 must be present")),
        }
    }
}
impl ToValue for Ts4ommme4 {
    fn to_value(&self) -> Value {
        Value::Seq(vec![
            self.f0.as_ref().map(|x| x.to_value()),
            Some(self.f1.to_value()),
            Some(self.f2.to_value()),
            Some(self.f3.to_value()),
        ])
    }
}
impl FromValue for Ts4dmmmn {
    fn from_value(v: &Value) -> Self {
        let s = match v { Value::Seq(s) => s, other => panic!("Ts4dmmmn: expected Seq, got {other:?}") };
        assert_eq!(s.len(), 4, "Ts4dmmmn: component count");
        let _ = s;
        Ts4dmmmn {
            f0: FromValue::from_value(s[0].as_ref().expect("component f0 of Ts4dmmmn must be present")),
            f1: FromValue::from_value(s[1].as_ref().expect("component f1 of Ts4dmmmn must be present")),
            f2: FromValue::from_value(s[2].as_ref().expect("component f2 of Ts4dmmmn must be present")),
            f3: FromValue::from_value(s[3].as_ref().expect("component f3 of Ts4dmmmn must be present")),
        }
    }
}
impl ToValue for Ts4dmmmn {
    fn to_value(&self) -> Value {
        Value::Seq(vec![
            Some(self.f0.to_value()),
            Some(self.f1.to_value()),
            Some(self.f2.to_value()),
            Some(self.f3.to_value()),
        ])
    }
}
impl FromValue for Ts4dmmme0 {
    fn from_value(v: &Value) -> Self {
        let s = match v { Value::Seq(s) => s, other => panic!("Ts4dmmme0: expected Seq, got {other:?}") };
        assert_eq!(s.len(), 4, "Ts4dmmme0: component count");
        let _ = s;
        Ts4dmmme0 {
            f0: FromValue::from_value(s[0].as_ref().expect("component f0 of Ts4dmmme0 must be present")),
            f1: s[1].as_ref().map(FromValue::from_value),
            f2: s[2].as_ref().map(FromValue::from_value),
            f3: s[3].as_ref().map(FromValue::from_value),
        }
    }
}
impl ToValue for Ts4dmmme0 {
    fn to_value(&self) -> Value {
        Value::Seq(vec![
            Some(self.f0.to_value()),
            self.f1.as_ref().map(|x| x.to_value()),
            self.f2.as_ref().map(|x| x.to_value()),
            self.f3.as_ref().map(|x| x.to_value()),
        ])
    }
}
impl FromValue for Ts4dmmme1 {
    fn from_value(v: &Value) -> Self {
        let s = match v { Value::Seq(s) => s, other => panic!("Ts4dmmme1: expected Seq, got {other:?}") };
        assert_eq!(s.len(), 4, "Ts4dmmme1: component count");
        let _ = s;
        Ts4dmmme1 {
            f0: FromValue::from_value(s[0].as_ref().expect("component f0 of Ts4dmmme1 must be present")),
            f1: s[1].as_ref().map(FromValue::from_value),
            f2: s[2].as_ref().map(FromValue::from_value),
            f3: s[3].as_ref().map(FromValue::from_value),
        }
    }
}
impl ToValue for Ts4dmmme1 {
    fn to_value(&self) -> Value {
        Value::Seq(vec![
            Some(self.f0.to_value()),
            self.f1.as_ref().map(|x| x.to_value()),
            self.f2.as_ref().map(|x| x.to_value()),
            self.f3.as_ref().map(|x| x.to_value()),
        ])
    }
}
impl FromValue for Ts4dmmme2 {
    fn from_value(v: &Value) -> Self {
        let s = match v { Value::Seq(s) => s, other => panic!("Ts4dmmme2: expected Seq, got {other:?}") };
        assert_eq!(s.len(), 4, "Ts4dmmme2: component count");
        let _ = s;
        Ts4dmmme2 {
            f0: FromValue::from_value(s[0].as_ref().expect("component f0 of Ts4dmmme2 must be present")),
            f1: FromValue::from_value(s[1].as_ref().expect("component f1 of Ts4dmmme2 must be present")),
            f2: s[2].as_ref().map(FromValue::from_value),
            f3: s[3].as_ref().map(FromValue::from_value),
        }
    }
}
impl ToValue for Ts4dmmme2 {
    fn to_value(&self) -> Value {
        Value::Seq(vec![
            Some(self.f0.to_value()),
            Some(self.f1.to_value()),
            self.f2.as_ref().map(|x| x.to_value()),
            self.f3.as_ref().map(|x| x.to_value()),
        ])
    }
}
impl FromValue for Ts4dmmme3 {
    fn from_value(v: &Value) -> Self {
        let s = match v { Value::Seq(s) => s, other => panic!("Ts4dmmme3: expected Seq, got {other:?}") };
        assert_eq!(s.len(), 4, "Ts4dmmme3: component count");
        let _ = s;
        Ts4dmmme3 {
            f0: FromValue::from_value(s[0].as_ref().expect("component f0 of Ts4dmmme3 must be present")),
            f1: FromValue::from_value(s[1].as_ref().expect("component f1 of Ts4dmmme3 must be present")),
            f2: FromValue::from_value(s[2].as_ref().expect("component f2 of Ts4dmmme3 must be present")),
            f3: s[3].as_ref().map(FromValue::from_value),
        }
    }
}
impl ToValue for Ts4dmmme3 {
    fn to_value(&self) -> Value {
        Value::Seq(vec![
            Some(self.f0.to_value()),
            Some(self.f1.to_value()),
            Some(self.f2.to_value()),
            self.f3.as_ref().map(|x| x.to_value()),
        ])
    }
}
impl FromValue for Ts4dmmme4 {
    fn from_value(v: &Value) -> Self {
        let s = match v { Value::Seq(s) => s, other => panic!("Ts4dmmme4: expected Seq, got {other:?}") };
        assert_eq!(s.len(), 4, "Ts4dmmme4: component count");
        let _ = s;
        Ts4dmmme4 {
            f0: FromValue::from_value(s[0].as_ref().expect("component f0 of Ts4dmmme4 must be present")),
            f1: FromValue::from_value(s[1].as_ref().expect("component f1 of Ts4dmmme4 must be present")),
            f2: FromValue::from_value(s[2].as_ref().expect("component f2 of Ts4dmmme4 must be present")),
            f3: FromValue::from_value(s[3].as_ref().expect("component f3 of Ts4dmmme4 must be present")),
        }
    }
}
impl ToValue for Ts4dmmme4 {
    fn to_value(&self) -> Value {
        Value::Seq(vec![
            Some(self.f0.to_value()),
            Some(self.f1.to_value()),
            Some(self.f2.to_value()),
            Some(self.f3.to_value()),
        ])
    }
}
impl FromValue for Ts4mommn {
    fn from_value(v: &Value) -> Self {
        let s = match v { Value::Seq(s) => s, other => panic!("Ts4mommn: expected Seq, got {other:?}") };
        assert_eq!(s.len(), 4, "Ts4mommn: component count");
        let _ = s;
        Ts4mommn {
            f0: FromValue::from_value(s[0].as_ref().expect("component f0 of Ts4mommn must be present")),
            f1: s[1].as_ref().map(FromValue::from_value),
            f2: FromValue::from_value(s[2].as_ref().expect("component f2 of Ts4mommn must be present")),
            f3: FromValue::from_value(s[3].as_ref().expect("component f3 of Ts4mommn must be present")),
        }
    }
}
impl ToValue for Ts4mommn {
    fn to_value(&self) -> Value {
        Value::Seq(vec![
            Some(self.f0.to_value()),
            self.f1.as_ref().map(|x| x.to_value()),
            Some(self.f2.to_value()),
            Some(self.f3.to_value()),
        ])
    }
}
impl FromValue for Ts4momme0 {
    fn from_value(v: &Value) -> Self {
        let s = match v { Value::Seq(s) => s, other => panic!("Ts4momme0: expected Seq, got {other:?}") };
        assert_eq!(s.len(), 4, "Ts4momme0: component count");
        let _ = s;
        Ts4momme0 {
            f0: FromValue::from_value(s[0].as_ref().expect("component f0 of Ts4momme0 must be present")),
            f1: s[1].as_ref().map(FromValue::from_value),
            f2: s[2].as_ref().map(FromValue::from_value),
            f3: s[3].as_ref().map(FromValue::from_value),
        }
    }
}
impl ToValue for Ts4momme0 {
    fn to_value(&self) -> Value {
        Value::Seq(vec![
            Some(self.f0.to_value()),
            self.f1.as_ref().map(|x| x.to_value()),
            self.f2.as_ref().map(|x| x.to_value()),
            self.f3.as_ref().map(|x| x.to_value()),
        ])
    }
}
impl FromValue for Ts4momme1 {
    fn from_value(v: &Value) -> Self {
        let s = match v { Value::Seq(s) => s, other => panic!("Ts4momme1: expected Seq, got {other:?}") };
        assert_eq!(s.len(), 4, "Ts4momme1: component count");
        let _ = s;
        Ts4momme1 {
            f0: FromValue::from_value(s[0].as_ref().expect("component f0 of Ts4momme1 must be present")),
            f1: s[1].as_ref().map(FromValue::from_value),
            f2: s[2].as_ref().map(FromValue::from_value),
            f3: s[3].as_ref().map(FromValue::from_value),
        }
    }
}
impl ToValue for Ts4momme1 {
    fn to_value(&self) -> Value {
        Value::Seq(vec![
            Some(self.f0.to_value()),
            self.f1.as_ref().map(|x| x.to_value()),
            self.f2.as_ref().map(|x| x.to_value()),
            self.f3.as_ref().map(|x| x.to_value()),
        ])
    }
}
impl FromValue for Ts4momme2 {
    fn from_value(v: &Value) -> Self {
        let s = match v { Value::Seq(s) => s, other => panic!("Ts4momme2: expected Seq, got {other:?}") };
        assert_eq!(s.len(), 4, "Ts4momme2: component count");
        let _ = s;
        Ts4momme2 {
            f0: FromValue::from_value(s[0].as_ref().expect("component f0 of Ts4momme2 must be present")),
            f1: s[1].as_ref().map(FromValue::from_value),
            f2: s[2].as_ref().map(FromValue::from_value),
            f3: s[3].as_ref().map(FromValue::from_value),
        }
    }
}
impl ToValue for Ts4momme2 {
    fn to_value(&self) -> Value {
        Value::Seq(vec![
            Some(self.f0.to_value()),
            self.f1.as_ref().map(|x| x.to_value()),
            self.f2.as_ref().map(|x| x.to_value()),
            self.f3.as_ref().map(|x| x.to_value()),
        ])
    }
}
impl FromValue for Ts4momme3 {
    fn from_value(v: &Value) -> Self {
        let s = match v { Value::Seq(s) => s, other => panic!("Ts4momme3: expected Seq, got {other:?}") };
        assert_eq!(s.len(), 4, "Ts4momme3: component count");
        let _ = s;
        Ts4momme3 {
            f0: FromValue::from_value(s[0].as_ref().expect("component f0 of Ts4momme3 must be present")),
            f1: s[1].as_ref().map(FromValue::from_value),
            f2: FromValue::from_value(s[2].as_ref().expect("component f2 of Ts4momme3 must be present")),
            f3: s[3].as_ref().map(FromValue::from_value),
        }
    }
}
impl ToValue for Ts4momme3 {
    fn to_value(&self) -> Value {
        Value::Seq(vec![
            Some(self.f0.to_value()),
            self.f1.as_ref().map(|x| x.to_value()),
            Some(self.f2.to_value()),
            self.f3.as_ref().map(|x| x.to_value()),
        ])
    }
}
impl FromValue for Ts4momme4 {
    fn from_value(v: &Value) -> Self {
        let s = match v { Value::Seq(s) => s, other => panic!("Ts4momme4: expected Seq, got {other:?}") };
        assert_eq!(s.len(), 4, "Ts4momme4: component count");
        let _ = s;
        Ts4momme4 {
            f0: FromValue::from_value(s[0].as_ref().expect("component f0 of Ts4momme4 must be present")),
            f1: s[1].as_ref().map(FromValue::from_value),
            f2: FromValue::from_value(s[2].as_ref().expect("component f2 of Ts4momme4 must be present")),
            f3: FromValue::from_value(s[3].as_ref().expect("component f3 of Ts4momme4 must be present")),
        }
    }
}
impl ToValue for Ts4momme4 {
    fn to_value(&self) -> Value {
        Value::Seq(vec![
            Some(self.f0.to_value()),
            self.f1.as_ref().map(|x| x.to_value()),
            Some(self.f2.to_value()),
            Some(self.f3.to_value()),
        ])
    }
}
impl FromValue for Ts4oommn {
    fn from_value(v: &Value) -> Self {
        let s = match v { Value::Seq(s) => s, other => panic!("Ts4oommn: expected Seq, got {other:?}") };
        assert_eq!(s.len(), 4, "Ts4oommn: component count");
        let _ = s;
        Ts4oommn {
            f0: s[0].as_ref().map(FromValue::from_value),
            f1: s[1].as_ref().map(FromValue::from_value),
            f2: FromValue::from_value(s[2].as_ref().expect("component f2 of Ts4oommn must be present")),
            f3: FromValue::from_value(s[3].as_ref().expect("component f3 of Ts4oommn must be present")),
        }
    }
}
impl ToValue for Ts4oommn {
    fn to_value(&self) -> Value {
        Value::Seq(vec![
            self.f0.as_ref().map(|x| x.to_value()),
            self.f1.as_ref().map(|x| x.to_value()),
            Some(self.f2.to_value()),
            Some(self.f3.to_value()),
        ])
    }
}
impl FromValue for Ts4oomme0 {
    fn from_value(v: &Value) -> Self {
        let s = match v { Value::Seq(s) => s, other => panic!("Ts4oomme0: expected Seq, got {other:?}") };
        assert_eq!(s.len(), 4, "Ts4oomme0: component count");
        let _ = s;
        Ts4oomme0 {
            f0: s[0].as_ref().map(FromValue::from_value),
            f1: s[1].as_ref().map(FromValue::from_value),
            f2: s[2].as_ref().map(FromValue::from_value),
            f3: s[3].as_ref().map(FromValue::from_value),
        }
    }
}
impl ToValue for Ts4oomme0 {
    fn to_value(&self) -> Value {
        Value::Seq(vec![
            self.f0.as_ref().map(|x| x.to_value()),
            self.f1.as_ref().map(|x| x.to_value()),
            self.f2.as_ref().map(|x| x.to_value()),
            self.f3.as_ref().map(|x| x.to_value()),
        ])
    }
}
impl FromValue for Ts4oomme1 {
    fn from_value(v: &Value) -> Self {
        let s = match v { Value::Seq(s) => s, other => panic!("Ts4oomme1: expected Seq, got {other:?}") };
        assert_eq!(s.len(), 4, "Ts4oomme1: component count");
        let _ = s;
        Ts4oomme1 {
            f0: s[0].as_ref().map(FromValue::from_value),
            f1: s[1].as_ref().map(FromValue::from_value),
            f2: s[2].as_ref().map(FromValue::from_value),
            f3: s[3].as_ref().map(FromValue::from_value),
        }
    }
}
impl ToValue for Ts4oomme1 {
    fn to_value(&self) -> Value {
        Value::Seq(vec![
            self.f0.as_ref().map(|x| x.to_value()),
            self.f1.as_ref().map(|x| x.to_value()),
            self.f2.as_ref().map(|x| x.to_value()),
            self.f3.as_ref().map(|x| x.to_value()),
        ])
    }
}
impl FromValue for Ts4oomme2 {
    fn from_value(v: &Value) -> Self {
        let s = match v { Value::Seq(s) => s, other => panic!("Ts4oomme2: expected Seq, got {other:?}") };
        assert_eq!(s.len(), 4, "Ts4oomme2: component count");
        let _ = s;
        Ts4oomme2 {
            f0: s[0].as_ref().map(FromValue::from_value),
            f1: s[1].as_ref().map(FromValue::from_value),
            f2: s[2].as_ref().map(FromValue::from_value),
            f3: s[3].as_ref().map(FromValue::from_value),
        }
    }
}
impl ToValue for Ts4oomme2 {
    fn to_value(&self) -> Value {
        Value::Seq(vec![
            self.f0.as_ref().map(|x| x.to_value()),
            self.f1.as_ref().map(|x| x.to_value()),
            self.f2.as_ref().map(|x| x.to_value()),
            self.f3.as_ref().map(|x| x.to_value()),
        ])
    }
}
impl FromValue for Ts4oomme3 {
    fn from_value(v: &Value) -> Self {
        let s = match v { Value::Seq(s) => s, other => panic!("Ts4oomme3: expected Seq, got {other:?}") };
        assert_eq!(s.len(), 4, "Ts4oomme3: component count");
        let _ = s;
        Ts4oomme3 {
            f0: s[0].as_ref().map(FromValue::from_value),
            f1: s[1].as_ref().map(FromValue::from_value),
            f2: FromValue::from_value(s[2].as_ref().expect("component f2 of Ts4oomme3 must be present")),
            f3: s[3].as_ref().map(FromValue::from_value),
        }
    }
}
impl ToValue for Ts4oomme3 {
    fn to_value(&self) -> Value {
        Value::Seq(vec![
            self.f0.as_ref().map(|x| x.to_value()),
            self.f1.as_ref().map(|x| x.to_value()),
            Some(self.f2.to_value()),
            self.f3.as_ref().map(|x| x.to_value()),
        ])
    }
}
impl FromValue for Ts4oomme4 {
    fn from_value(v: &Value) -> Self {
        let s = match v { Value::Seq(s) => s, other => panic!("Ts4oomme4: expected Seq, got {other:?}") };
        assert_eq!(s.len(), 4, "Ts4oomme4: component count");
        let _ = s;
        Ts4oomme4 {
            f0: s[0].as_ref().map(FromValue::from_value),
            f1: s[1].as_ref().map(FromValue::from_value),
            f2: FromValue::from_value(s[2].as_ref().expect("component f2 of Ts4oomme4 must be present")),
            f3: FromValue::from_value(s[3].as_ref().expect("component f3 of Ts4oomme4 must be present")),
        }
    }
}
impl ToValue for Ts4oomme4 {
    fn to_value(&self) -> Value {
        Value::Seq(vec![
            self.f0.as_ref().map(|x| x.to_value()),
            self.f1.as_ref().map(|x| x.to_value()),
            Some(self.f2.to_value()),
            Some(self.f3.to_value()),
        ])
    }
}
impl FromValue for Ts4dommn {
    fn from_value(v: &Value) -> Self {
        let s = match v { Value::Seq(s) => s, other => panic!("Ts4dommn: expected Seq, got {other:?}") };
        assert_eq!(s.len(), 4, "Ts4dommn: component count");
        let _ = s;
        Ts4dommn {
            f0: FromValue::from_value(s[0].as_ref().expect("component f0 of Ts4dommn must be present")),
            f1: s[1].as_ref().map(FromValue::from_value),
            f2: FromValue::from_value(s[2].as_ref().expect("component f2 of Ts4dommn must be present")),
            f3: FromValue::from_value(s[3].as_ref().expect("component f3 of Ts4dommn must be present")),
        }
    }
}
impl ToValue for Ts4dommn {
    fn to_value(&self) -> Value {
        Value::Seq(vec![
            Some(self.f0.to_value()),
            self.f1.as_ref().map(|x| x.to_value()),
            Some(self.f2.to_value()),
            Some(self.f3.to_value()),
        ])
    }
}
impl FromValue for Ts4domme0 {
    fn from_value(v: &Value) -> Self {
        let s = match v { Value::Seq(s) => s, other => panic!("Ts4domme0: expected Seq, got {other:?}") };
        assert_eq!(s.len(), 4, "Ts4domme0: component count");
        let _ = s;
        Ts4domme0 {
            f0: FromValue::from_value(s[0].as_ref().expect("component f0 of Ts4domme0 must be present")),
            f1: s[1].as_ref().map(FromValue::from_value),
            f2: s[2].as_ref().map(FromValue::from_value),
            f3: s[3].as_ref().map(FromValue::from_value),
        }
    }
}
impl ToValue for Ts4domme0 {
    fn to_value(&self) -> Value {
        Value::Seq(vec![
            Some(self.f0.to_value()),
            self.f1.as_ref().map(|x| x.to_value()),
            self.f2.as_ref().map(|x| x.to_value()),
            self.f3.as_ref().map(|x| x.to_value()),
        ])
    }
}
impl FromValue for Ts4domme1 {
    fn from_value(v: &Value) -> Self {
        let s = match v { Value::Seq(s) => s, other => panic!("Ts4domme1: expected Seq, got {other:?}") };
        assert_eq!(s.len(), 4, "Ts4domme1: component count");
        let _ = s;
        Ts4domme1 {
            f0: FromValue::from_value(s[0].as_ref().expect("component f0 of Ts4domme1 must be present")),
            f1: s[1].as_ref().map(FromValue::from_value),
            f2: s[2].as_ref().map(FromValue::from_value),
            f3: s[3].as_ref().map(FromValue::from_value),
        }
    }
}
impl ToValue for Ts4domme1 {
    fn to_value(&self) -> Value {
        Value::Seq(vec![
            Some(self.f0.to_value()),
            self.f1.as_ref().map(|x| x.to_value()),
            self.f2.as_ref().map(|x| x.to_value()),
            self.f3.as_ref().map(|x| x.to_value()),
        ])
    }
}
impl FromValue for Ts4domme2 {
    fn from_value(v: &Value) -> Self {
        let s = match v { Value::Seq(s) => s, other => panic!("Ts4domme2: expected Seq, got {other:?}") };
        assert_eq!(s.len(), 4, "Ts4domme2: component count");
        let _ = s;
        Ts4domme2 {
            f0: FromValue::from_value(s[0].as_ref().expect("component f0 of Ts4domme2 must be present")),
            f1: s[1].as_ref().map(FromValue::from_value),
            f2: s[2].as_ref().map(FromValue::from_value),
            f3: s[3].as_ref().map(FromValue::from_value),
        }
    }
}
impl ToValue for Ts4domme2 {
    fn to_value(&self) -> Value {
        Value::Seq(vec![
            Some(self.f0.to_value()),
            self.f1.as_ref().map(|x| x.to_value()),
            self.f2.as_ref().map(|x| x.to_value()),
            self.f3.as_ref().map(|x| x.to_value()),
        ])
    }
}
impl FromValue for Ts4domme3 {
    fn from_value(v: &Value) -> Self {
        let s = match v { Value::Seq(s) => s, other => panic!("Ts4domme3: expected Seq, got {other:?}") };
        assert_eq!(s.len(), 4, "Ts4domme3: component count");
        let _ = s;
        Ts4domme3 {
            f0: FromValue::from_value(s[0].as_ref().expect("component f0 of Ts4domme3 must be present")),
            f1: s[1].as_ref().map(FromValue::from_value),
            f2: FromValue::from_value(s[2].as_ref().expect("component f2 of Ts4domme3 must be present")),
            f3: s[3].as_ref().map(FromValue::from_value),
        }
    }
}
impl ToValue for Ts4domme3 {
    fn to_value(&self) -> Value {
        Value::Seq(vec![
            Some(self.f0.to_value()),
            self.f1.as_ref().map(|x| x.to_value()),
            Some(self.f2.to_value()),
            self.f3.as_ref().map(|x| x.to_value()),
        ])
    }
}
impl FromValue for Ts4domme4 {
    fn from_value(v: &Value) -> Self {
        let s = match v { Value::Seq(s) => s, other => panic!("Ts4domme4: expected Seq, got {other:?}") };
        assert_eq!(s.len(), 4, "Ts4domme4: component count");
        let _ = s;
        Ts4domme4 {
            f0: FromValue::from_value(s[0].as_ref().expect("component f0 of Ts4domme4 must be present")),
            f1: s[1].as_ref().map(FromValue::from_value),
            f2: FromValue::from_value(s[2].as_ref().expect("component f2 of Ts4domme4 must be present")),
            f3: FromValue::from_value(s[3].as_ref().expect("component f3 of Ts4domme4 must be present")),
        }
    }
}
impl ToValue for Ts4domme4 {
    fn to_value(&self) -> Value {
        Value::Seq(vec![
            Some(self.f0.to_value()),
            self.f1.as_ref().map(|x| x.to_value()),
            Some(self.f2.to_value()),
            Some(self.f3.to_value()),
        ])
    }
}
impl FromValue for Ts4mdmmn {
    fn from_value(v: &Value) -> Self {
        let s = match v { Value::Seq(s) => s, other => panic!("Ts4mdmmn: expected Seq, got {other:?}") };
        assert_eq!(s.len(), 4, "Ts4mdmmn: component count");
        let _ = s;
        Ts4mdmmn {
            f0: FromValue::from_value(s[0].as_ref().expect("component f0 of Ts4mdmmn must be present")),
            f1: FromValue::from_value(s[1].as_ref().expect("component f1 of Ts4mdmmn must be present")),
            f2: FromValue::from_value(s[2].as_ref().expect("component f2 of Ts4mdmmn must be present")),
            f3: FromValue::from_value(s[3].as_ref().expect("component f3 of Ts4mdmmn must be present")),
        }
    }
}
impl ToValue for Ts4mdmmn {
    fn to_value(&self) -> Value {
        Value::Seq(vec![
            Some(self.f0.to_value()),
            Some(self.f1.to_value()),
            Some(self.f2.to_value()),
            Some(self.f3.to_value()),
        ])
    }
}
impl FromValue for Ts4mdmme0 {
    fn from_value(v: &Value) -> Self {
        let s = match v { Value::Seq(s) => s, other => panic!("Ts4mdmme0: expected Seq, got {other:?}") };
        assert_eq!(s.len(), 4, "Ts4mdmme0: component count");
        let _ = s;
        Ts4mdmme0 {
            f0: FromValue::from_value(s[0].as_ref().expect("component f0 of Ts4mdmme0 must be present")),
            f1: FromValue::from_value(s[1].as_ref().expect("component f1 of Ts4mdmme0 must be present")),
            f2: s[2].as_ref().map(FromValue::from_value),
            f3: s[3].as_ref().map(FromValue::from_value),
        }
    }
}
impl ToValue for Ts4mdmme0 {
    fn to_value(&self) -> Value {
        Value::Seq(vec![
            Some(self.f0.to_value()),
            Some(self.f1.to_value()),
            self.f2.as_ref().map(|x| x.to_value()),
            self.f3.as_ref().map(|x| x.to_value()),
        ])
    }
}
impl FromValue for Ts4mdmme1 {
    fn from_value(v: &Value) -> Self {
        let s = match v { Value::Seq(s) => s, other => panic!("Ts4mdmme1: expected Seq, got {other:?}") };
        assert_eq!(s.len(), 4, "Ts4mdmme1: component count");
        let _ = s;
        Ts4mdmme1 {
            f0: FromValue::from_value(s[0].as_ref().expect("component f0 of Ts4mdmme1 must be present")),
            f1: FromValue::from_value(s[1].as_ref().expect("component f1 of Ts4mdmme1 must be present")),
            f2: s[2].as_ref().map(FromValue::from_value),
            f3: s[3].as_ref().map(FromValue::from_value),
        }
    }
}
impl ToValue for Ts4mdmme1 {
    fn to_value(&self) -> Value {
        Value::Seq(vec![
            Some(self.f0.to_value()),
            Some(self.f1.to_value()),
            self.f2.as_ref().map(|x| x.to_value()),
            self.f3.as_ref().map(|x| x.to_value()),
        ])
    }
}
impl FromValue for Ts4mdmme2 {
    fn from_value(v: &Value) -> Self {
        let s = match v { Value::Seq(s) => s, other => panic!("Ts4mdmme2: expected Seq, got {other:?}") };
        assert_eq!(s.len(), 4, "Ts4mdmme2: component count");
        let _ = s;
        Ts4mdmme2 {
            f0: FromValue::from_value(s[0].as_ref().expect("component f0 of Ts4mdmme2 must be present")),
            f1: FromValue::from_value(s[1].as_ref().expect("component f1 of Ts4mdmme2 must be present")),
            f2: s[2].as_ref().map(FromValue::from_value),
            f3: s[3].as_ref().map(FromValue::from_value),
        }
    }
}
impl ToValue for Ts4mdmme2 {
    fn to_value(&self) -> Value {
        Value::Seq(vec![
            Some(self.f0.to_value()),
            Some(self.f1.to_value()),
            self.f2.as_ref().map(|x| x.to_value()),
            self.f3.as_ref().map(|x| x.to_value()),
        ])
    }
}
impl FromValue for Ts4mdmme3 {
    fn from_value(v: &Value) -> Self {
        let s = match v { Value::Seq(s) => s, other => panic!("Ts4mdmme3: expected Seq, got {other:?}") };
        assert_eq!(s.len(), 4, "Ts4mdmme3: component count");
        let _ = s;
        Ts4mdmme3 {
            f0: FromValue::from_value(s[0].as_ref().expect("component f0 of Ts4mdmme3 must be present")),
            f1: FromValue::from_value(s[1].as_ref().expect("component f1 of Ts4mdmme3 must be present")),
            f2: FromValue::from_value(s[2].as_ref().expect("component f2 of Ts4mdmme3 must be present")),
            f3: s[3].as_ref().map(FromValue::from_value),
        }
    }
}
impl ToValue for Ts4mdmme3 {
    fn to_value(&self) -> Value {
        Value::Seq(vec![
            Some(self.f0.to_value()),
            Some(self.f1.to_value()),
            Some(self.f2.to_value()),
            self.f3.as_ref().map(|x| x.to_value()),
        ])
    }
}
impl FromValue for Ts4mdmme4 {
    fn from_value(v: &Value) -> Self {
        let s = match v { Value::Seq(s) => s, other => panic!("Ts4mdmme4: expected Seq, got {other:?}") };
        assert_eq!(s.len(), 4, "Ts4mdmme4: component count");
        let _ = s;
        Ts4mdmme4 {
            f0: FromValue::from_value(s[0].as_ref().expect("component f0 of Ts4mdmme4 must be present")),
            f1: FromValue::from_value(s[1].as_ref().expect("component f1 of Ts4mdmme4 must be present")),
            f2: FromValue::from_value(s[2].as_ref().expect("component f2 of Ts4mdmme4 must be present")),
            f3: FromValue::from_value(s[3].as_ref().expect("component f3 of Ts4mdmme4 must be present")),
        }
    }
}
impl ToValue for Ts4mdmme4 {
    fn to_value(&self) -> Value {
        Value::Seq(vec![
            Some(self.f0.to_value()),
            Some(self.f1.to_value()),
            Some(self.f2.to_value()),
            Some(self.f3.to_value()),
        ])
    }
}
impl FromValue for Ts4odmmn {
    fn from_value(v: &Value) -> Self {
        let s = match v { Value::Seq(s) => s, other => panic!("Ts4odmmn: expected Seq, got {other:?}") };
        assert_eq!(s.len(), 4, "Ts4odmmn: component count");
        let _ = s;
        Ts4odmmn {
            f0: s[0].as_ref().map(FromValue::from_value),
            f1: FromValue::from_value(s[1].as_ref().expect("component f1 of Ts4odmmn must be present")),
            f2: FromValue::from_value(s[2].as_ref().expect("component f2 of Ts4odmmn must be present")),
            f3: FromValue::from_value(s[3].as_ref().expect("component f3 of Ts4odmmn must be present")),
        }
    }
}
impl ToValue for Ts4odmmn {
    fn to_value(&self) -> Value {
        Value::Seq(vec![
            self.f0.as_ref().map(|x| x.to_value()),
            Some(self.f1.to_value()),
            Some(self.f2.to_value()),
            Some(self.f3.to_value()),
        ])
    }
}
impl FromValue for Ts4odmme0 {
    fn from_value(v: &Value) -> Self {
        let s = match v { Value::Seq(s) => s, other => panic!("Ts4odmme0: expected Seq, got {other:?}") };
        assert_eq!(s.len(), 4, "Ts4odmme0: component count");
        let _ = s;
        Ts4odmme0 {
            f0: s[0].as_ref().map(FromValue::from_value),
            f1: FromValue::from_value(s[1].as_ref().expect("component f1 of Ts4odmme0 must be present")),
            f2: s[2].as_ref().map(FromValue::from_value),
            f3: s[3].as_ref().map(FromValue::from_value),
        }
    }
}
impl ToValue for Ts4odmme0 {
    fn to_value(&self) -> Value {
        Value::Seq(vec![
            self.f0.as_ref().map(|x| x.to_value()),
            Some(self.f1.to_value()),
            self.f2.as_ref().map(|x| x.to_value()),
            self.f3.as_ref().map(|x| x.to_value()),
        ])
    }
}
impl FromValue for Ts4odmme1 {
    fn from_value(v: &Value) -> Self {
        let s = match v { Value::Seq(s) => s, other => panic!("Ts4odmme1: expected Seq, got {other:?}") };
        assert_eq!(s.len(), 4, "Ts4odmme1: component count");
        let _ = s;
        Ts4odmme1 {
            f0: s[0].as_ref().map(FromValue::from_value),
            f1: FromValue::from_value(s[1].as_ref().expect("component f1 of Ts4odmme1 must be present")),
            f2: s[2].as_ref().map(FromValue::from_value),
            f3: s[3].as_ref().map(FromValue::from_value),
        }
    }
}
impl ToValue for Ts4odmme1 {
    fn to_value(&self) -> Value {
        Value::Seq(vec![
            self.f0.as_ref().map(|x| x.to_value()),
            Some(self.f1.to_value()),
            self.f2.as_ref().map(|x| x.to_value()),
            self.f3.as_ref().map(|x| x.to_value()),
        ])
    }
}
impl FromValue for Ts4odmme2 {
    fn from_value(v: &Value) -> Self {
        let s = match v { Value::Seq(s) => s, other => panic!("Ts4odmme2: expected Seq, got {other:?}") };
        assert_eq!(s.len(), 4, "Ts4odmme2: component count");
        let _ = s;
        Ts4odmme2 {
            f0: s[0].as_ref().map(FromValue::from_value),
            f1: FromValue::from_value(s[1].as_ref().expect("component f1 of Ts4odmme2 must be present")),
            f2: s[2].as_ref().map(FromValue::from_value),
            f3: s[3].as_ref().map(FromValue::from_value),
        }
    }
}
impl ToValue for Ts4odmme2 {
    fn to_value(&self) -> Value {
        Value::Seq(vec![
            self.f0.as_ref().map(|x| x.to_value()),
            Some(self.f1.to_value()),
            self.f2.as_ref().map(|x| x.to_value()),
            self.f3.as_ref().map(|x| x.to_value()),
        ])
    }
}
impl FromValue for Ts4odmme3 {
    fn from_value(v: &Value) -> Self {
        let s = match v { Value::Seq(s) => s, other => panic!("Ts4odmme3: expected Seq, got {other:?}") };
        assert_eq!(s.len(), 4, "Ts4odmme3: component count");
        let _ = s;
        Ts4odmme3 {
            f0: s[0].as_ref().map(FromValue::from_value),
            f1: FromValue::from_value(s[1].as_ref().expect("component f1 of Ts4odmme3 must be present")),
            f2: FromValue::from_value(s[2].as_ref().expect("component f2 of Ts4odmme3 must be present")),
            f3: s[3].as_ref().map(FromValue::from_value),
        }
    }
}
impl ToValue for Ts4odmme3 {
    fn to_value(&self) -> Value {
        Value::Seq(vec![
            self.f0.as_ref().map(|x| x.to_value()),
            Some(self.f1.to_value()),
            Some(self.f2.to_value()),
            self.f3.as_ref().map(|x| x.to_value()),
        ])
    }
}
impl FromValue for Ts4odmme4 {
    fn from_value(v: &Value) -> Self {
        let s = match v { Value::Seq(s) => s, other => panic!("Ts4odmme4: expected Seq, got {other:?}") };
        assert_eq!(s.len(), 4, "Ts4odmme4: component count");
        let _ = s;
        Ts4odmme4 {
            f0: s[0].as_ref().map(FromValue::from_value),
            f1: FromValue::from_value(s[1].as_ref().expect("component f1 of Ts4odmme4 must be present")),
            f2: FromValue::from_value(s[2].as_ref().expect("component f2 of Ts4odmme4 must be present")),
            f3: FromValue::from_value(s[3].as_ref().expect("component f3 of Ts4odmme4 must be present")),
        }
    }
}
impl ToValue for Ts4odmme4 {
    fn to_value(&self) -> Value {
        Value::Seq(vec![
            self.f0.as_ref().map(|x| x.to_value()),
            Some(self.f1.to_value()),
            Some(self.f2.to_value()),
            Some(self.f3.to_value()),
        ])
    }
}
impl FromValue for Ts4ddmmn {
    fn from_value(v: &Value) -> Self {
        let s = match v { Value::Seq(s) => s, other => panic!("Ts4ddmmn: expected Seq, got {other:?}") };
        assert_eq!(s.len(), 4, "Ts4ddmmn: component count");
        let _ = s;
        Ts4ddmmn {
            f0: FromValue::from_value(s[0].as_ref().expect("component f0 of Ts4ddmmn must be present")),
            f1: FromValue::from_value(s[1].as_ref().expect("component f1 of Ts4ddmmn must be present")),
            f2: FromValue::from_value(s[2].as_ref().expect("component f2 of Ts4ddmmn must be present")),
            f3: FromValue::from_value(s[3].as_ref().expect("component f3 of Ts4ddmmn must be present")),
        }
    }
}
impl ToValue for Ts4ddmmn {
    fn to_value(&self) -> Value {
        Value::Seq(vec![
            Some(self.f0.to_value()),
            Some(self.f1.to_value()),
            Some(self.f2.to_value()),
            Some(self.f3.to_value()),
        ])
    }
}
impl FromValue for Ts4ddmme0 {
    fn from_value(v: &Value) -> Self {
        let s = match v { Value::Seq(s) => s, other => panic!("Ts4ddmme0: expected Seq, got {other:?}") };
        assert_eq!(s.len(), 4, "Ts4ddmme0: component count");
        let _ = s;
        Ts4ddmme0 {
            f0: FromValue::from_value(s[0].as_ref().expect("component f0 of Ts4ddmme0 must be present")),
            f1: FromValue::from_value(s[1].as_ref().expect("component f1 of Ts4ddmme0 must be present")),
            f2: s[2].as_ref().map(FromValue::from_value),
            f3: s[3].as_ref().map(FromValue::from_value),
        }
    }
}
impl ToValue for Ts4ddmme0 {
    fn to_value(&self) -> Value {
        Value::Seq(vec![
            Some(self.f0.to_value()),
            Some(self.f1.to_value()),
            self.f2.as_ref().map(|x| x.to_value()),
            self.f3.as_ref().map(|x| x.to_value()),
        ])
    }
}
impl FromValue for Ts4ddmme1 {
    fn from_value(v: &Value) -> Self {
        let s = match v { Value::Seq(s) => s, other => panic!("Ts4ddmme1: expected Seq, got {other:?}") };
        assert_eq!(s.len(), 4, "Ts4ddmme1: component count");
        let _ = s;
        Ts4ddmme1 {
            f0: FromValue::from_value(s[0].as_ref().expect("component f0 of Ts4ddmme1 must be present")),
            f1: FromValue::from_value(s[1].as_ref().expect("component f1 of Ts4ddmme1 must be present")),
            f2: s[2].as_ref().map(FromValue::from_value),
            f3: s[3].as_ref().map(FromValue::from_value),
        }
    }
}
impl ToValue for Ts4ddmme1 {
    fn to_value(&self) -> Value {
        Value::Seq(vec![
            Some(self.f0.to_value()),
            Some(self.f1.to_value()),
            self.f2.as_ref().map(|x| x.to_value()),
            self.f3.as_ref().map(|x| x.to_value()),
        ])
    }
}
impl FromValue for Ts4ddmme2 {
    fn from_value(v: &Value) -> Self {
        let s = match v { Value::Seq(s) => s, other => panic!("Ts4ddmme2: expected Seq, got {other:?}") };
        assert_eq!(s.len(), 4, "Ts4ddmme2: component count");
        let _ = s;
        Ts4ddmme2 {
            f0: FromValue::from_value(s[0].as_ref().expect("component f0 of Ts4ddmme2 must be present")),
            f1: FromValue::from_value(s[1].as_ref().expect("component f1 of Ts4ddmme2 must be present")),
            f2: s[2].as_ref().map(FromValue::from_value),
            f3: s[3].as_ref().map(FromValue::from_value),
        }
    }
}
impl ToValue for Ts4ddmme2 {
    fn to_value(&self) -> Value {
        Value::Seq(vec![
            Some(self.f0.to_value()),
            Some(self.f1.to_value()),
            self.f2.as_ref().map(|x| x.to_value()),
            self.f3.as_ref().map(|x| x.to_value()),
        ])
    }
}
impl FromValue for Ts4ddmme3 {
    fn from_value(v: &Value) -> Self {
        let s = match v { Value::Seq(s) => s, other => panic!("Ts4ddmme3: expected Seq, got {other:?}") };
        assert_eq!(s.len(), 4, "Ts4ddmme3: component count");
        let _ = s;
        Ts4ddmme3 {
            f0: FromValue::from_value(s[0].as_ref().expect("component f0 of Ts4ddmme3 must be present")),
            f1: FromValue::from_value(s[1].as_ref().expect("component f1 of Ts4ddmme3 must be present")),
            f2: FromValue::from_value(s[2].as_ref().expect("component f2 of Ts4ddmme3 must be present")),
            f3: s[3].as_ref().map(FromValue::from_value),
        }
    }
}
impl ToValue for Ts4ddmme3 {
    fn to_value(&self) -> Value {
        Value::Seq(vec![
            Some(self.f0.to_value()),
            Some(self.f1.to_value()),
            Some(self.f2.to_value()),
            self.f3.as_ref().map(|x| x.to_value()),
        ])
    }
}
impl FromValue for Ts4ddmme4 {
    fn from_value(v: &Value) -> Self {
        let s = match v { Value::Seq(s) => s, other => panic!("Ts4ddmme4: expected Seq, got {other:?}") };
        assert_eq!(s.len(), 4, "Ts4ddmme4: component count");
        let _ = s;
        Ts4ddmme4 {
            f0: FromValue::from_value(s[0].as_ref().expect("component f0 of Ts4ddmme4 must be present")),
            f1: FromValue::from_value(s[1].as_ref().expect("component f1 of Ts4ddmme4 must be present")),
            f2: FromValue::from_value(s[2].as_ref().expect("component f2 of Ts4ddmme4 must be present")),
            f3: FromValue::from_value(s[3].as_ref().expect("component f3 of Ts4ddmme4 must be present")),
        }
    }
}
impl ToValue for Ts4ddmme4 {
    fn to_value(&self) -> Value {
        Value::Seq(vec![
            Some(self.f0.to_value()),
            Some(self.f1.to_value()),
            Some(self.f2.to_value()),
            Some(self.f3.to_value()),
        ])
    }
}
impl FromValue for Ts4mmomn {
    fn from_value(v: &Value) -> Self {
        let s = match v { Value::Seq(s) => s, other => panic!("Ts4mmomn: expected Seq, got {other:?}") };
        assert_eq!(s.len(), 4, "Ts4mmomn: component count");
        let _ = s;
        Ts4mmomn {
            f0: FromValue::from_value(s[0].as_ref().expect("component f0 of Ts4mmomn must be present")),
            f1: FromValue::from_value(s[1].as_ref().expect("component f1 of Ts4mmomn must be present")),
            f2: s[2].as_ref().map(FromValue::from_value),
            f3: FromValue::from_value(s[3].as_ref().expect("component f3 of Ts4mmomn must be present")),
        }
    }
}
impl ToValue for Ts4mmomn {
    fn to_value(&self) -> Value {
        Value::Seq(vec![
            Some(self.f0.to_value()),
            Some(self.f1.to_value()),
            self.f2.as_ref().map(|x| x.to_value()),
            Some(self.f3.to_value()),
        ])
    }
}
impl FromValue for Ts4mmome0 {
    fn from_value(v: &Value) -> Self {
        let s = match v { Value::Seq(s) => s, other => panic!("Ts4mmome0: expected Seq, got {other:?}") };
        assert_eq!(s.len(), 4, "Ts4mmome0: component count");
        let _ = s;
        Ts4mmome0 {
            f0: FromValue::from_value(s[0].as_ref().expect("component f0 of Ts4mmome0 must be present")),
            f1: s[1].as_ref().map(FromValue::from_value),
            f2: s[2].as_ref().map(FromValue::from_value),
            f3: s[3].as_ref().map(FromValue::from_value),
        }
    }
}
impl ToValue for Ts4mmome0 {
    fn to_value(&self) -> Value {
        Value::Seq(vec![
            Some(self.f0.to_value()),
            self.f1.as_ref().map(|x| x.to_value()),
            self.f2.as_ref().map(|x| x.to_value()),
            self.f3.as_ref().map(|x| x.to_value()),
        ])
    }
}
impl FromValue for Ts4mmome1 {
    fn from_value(v: &Value) -> Self {
        let s = match v { Value::Seq(s) => s, other => panic!("Ts4mmome1: expected Seq, got {other:?}") };
        assert_eq!(s.len(), 4, "Ts4mmome1: component count");
        let _ = s;
        Ts4mmome1 {
            f0: FromValue::from_value(s[0].as_ref().expect("component f0 of Ts4mmome1 must be present")),
            f1: s[1].as_ref().map(FromValue::from_value),
            f2: s[2].as_ref().map(FromValue::from_value),
            f3: s[3].as_ref().map(FromValue::from_value),
        }
    }
}
impl ToValue for Ts4mmome1 {
    fn to_value(&self) -> Value {
        Value::Seq(vec![
            Some(self.f0.to_value()),
            self.f1.as_ref().map(|x| x.to_value()),
            self.f2.as_ref().map(|x| x.to_value()),
            self.f3.as_ref().map(|x| x.to_value()),
        ])
    }
}
impl FromValue for Ts4mmome2 {
    fn from_value(v: &Value) -> Self {
        let s = match v { Value::Seq(s) => s, other => panic!("Ts4mmome2: expected Seq, got {other:?}") };
        assert_eq!(s.len(), 4, "Ts4mmome2: component count");
        let _ = s;
        Ts4mmome2 {
            f0: FromValue::from_value(s[0].as_ref().expect("component f0 of Ts4mmome2 must be present")),
            f1: FromValue::from_value(s[1].as_ref().expect("component f1 of Ts4mmome2 must be present")),
            f2: s[2].as_ref().map(FromValue::from_value),
            f3: s[3].as_ref().map(FromValue::from_value),
        }
    }
}
impl ToValue for Ts4mmome2 {
    fn to_value(&self) -> Value {
        Value::Seq(vec![
            Some(self.f0.to_value()),
            Some(self.f1.to_value()),
            self.f2.as_ref().map(|x| x.to_value()),
            self.f3.as_ref().map(|x| x.to_value()),
        ])
    }
}
impl FromValue for Ts4mmome3 {
    fn from_value(v: &Value) -> Self {
        let s = match v { Value::Seq(s) => s, other => panic!("Ts4mmome3: expected Seq, got {other:?}") };
        assert_eq!(s.len(), 4, "Ts4mmome3: component count");
        let _ = s;
        Ts4mmome3 {
            f0: FromValue::from_value(s[0].as_ref().expect("component f0 of Ts4mmome3 must be present")),
            f1: FromValue::from_value(s[1].as_ref().expect("component f1 of Ts4mmome3 must be present")),
            f2: s[2].as_ref().map(FromValue::from_value),
            f3: s[3].as_ref().map(FromValue::from_value),
        }
    }
}
impl ToValue for Ts4mmome3 {
    fn to_value(&self) -> Value {
        Value::Seq(vec![
            Some(self.f0.to_value()),
            Some(self.f1.to_value()),
            self.f2.as_ref().map(|x| x.to_value()),
            self.f3.as_ref().map(|x| x.to_value()),
        ])
    }
}
impl FromValue for Ts4mmome4 {
    fn from_value(v: &Value) -> Self {
        let s = match v { Value::Seq(s) => s, other => panic!("Ts4mmome4: expected Seq, got {other:?}") };
        assert_eq!(s.len(), 4, "Ts4mmome4: component count");
        let _ = s;
        Ts4mmome4 {
            f0: FromValue::from_value(s[0].as_ref().expect("component f0 of Ts4mmome4 must be present")),
            f1: FromValue::from_value(s[1].as_ref().expect("component f1 of Ts4mmome4 must be present")),
            f2: s[2].as_ref().map(FromValue::from_value),
            f3: FromValue::from_value(s[3].as_ref().expect("component f3 of Ts4mmome4 must be present")),
        }
    }
}
impl ToValue for Ts4mmome4 {
    fn to_value(&self) -> Value {
        Value::Seq(vec![
            Some(self.f0.to_value()),
            Some(self.f1.to_value()),
            self.f2.as_ref().map(|x| x.to_value()),
            Some(self.f3.to_value()),
        ])
    }
}
impl FromValue for Ts4omomn {
    fn from_value(v: &Value) -> Self {
        let s = match v { Value::Seq(s) => s, other => panic!("Ts4omomn: expected Seq, got {other:?}") };
        assert_eq!(s.len(), 4, "Ts4omomn: component count");
        let _ = s;
        Ts4omomn {
            f0: s[0].as_ref().map(FromValue::from_value),
            f1: FromValue::from_value(s[1].as_ref().expect("component f1 of Ts4omomn must be present")),
            f2: s[2].as_ref().map(FromValue::from_value),
            f3: FromValue::from_value(s[3].as_ref().expect("component f3 of Ts4omomn must be present")),
        }
    }
}
impl ToValue for Ts4omomn {
    fn to_value(&self) -> Value {
        Value::Seq(vec![
            self.f0.as_ref().map(|x| x.to_value()),
            Some(self.f1.to_value()),
            self.f2.as_ref().map(|x| x.to_value()),
            Some(self.f3.to_value()),
        ])
    }
}
impl FromValue for Ts4omome0 {
    fn from_value(v: &Value) -> Self {
        let s = match v { Value::Seq(s) => s, other => panic!("Ts4omome0: expected Seq, got {other:?}") };
        assert_eq!(s.len(), 4, "Ts4omome0: component count");
        let _ = s;
        Ts4omome0 {
            f0: s[0].as_ref().map(FromValue::from_value),
            f1: s[1].as_ref().map(FromValue::from_value),
            f2: s[2].as_ref().map(FromValue::from_value),
            f3: s[3].as_ref().map(FromValue::from_value),
        }
    }
}
impl ToValue for Ts4omome0 {
    fn to_value(&self) -> Value {
        Value::Seq(vec![
            self.f0.as_ref().map(|x| x.to_value()),
            self.f1.as_ref().map(|x| x.to_value()),
            self.f2.as_ref().map(|x| x.to_value()),
            self.f3.as_ref().map(|x| x.to_value()),
        ])
    }
}
impl FromValue for Ts4omome1 {
    fn from_value(v: &Value) -> Self {
        let s = match v { Value::Seq(s) => s, other => panic!("Ts4omome1: expected Seq, got {other:?}") };
        assert_eq!(s.len(), 4, "Ts4omome1: component count");
        let _ = s;
        Ts4omome1 {
            f0: s[0].as_ref().map(FromValue::from_value),
            f1: s[1].as_ref().map(FromValue::from_value),
            f2: s[2].as_ref().map(FromValue::from_value),
            f3: s[3].as_ref().map(FromValue::from_value),
        }
    }
}
impl ToValue for Ts4omome1 {
    fn to_value(&self) -> Value {
        Value::Seq(vec![
            self.f0.as_ref().map(|x| x.to_value()),
            self.f1.as_ref().map(|x| x.to_value()),
            self.f2.as_ref().map(|x| x.to_value()),
            self.f3.as_ref().map(|x| x.to_value()),
        ])
    }
}
impl FromValue for Ts4omome2 {
    fn from_value(v: &Value) -> Self {
        let s = match v { Value::Seq(s) => s, other => panic!("Ts4omome2: expected Seq, got {other:?}") };
        assert_eq!(s.len(), 4, "Ts4omome2: component count");
        let _ = s;
        Ts4omome2 {
            f0: s[0].as_ref().map(FromValue::from_value),
            f1: FromValue::from_value(s[1].as_ref().expect("component f1 of Ts4omome2 must be present")),
            f2: s[2].as_ref().map(FromValue::from_value),
            f3: s[3].as_ref().map(FromValue::from_value),
        }
    }
}
impl ToValue for Ts4omome2 {
    fn to_value(&self) -> Value {
        Value::Seq(vec![
            self.f0.as_ref().map(|x| x.to_value()),
            Some(self.f1.to_value()),
            self.f2.as_ref().map(|x| x.to_value()),
            self.f3.as_ref().map(|x| x.to_value()),
        ])
    }
}
impl FromValue for Ts4omome3 {
    fn from_value(v: &Value) -> Self {
        let s = match v { Value::Seq(s) => s, other => panic!("Ts4omome3: expected Seq, got {other:?}") };
        assert_eq!(s.len(), 4, "Ts4omome3: component count");
        let _ = s;
        Ts4omome3 {
            f0: s[0].as_ref().map(FromValue::from_value),
            f1: FromValue::from_value(s[1].as_ref().expect("component f1 of Ts4omome3 must be present")),
            f2: s[2].as_ref().map(FromValue::from_value),
            f3: s[3].as_ref().map(FromValue::from_value),
        }
    }
}
impl ToValue for Ts4omome3 {
    fn to_value(&self) -> Value {
        Value::Seq(vec![
            self.f0.as_ref().map(|x| x.to_value()),
            Some(self.f1.to_value()),
            self.f2.as_ref().map(|x| x.to_value()),
            self.f3.as_ref().map(|x| x.to_value()),
        ])
    }
}
impl FromValue for Ts4omome4 {
    fn from_value(v: &Value) -> Self {
        let s = match v { Value::Seq(s) => s, other => panic!("Ts4omome4: expected Seq, got {other:?}") };
        assert_eq!(s.len(), 4, "Ts4omome4: component count");
        let _ = s;
        Ts4omome4 {
            f0: s[0].as_ref().map(FromValue::from_value),
            f1: FromValue::from_value(s[1].as_ref().expect("component f1 of Ts4omome4 must be present")),
            f2: s[2].as_ref().map(FromValue::from_value),
            f3: FromValue::from_value(s[3].as_ref().expect("component f3 of Ts4omome4 must be present")),
        }
    }
}
impl ToValue for Ts4omome4 {
    fn to_value(&self) -> Value {
        Value::Seq(vec![
            self.f0.as_ref().map(|x| x.to_value()),
            Some(self.f1.to_value()),
            self.f2.as_ref().map(|x| x.to_value()),
            Some(self.f3.to_value()),
        ])
    }
}
impl FromValue for Ts4dmomn {
    fn from_value(v: &Value) -> Self {
        let s = match v { Value::Seq(s) => s, other => panic!("Ts4dmomn: expected Seq, got {other:?}") };
        assert_eq!(s.len(), 4, "Ts4dmomn: component count");
        let _ = s;
        Ts4dmomn {
            f0: FromValue::from_value(s[0].as_ref().expect("component f0 of Ts4dmomn must be present")),
            f1: FromValue::from_value(s[1].as_ref().expect("component f1 of Ts4dmomn must be present")),
            f2: s[2].as_ref().map(FromValue::from_value),
            f3: FromValue::from_value(s[3].as_ref().expect("component f3 of Ts4dmomn must be present")),
        }
    }
}
impl ToValue for Ts4dmomn {
    fn to_value(&self) -> Value {
        Value::Seq(vec![
            Some(self.f0.to_value()),
            Some(self.f1.to_value()),
            self.f2.as_ref().map(|x| x.to_value()),
            Some(self.f3.to_value()),
        ])
    }
}
impl FromValue for Ts4dmome0 {
    fn from_value(v: &Value) -> Self {
        let s = match v { Value::Seq(s) => s, other => panic!("Ts4dmome0: expected Seq, got {other:?}") };
        assert_eq!(s.len(), 4, "Ts4dmome0: component count");
        let _ = s;
        Ts4dmome0 {
            f0: FromValue::from_value(s[0].as_ref().expect("component f0 of Ts4dmome0 must be present")),
            f1: s[1].as_ref().map(FromValue::from_value),
            f2: s[2].as_ref().map(FromValue::from_value),
            f3: s[3].as_ref().map(FromValue::from_value),
        }
    }
}
impl ToValue for Ts4dmome0 {
    fn to_value(&self) -> Value {
        Value::Seq(vec![
            Some(self.f0.to_value()),
            self.f1.as_ref().map(|x| x.to_value()),
            self.f2.as_ref().map(|x| x.to_value()),
            self.f3.as_ref().map(|x| x.to_value()),
        ])
    }
}
impl FromValue for Ts4dmome1 {
    fn from_value(v: &Value) -> Self {
        let s = match v { Value::Seq(s) => s, other => panic!("Ts4dmome1: expected Seq, got {other:?}") };
        assert_eq!(s.len(), 4, "Ts4dmome1: component count");
        let _ = s;
        Ts4dmome1 {
            f0: FromValue::from_value(s[0].as_ref().expect("component f0 of Ts4dmome1 must be present")),
            f1: s[1].as_ref().map(FromValue::from_value),
            f2: s[2].as_ref().map(FromValue::from_value),
            f3: s[3].as_ref().map(FromValue::from_value),
        }
    }
}
impl ToValue for Ts4dmome1 {
    fn to_value(&self) -> Value {
        Value::Seq(vec![
            Some(self.f0.to_value()),
            self.f1.as_ref().map(|x| x.to_value()),
            self.f2.as_ref().map(|x| x.to_value()),
            self.f3.as_ref().map(|x| x.to_value()),
        ])
    }
}
impl FromValue for Ts4dmome2 {
    fn from_value(v: &Value) -> Self {
        let s = match v { Value::Seq(s) => s, other => panic!("Ts4dmome2: expected Seq, got {other:?}") };
        assert_eq!(s.len(), 4, "Ts4dmome2: component count");
        let _ = s;
        Ts4dmome2 {
            f0: FromValue::from_value(s[0].as_ref().expect("component f0 of Ts4dmome2 must be present")),
            f1: FromValue::from_value(s[1].as_ref().expect("component f1 of Ts4dmome2 must be present")),
            f2: s[2].as_ref().map(FromValue::from_value),
            f3: s[3].as_ref().map(FromValue::from_value),
        }
    }
}
impl ToValue for Ts4dmome2 {
    fn to_value(&self) -> Value {
        Value::Seq(vec![
            Some(self.f0.to_value()),
            Some(self.f1.to_value()),
            self.f2.as_ref().map(|x| x.to_value()),
            self.f3.as_ref().map(|x| x.to_value()),
        ])
    }
}
impl FromValue for Ts4dmome3 {
    fn from_value(v: &Value) -> Self {
        let s = match v { Value::Seq(s) => s, other => panic!("Ts4dmome3: expected Seq, got {other:?}") };
        assert_eq!(s.len(), 4, "Ts4dmome3: component count");
        let _ = s;
        Ts4dmome3 {
            f0: FromValue::from_value(s[0].as_ref().expect("component f0 of Ts4dmome3 must be present")),
            f1: FromValue::from_value(s[1].as_ref().expect("component f1 of Ts4dmome3 must be present")),
            f2: s[2].as_ref().map(FromValue::from_value),
            f3: s[3].as_ref().map(FromValue::from_value),
        }
    }
}
impl ToValue for Ts4dmome3 {
    fn to_value(&self) -> Value {
        Value::Seq(vec![
            Some(self.f0.to_value()),
            Some(self.f1.to_value()),
            self.f2.as_ref().map(|x| x.to_value()),
            self.f3.as_ref().map(|x| x.to_value()),
        ])
    }
}
impl FromValue for Ts4dmome4 {
    fn from_value(v: &Value) -> Self {
        let s = match v { Value::Seq(s) => s, other => panic!("Ts4dmome4: expected Seq, got {other:?}") };
        assert_eq!(s.len(), 4, "Ts4dmome4: component count");
        let _ = s;
        Ts4dmome4 {
            f0: FromValue::from_value(s[0].as_ref().expect("component f0 of Ts4dmome4 must be present")),
            f1: FromValue::from_value(s[1].as_ref().expect("component f1 of Ts4dmome4 must be present")),
            f2: s[2].as_ref().map(FromValue::from_value),
            f3: FromValue::from_value(s[3].as_ref().expect("component f3 of Ts4dmome4 must be present")),
        }
    }
}
impl ToValue for Ts4dmome4 {
    fn to_value(&self) -> Value {
        Value::Seq(vec![
            Some(self.f0.to_value()),
            Some(self.f1.to_value()),
            self.f2.as_ref().map(|x| x.to_value()),
            Some(self.f3.to_value()),
        ])
    }
}
impl FromValue for Ts4moomn {
    fn from_value(v: &Value) -> Self {
        let s = match v { Value::Seq(s) => s, other => panic!("Ts4moomn: expected Seq, got {other:?}") };
        assert_eq!(s.len(), 4, "Ts4moomn: component count");
        let _ = s;
        Ts4moomn {
            f0: FromValue::from_value(s[0].as_ref().expect("component f0 of Ts4moomn must be present")),
            f1: s[1].as_ref().map(FromValue::from_value),
            f2: s[2].as_ref().map(FromValue::from_value),
            f3: FromValue::from_value(s[3].as_ref().expect("component f3 of Ts4moomn must be present")),
        }
    }
}
impl ToValue for Ts4moomn {
    fn to_value(&self) -> Value {
        Value::Seq(vec![
            Some(self.f0.to_value()),
            self.f1.as_ref().map(|x| x.to_value()),
            self.f2.as_ref().map(|x| x.to_value()),
            Some(self.f3.to_value()),
        ])
    }
}
impl FromValue for Ts4moome0 {
    fn from_value(v: &Value) -> Self {
        let s = match v { Value::Seq(s) => s, other => panic!("Ts4moome0: expected Seq, got {other:?}") };
        assert_eq!(s.len(), 4, "Ts4moome0: component count");
        let _ = s;
        Ts4moome0 {
            f0: FromValue::from_value(s[0].as_ref().expect("component f0 of Ts4moome0 must be present")),
            f1: s[1].as_ref().map(FromValue::from_value),
            f2: s[2].as_ref().map(FromValue::from_value),
            f3: s[3].as_ref().map(FromValue::from_value),
        }
    }
}
impl ToValue for Ts4moome0 {
    fn to_value(&self) -> Value {
        Value::Seq(vec![
            Some(self.f0.to_value()),
            self.f1.as_ref().map(|x| x.to_value()),
            self.f2.as_ref().map(|x| x.to_value()),
            self.f3.as_ref().map(|x| x.to_value()),
        ])
    }
}
impl FromValue for Ts4moome1 {
    fn from_value(v: &Value) -> Self {
        let s = match v { Value::Seq(s) => s, other => panic!("Ts4moome1: expected Seq, got {other:?}") };
        assert_eq!(s.len(), 4, "Ts4moome1: component count");
        let _ = s;
        Ts4moome1 {
            f0: FromValue::from_value(s[0].as_ref().expect("component f0 of Ts4moome1 must be present")),
            f1: s[1].as_ref().map(FromValue::from_value),
            f2: s[2].as_ref().map(FromValue::from_value),
            f3: s[3].as_ref().map(FromValue::from_value),
        }
    }
}
impl ToValue for Ts4moome1 {
    fn to_value(&self) -> Value {
        Value::Seq(vec![
            Some(self.f0.to_value()),
            self.f1.as_ref().map(|x| x.to_value()),
            self.f2.as_ref().map(|x| x.to_value()),
            self.f3.as_ref().map(|x| x.to_value()),
        ])
    }
}
impl FromValue for Ts4moome2 {
    fn from_value(v: &Value) -> Self {
        let s = match v { Value::Seq(s) => s, other => panic!("Ts4moome2: expected Seq, got {other:?}") };
        assert_eq!(s.len(), 4, "Ts4moome2: component count");
        let _ = s;
        Ts4moome2 {
            f0: FromValue::from_value(s[0].as_ref().expect("component f0 of Ts4moome2 must be present")),
            f1: s[1].as_ref().map(FromValue::from_value),
            f2: s[2].as_ref().map(FromValue::from_value),
            f3: s[3].as_ref().map(FromValue::from_value),
        }
    }
}
impl ToValue for Ts4moome2 {
    fn to_value(&self) -> Value {
        Value::Seq(vec![
            Some(self.f0.to_value()),
            self.f1.as_ref().map(|x| x.to_value()),
            self.f2.as_ref().map(|x| x.to_value()),
            self.f3.as_ref().map(|x| x.to_value()),
        ])
    }
}
impl FromValue for Ts4moome3 {
    fn from_value(v: &Value) -> Self {
        let s = match v { Value::Seq(s) => s, other => panic!("Ts4moome3: expected Seq, got {other:?}") };
        assert_eq!(s.len(), 4, "Ts4moome3: component count");
        let _ = s;
        Ts4moome3 {
            f0: FromValue::from_value(s[0].as_ref().expect("component f0 of Ts4moome3 must be present")),
            f1: s[1].as_ref().map(FromValue::from_value),
            f2: s[2].as_ref().map(FromValue::from_value),
            f3: s[3].as_ref().map(FromValue::from_value),
        }
    }
}
impl ToValue for Ts4moome3 {
    fn to_value(&self) -> Value {
        Value::Seq(vec![
            Some(self.f0.to_value()),
            self.f1.as_ref().map(|x| x.to_value()),
            self.f2.as_ref().map(|x| x.to_value()),
            self.f3.as_ref().map(|x| x.to_value()),
        ])
    }
}
impl FromValue for Ts4moome4 {
    fn from_value(v: &Value) -> Self {
        let s = match v { Value::Seq(s) => s, other => panic!("Ts4moome4: expected Seq, got {other:?}") };
        assert_eq!(s.len(), 4, "Ts4moome4: component count");
        let _ = s;
        Ts4moome4 {
            f0: FromValue::from_value(s[0].as_ref().expect("component f0 of Ts4moome4 must be present")),
            f1: s[1].as_ref().map(FromValue::from_value),
            f2: s[2].as_ref().map(FromValue::from_value),
            f3: FromValue::from_value(s[3].as_ref().expect("component f3 of Ts4moome4 must be present")),
        }
    }
}
impl ToValue for Ts4moome4 {
    fn to_value(&self) -> Value {
        Value::Seq(vec![
            Some(self.f0.to_value()),
            self.f1.as_ref().map(|x| x.to_value()),
            self.f2.as_ref().map(|x| x.to_value()),
            Some(self.f3.to_value()),
        ])
    }
}
impl FromValue for Ts4ooomn {
    fn from_value(v: &Value) -> Self {
        let s = match v { Value::Seq(s) => s, other => panic!("Ts4ooomn: expected Seq, got {other:?}") };
        assert_eq!(s.len(), 4, "Ts4ooomn: component count");
        let _ = s;
        Ts4ooomn {
            f0: s[0].as_ref().map(FromValue::from_value),
            f1: s[1].as_ref().map(FromValue::from_value),
            f2: s[2].as_ref().map(FromValue::from_value),
            f3: FromValue::from_value(s[3].as_ref().expect("component f3 of Ts4ooomn must be present")),
        }
    }
}
impl ToValue for Ts4ooomn {
    fn to_value(&self) -> Value {
        Value::Seq(vec![
            self.f0.as_ref().map(|x| x.to_value()),
            self.f1.as_ref().map(|x| x.to_value()),
            self.f2.as_ref().map(|x| x.to_value()),
            Some(self.f3.to_value()),
        ])
    }
}
impl FromValue for Ts4ooome0 {
    fn from_value(v: &Value) -> Self {
        let s = match v { Value::Seq(s) => s, other => panic!("Ts4ooome0: expected Seq, got {other:?}") };
        assert_eq!(s.len(), 4, "Ts4ooome0: component count");
        let _ = s;
        Ts4ooome0 {
            f0: s[0].as_ref().map(FromValue::from_value),
            f1: s[1].as_ref().map(FromValue::from_value),
            f2: s[2].as_ref().map(FromValue::from_value),
            f3: s[3].as_ref().map(FromValue::from_value),
        }
    }
}
impl ToValue for Ts4ooome0 {
    fn to_value(&self) -> Value {
        Value::Seq(vec![
            self.f0.as_ref().map(|x| x.to_value()),
            self.f1.as_ref().map(|x| x.to_value()),
            self.f2.as_ref().map(|x| x.to_value()),
            self.f3.as_ref().map(|x| x.to_value()),
        ])
    }
}
impl FromValue for Ts4ooome1 {
    fn from_value(v: &Value) -> Self {
        let s = match v { Value::Seq(s) => s, other => panic!("Ts4ooome1: expected Seq, got {other:?}") };
        assert_eq!(s.len(), 4, "Ts4ooome1: component count");
        let _ = s;
        Ts4ooome1 {
            f0: s[0].as_ref().map(FromValue::from_value),
            f1: s[1].as_ref().map(FromValue::from_value),
            f2: s[2].as_ref().map(FromValue::from_value),
            f3: s[3].as_ref().map(FromValue::from_value),
        }
    }
}
impl ToValue for Ts4ooome1 {
    fn to_value(&self) -> Value {
        Value::Seq(vec![
            self.f0.as_ref().map(|x| x.to_value()),
            self.f1.as_ref().map(|x| x.to_value()),
            self.f2.as_ref().map(|x| x.to_value()),
            self.f3.as_ref().map(|x| x.to_value()),
        ])
    }
}
impl FromValue for Ts4ooome2 {
    fn from_value(v: &Value) -> Self {
        let s = match v { Value::Seq(s) => s, other => panic!("Ts4ooome2: expected Seq, got {other:?}") };
        assert_eq!(s.len(), 4, "Ts4ooome2: component count");
        let _ = s;
        Ts4ooome2 {
            f0: s[0].as_ref().map(FromValue::from_value),
            f1: s[1].as_ref().map(FromValue::from_value),
            f2: s[2].as_ref().map(FromValue::from_value),
            f3: s[3].as_ref().map(FromValue::from_value),
        }
    }
}
impl ToValue for Ts4ooome2 {
    fn to_value(&self) -> Value {
        Value::Seq(vec![
            self.f0.as_ref().map(|x| x.to_value()),
            self.f1.as_ref().map(|x| x.to_value()),
            self.f2.as_ref().map(|x| x.to_value()),
            self.f3.as_ref().map(|x| x.to_value()),
        ])
    }
}
impl FromValue for Ts4ooome3 {
    fn from_value(v: &Value) -> Self {
        let s = match v { Value::Seq(s) => s, other => panic!("Ts4ooome3: expected Seq, got {other:?}") };
        assert_eq!(s.len(), 4, "Ts4ooome3: component count");
        let _ = s;
        Ts4ooome3 {
            f0: s[0].as_ref().map(FromValue::from_value),
            f1: s[1].as_ref().map(FromValue::from_value),
            f2: s[2].as_ref().map(FromValue::from_value),
            f3: s[3].as_ref().map(FromValue::from_value),
        }
    }
}
impl ToValue for Ts4ooome3 {
    fn to_value(&self) -> Value {
        Value::Seq(vec![
            self.f0.as_ref().map(|x| x.to_value()),
            self.f1.as_ref().map(|x| x.to_value()),
            self.f2.as_ref().map(|x| x.to_value()),
            self.f3.as_ref().map(|x| x.to_value()),
        ])
    }
}
impl FromValue for Ts4ooome4 {
    fn from_value(v: &Value) -> Self {
        let s = match v { Value::Seq(s) => s, other => panic!("Ts4ooome4: expected Seq, got {other:?}") };
        assert_eq!(s.len(), 4, "Ts4ooome4: component count");
        let _ = s;
        Ts4ooome4 {
            f0: s[0].as_ref().map(FromValue::from_value),
            f1: s[1].as_ref().map(FromValue::from_value),
            f2: s[2].as_ref().map(FromValue::from_value),
            f3: FromValue::from_value(s[3].as_ref().expect("component f3 of Ts4ooome4 must be present")),
        }
    }
}
impl ToValue for Ts4ooome4 {
    fn to_value(&self) -> Value {
        Value::Seq(vec![
            self.f0.as_ref().map(|x| x.to_value()),
            self.f1.as_ref().map(|x| x.to_value()),
            self.f2.as_ref().map(|x| x.to_value()),
            Some(self.f3.to_value()),
        ])
    }
}
impl FromValue for Ts4doomn {
    fn from_value(v: &Value) -> Self {
        let s = match v { Value::Seq(s) => s, other => panic!("Ts4doomn: expected Seq, got {other:?}") };
        assert_eq!(s.len(), 4, "Ts4doomn: component count");
        let _ = s;
        Ts4doomn {
            f0: FromValue::from_value(s[0].as_ref().expect("component f0 of Ts4doomn must be present")),
            f1: s[1].as_ref().map(FromValue::from_value),
            f2: s[2].as_ref().map(FromValue::from_value),
            f3: FromValue::from_value(s[3].as_ref().expect("component f3 of Ts4doomn must be present")),
        }
    }
}
impl ToValue for Ts4doomn {
    fn to_value(&self) -> Value {
        Value::Seq(vec![
            Some(self.f0.to_value()),
            self.f1.as_ref().map(|x| x.to_value()),
            self.f2.as_ref().map(|x| x.to_value()),
            Some(self.f3.to_value()),
        ])
    }
}
impl FromValue for Ts4doome0 {
    fn from_value(v: &Value) -> Self {
        let s = match v { Value::Seq(s) => s, other => panic!("Ts4doome0: expected Seq, got {other:?}") };
        assert_eq!(s.len(), 4, "Ts4doome0: component count");
        let _ = s;
        Ts4doome0 {
            f0: FromValue::from_value(s[0].as_ref().expect("component f0 of Ts4doome0 must be present")),
            f1: s[1].as_ref().map(FromValue::from_value),
            f2: s[2].as_ref().map(FromValue::from_value),
            f3: s[3].as_ref().map(FromValue::from_value),
        }
    }
}
impl ToValue for Ts4doome0 {
    fn to_value(&self) -> Value {
        Value::Seq(vec![
            Some(self.f0.to_value()),
            self.f1.as_ref().map(|x| x.to_value()),
            self.f2.as_ref().map(|x| x.to_value()),
            self.f3.as_ref().map(|x| x.to_value()),
        ])
    }
}
impl FromValue for Ts4doome1 {
    fn from_value(v: &Value) -> Self {
        let s = match v { Value::Seq(s) => s, other => panic!("Ts4doome1: expected Seq, got {other:?}") };
        assert_eq!(s.len(), 4, "Ts4doome1: component count");
        let _ = s;
        Ts4doome1 {
            f0: FromValue::from_value(s[0].as_ref().expect("component f0 of Ts4doome1 must be present")),
            f1: s[1].as_ref().map(FromValue::from_value),
            f2: s[2].as_ref().map(FromValue::from_value),
            f3: s[3].as_ref().map(FromValue::from_value),
        }
    }
}
impl ToValue for Ts4doome1 {
    fn to_value(&self) -> Value {
        Value::Seq(vec![
            Some(self.f0.to_value()),
            self.f1.as_ref().map(|x| x.to_value()),
            self.f2.as_ref().map(|x| x.to_value()),
            self.f3.as_ref().map(|x| x.to_value()),
        ])
    }
}
impl FromValue for Ts4doome2 {
    fn from_value(v: &Value) -> Self {
        let s = match v { Value::Seq(s) => s, other => panic!("Ts4doome2: expected Seq, got {other:?}") };
        assert_eq!(s.len(), 4, "Ts4doome2: component count");
        let _ = s;
        Ts4doome2 {
            f0: FromValue::from_value(s[0].as_ref().expect("component f0 of Ts4doome2 must be present")),
            f1: s[1].as_ref().map(FromValue::from_value),
            f2: s[2].as_ref().map(FromValue::from_value),
            f3: s[3].as_ref().map(FromValue::from_value),
        }
    }
}
impl ToValue for Ts4doome2 {
    fn to_value(&self) -> Value {
        Value::Seq(vec![
            Some(self.f0.to_value()),
            self.f1.as_ref().map(|x| x.to_value()),
            self.f2.as_ref().map(|x| x.to_value()),
            self.f3.as_ref().map(|x| x.to_value()),
        ])
    }
}
impl FromValue for Ts4doome3 {
    fn from_value(v: &Value) -> Self {
        let s = match v { Value::Seq(s) => s, other => panic!("Ts4doome3: expected Seq, got {other:?}") };
        assert_eq!(s.len(), 4, "Ts4doome3: component count");
        let _ = s;
        Ts4doome3 {
            f0: FromValue::from_value(s[0].as_ref().expect("component f0 of Ts4doome3 must be present")),
            f1: s[1].as_ref().map(FromValue::from_value),
            f2: s[2].as_ref().map(FromValue::from_value),
            f3: s[3].as_ref().map(FromValue::from_value),
        }
    }
}
impl ToValue for Ts4doome3 {
    fn to_value(&self) -> Value {
        Value::Seq(vec![
            Some(self.f0.to_value()),
            self.f1.as_ref().map(|x| x.to_value()),
            self.f2.as_ref().map(|x| x.to_value()),
            self.f3.as_ref().map(|x| x.to_value()),
        ])
    }
}
impl FromValue for Ts4doome4 {
    fn from_value(v: &Value) -> Self {
        let s = match v { Value::Seq(s) => s, other => panic!("Ts4doome4: expected Seq, got {other:?}") };
        assert_eq!(s.len(), 4, "Ts4doome4: component count");
        let _ = s;
        Ts4doome4 {
            f0: FromValue::from_value(s[0].as_ref().expect("component f0 of Ts4doome4 must be present")),
            f1: s[1].as_ref().map(FromValue::from_value),
            f2: s[2].as_ref().map(FromValue::from_value),
            f3: FromValue::from_value(s[3].as_ref().expect("component f3 of Ts4doome4 must be present")),
        }
    }
}
impl ToValue for Ts4doome4 {
    fn to_value(&self) -> Value {
        Value::Seq(vec![
            Some(self.f0.to_value()),
            self.f1.as_ref().map(|x| x.to_value()),
            self.f2.as_ref().map(|x| x.to_value()),
            Some(self.f3.to_value()),
        ])
    }
}
impl FromValue for Ts4mdomn {
    fn from_value(v: &Value) -> Self {
        let s = match v { Value::Seq(s) => s, other => panic!("Ts4mdomn: expected Seq, got {other:?}") };
        assert_eq!(s.len(), 4, "Ts4mdomn: component count");
        let _ = s;
        Ts4mdomn {
            f0: FromValue::from_value(s[0].as_ref().expect("component f0 of Ts4mdomn must be present")),
            f1: FromValue::from_value(s[1].as_ref().expect("component f1 of Ts4mdomn must be present")),
            f2: s[2].as_ref().map(FromValue::from_value),
            f3: FromValue::from_value(s[3].as_ref().expect("component f3 of Ts4mdomn must be present")),
        }
    }
}
impl ToValue for Ts4mdomn {
    fn to_value(&self) -> Value {
        Value::Seq(vec![
            Some(self.f0.to_value()),
            Some(self.f1.to_value()),
            self.f2.as_ref().map(|x| x.to_value()),
            Some(self.f3.to_value()),
        ])
    }
}
impl FromValue for Ts4mdome0 {
    fn from_value(v: &Value) -> Self {
        let s = match v { Value::Seq(s) => s, other => panic!("Ts4mdome0: expected Seq, got {other:?}") };
        assert_eq!(s.len(), 4, "Ts4mdome0: component count");
        let _ = s;
        Ts4mdome0 {
            f0: FromValue::from_value(s[0].as_ref().expect("component f0 of Ts4mdome0 must be present")),
            f1: FromValue::from_value(s[1].as_ref().expect("component f1 of Ts4mdome0 must be present")),
            f2: s[2].as_ref().map(FromValue::from_value),
            f3: s[3].as_ref().map(FromValue::from_value),
        }
    }
}
impl ToValue for Ts4mdome0 {
    fn to_value(&self) -> Value {
        Value::Seq(vec![
            Some(self.f0.to_value()),
            Some(self.f1.to_value()),
            self.f2.as_ref().map(|x| x.to_value()),
            self.f3.as_ref().map(|x| x.to_value()),
        ])
    }
}
impl FromValue for Ts4mdome1 {
    fn from_value(v: &Value) -> Self {
        let s = match v { Value::Seq(s) => s, other => panic!("Ts4mdome1: expected Seq, got {other:?}") };
        assert_eq!(s.len(), 4, "Ts4mdome1: component count");
        let _ = s;
        Ts4mdome1 {
            f0: FromValue::from_value(s[0].as_ref().expect("component f0 of Ts4mdome1 must be present")),
            f1: FromValue::from_value(s[1].as_ref().expect("component f1 of Ts4mdome1 must be present")),
            f2: s[2].as_ref().map(FromValue::from_value),
            f3: s[3].as_ref().map(FromValue::from_value),
        }
    }
}
impl ToValue for Ts4mdome1 {
    fn to_value(&self) -> Value {
        Value::Seq(vec![
            Some(self.f0.to_value()),
            Some(self.f1.to_value()),
            self.f2.as_ref().map(|x| x.to_value()),
            self.f3.as_ref().map(|x| x.to_value()),
        ])
    }
}
impl FromValue for Ts4mdome2 {
    fn from_value(v: &Value) -> Self {
        let s = match v { Value::Seq(s) => s, other => panic!("Ts4mdome2: expected Seq, got {other:?}") };
        assert_eq!(s.len(), 4, "Ts4mdome2: component count");
        let _ = s;
        Ts4mdome2 {
            f0: FromValue::from_value(s[0].as_ref().expect("component f0 of Ts4mdome2 must be present")),
            f1: FromValue::from_value(s[1].as_ref().expect("component f1 of Ts4mdome2 must be present")),
            f2: s[2].as_ref().map(FromValue::from_value),
            f3: s[3].as_ref().map(FromValue::from_value),
        }
    }
}
impl ToValue for Ts4mdome2 {
    fn to_value(&self) -> Value {
        Value::Seq(vec![
            Some(self.f0.to_value()),
            Some(self.f1.to_value()),
            self.f2.as_ref().map(|x| x.to_value()),
            self.f3.as_ref().map(|x| x.to_value()),
        ])
    }
}
impl FromValue for Ts4mdome3 {
    fn from_value(v: &Value) -> Self {
        let s = match v { Value::Seq(s) => s, other => panic!("Ts4mdome3: expected Seq, got {other:?}") };
        assert_eq!(s.len(), 4, "Ts4mdome3: component count");
        let _ = s;
        Ts4mdome3 {
            f0: FromValue::from_value(s[0].as_ref().expect("component f0 of Ts4mdome3 must be present")),
            f1: FromValue::from_value(s[1].as_ref().expect("component f1 of Ts4mdome3 must be present")),
            f2: s[2].as_ref().map(FromValue::from_value),
            f3: s[3].as_ref().map(FromValue::from_value),
        }
    }
}
impl ToValue for Ts4mdome3 {
    fn to_value(&self) -> Value {
        Value::Seq(vec![
            Some(self.f0.to_value()),
            Some(self.f1.to_value()),
            self.f2.as_ref().map(|x| x.to_value()),
            self.f3.as_ref().map(|x| x.to_value()),
        ])
    }
}
impl FromValue for Ts4mdome4 {
    fn from_value(v: &Value) -> Self {
        let s = match v { Value::Seq(s) => s, other => panic!("Ts4mdome4: expected Seq, got {other:?}") };
        assert_eq!(s.len(), 4, "Ts4mdome4: component count");
        let _ = s;
        Ts4mdome4 {
            f0: FromValue::from_value(s[0].as_ref().expect("component f0 of Ts4mdome4 must be present")),
            f1: FromValue::from_value(s[1].as_ref().expect("component f1 of Ts4mdome4 must be present")),
            f2: s[2].as_ref().map(FromValue::from_value),
            f3: FromValue::from_value(s[3].as_ref().expect("component f3 of Ts4mdome4 must be present")),
        }
    }
}
impl ToValue for Ts4mdome4 {
    fn to_value(&self) -> Value {
        Value::Seq(vec![
            Some(self.f0.to_value()),
            Some(self.f1.to_value()),
            self.f2.as_ref().map(|x| x.to_value()),
            Some(self.f3.to_value()),
        ])
    }
}
impl FromValue for Ts4odomn {
    fn from_value(v: &Value) -> Self {
        let s = match v { Value::Seq(s) => s, other => panic!("Ts4odomn: expected Seq, got {other:?}") };
        assert_eq!(s.len(), 4, "Ts4odomn: component count");
        let _ = s;
        Ts4odomn {
            f0: s[0].as_ref().map(FromValue::from_value),
            f1: FromValue::from_value(s[1].as_ref().expect("component f1 of Ts4odomn must be present")),
            f2: s[2].as_ref().map(FromValue::from_value),
            f3: FromValue::from_value(s[3].as_ref().expect("component f3 of Ts4odomn must be present")),
        }
    }
}
impl ToValue for Ts4odomn {
    fn to_value(&self) -> Value {
        Value::Seq(vec![
            self.f0.as_ref().map(|x| x.to_value()),
            Some(self.f1.to_value()),
            self.f2.as_ref().map(|x| x.to_value()),
            Some(self.f3.to_value()),
        ])
    }
}
impl FromValue for Ts4odome0 {
    fn from_value(v: &Value) -> Self {
        let s = match v { Value::Seq(s) => s, other => panic!("Ts4odome0: expected Seq, got {other:?}") };
        assert_eq!(s.len(), 4, "Ts4odome0: component count");
        let _ = s;
        Ts4odome0 {
            f0: s[0].as_ref().map(FromValue::from_value),
            f1: FromValue::from_value(s[1].as_ref().expect("component f1 of Ts4odome0 must be present")),
            f2: s[2].as_ref().map(FromValue::from_value),
            f3: s[3].as_ref().map(FromValue::from_value),
        }
    }
}
impl ToValue for Ts4odome0 {
    fn to_value(&self) -> Value {
        Value::Seq(vec![
            self.f0.as_ref().map(|x| x.to_value()),
            Some(self.f1.to_value()),
            self.f2.as_ref().map(|x| x.to_value()),
            self.f3.as_ref().map(|x| x.to_value()),
        ])
    }
}
impl FromValue for Ts4odome1 {
    fn from_value(v: &Value) -> Self {
        let s = match v { Value::Seq(s) => s, other => panic!("Ts4odome1: expected Seq, got {other:?}") };
        assert_eq!(s.len(), 4, "Ts4odome1: component count");
        let _ = s;
        Ts4odome1 {
            f0: s[0].as_ref().map(FromValue::from_value),
            f1: FromValue::from_value(s[1].as_ref().expect("component f1 of Ts4odome1 must be present")),
            f2: s[2].as_ref().map(FromValue::from_value),
            f3: s[3].as_ref().map(FromValue::from_value),
        }
    }
}
impl ToValue for Ts4odome1 {
    fn to_value(&self) -> Value {
        Value::Seq(vec![
            self.f0.as_ref().map(|x| x.to_value()),
            Some(self.f1.to_value()),
            self.f2.as_ref().map(|x| x.to_value()),
            self.f3.as_ref().map(|x| x.to_value()),
        ])
    }
}
impl FromValue for Ts4odome2 {
    fn from_value(v: &Value) -> Self {
        let s = match v { Value::Seq(s) => s, other => panic!("Ts4odome2: expected Seq, got {other:?}") };
        assert_eq!(s.len(), 4, "Ts4odome2: component count");
        let _ = s;
        Ts4odome2 {
            f0: s[0].as_ref().map(FromValue::from_value),
            f1: FromValue::from_value(s[1].as_ref().expect("component f1 of Ts4odome2 must be present")),
            f2: s[2].as_ref().map(FromValue::from_value),
            f3: s[3].as_ref().map(FromValue::from_value),
        }
    }
}
impl ToValue for Ts4odome2 {
    fn to_value(&self) -> Value {
        Value::Seq(vec![
            self.f0.as_ref().map(|x| x.to_value()),
            Some(self.f1.to_value()),
            self.f2.as_ref().map(|x| x.to_value()),
            self.f3.as_ref().map(|x| x.to_value()),
        ])
    }
}
impl FromValue for Ts4odome3 {
    fn from_value(v: &Value) -> Self {
        let s = match v { Value::Seq(s) => s, other => panic!("Ts4odome3: expected Seq, got {other:?}") };
        assert_eq!(s.len(), 4, "Ts4odome3: component count");
        let _ = s;
        Ts4odome3 {
            f0: s[0].as_ref().map(FromValue::from_value),
            f1: FromValue::from_value(s[1].as_ref().expect("component f1 of Ts4odome3 must be present")),
            f2: s[2].as_ref().map(FromValue::from_value),
            f3: s[3].as_ref().map(FromValue::from_value),
        }
    }
}
impl ToValue for Ts4odome3 {
    fn to_value(&self) -> Value {
        Value::Seq(vec![
            self.f0.as_ref().map(|x| x.to_value()),
            Some(self.f1.to_value()),
            self.f2.as_ref().map(|x| x.to_value()),
            self.f3.as_ref().map(|x| x.to_value()),
        ])
    }
}
impl FromValue for Ts4odome4 {
    fn from_value(v: &Value) -> Self {
        let s = match v { Value::Seq(s) => s, other => panic!("Ts4odome4: expected Seq, got {other:?}") };
        assert_eq!(s.len(), 4, "Ts4odome4: component count");
        let _ = s;
        Ts4odome4 {
            f0: s[0].as_ref().map(FromValue::from_value),
            f1: FromValue::from_value(s[1].as_ref().expect("component f1 of Ts4odome4 must be present")),
            f2: s[2].as_ref().map(FromValue::from_value),
            f3: FromValue::from_value(s[3].as_ref().expect("component f3 of Ts4odome4 must be present")),
        }
    }
}
impl ToValue for Ts4odome4 {
    fn to_value(&self) -> Value {
        Value::Seq(vec![
            self.f0.as_ref().map(|x| x.to_value()),
            Some(self.f1.to_value()),
            self.f2.as_ref().map(|x| x.to_value()),
            Some(self.f3.to_value()),
        ])
    }
}
impl FromValue for Ts4ddomn {
    fn from_value(v: &Value) -> Self {
        let s = match v { Value::Seq(s) => s, other => panic!("Ts4ddomn: expected Seq, got {other:?}") };
        assert_eq!(s.len(), 4, "Ts4ddomn: component count");
        let _ = s;
        Ts4ddomn {
            f0: FromValue::from_value(s[0].as_ref().expect("component f0 of Ts4ddomn must be present")),
            f1: FromValue::from_value(s[1].as_ref().expect("component f1 of Ts4ddomn must be present")),
            f2: s[2].as_ref().map(FromValue::from_value),
            f3: FromValue::from_value(s[3].as_ref().expect("component f3 of Ts4ddomn must be present")),
        }
    }
}
impl ToValue for Ts4ddomn {
    fn to_value(&self) -> Value {
        Value::Seq(vec![
            Some(self.f0.to_value()),
            Some(self.f1.to_value()),
            self.f2.as_ref().map(|x| x.to_value()),
            Some(self.f3.to_value()),
        ])
    }
}
impl FromValue for Ts4ddome0 {
    fn from_value(v: &Value) -> Self {
        let s = match v { Value::Seq(s) => s, other => panic!("Ts4ddome0: expected Seq, got {other:?}") };
        assert_eq!(s.len(), 4, "Ts4ddome0: component count");
        let _ = s;
        Ts4ddome0 {
            f0: FromValue::from_value(s[0].as_ref().expect("component f0 of Ts4ddome0 must be present")),
            f1: FromValue::from_value(s[1].as_ref().expect("component f1 of Ts4ddome0 must be present")),
            f2: s[2].as_ref().map(FromValue::from_value),
            f3: s[3].as_ref().map(FromValue::from_value),
        }
    }
}
impl ToValue for Ts4ddome0 {
    fn to_value(&self) -> Value {
        Value::Seq(vec![
            Some(self.f0.to_value()),
            Some(self.f1.to_value()),
            self.f2.as_ref().map(|x| x.to_value()),
            self.f3.as_ref().map(|x| x.to_value()),
        ])
    }
}
impl FromValue for Ts4ddome1 {
    fn from_value(v: &Value) -> Self {
        let s = match v { Value::Seq(s) => s, other => panic!("Ts4ddome1: expected Seq, got {other:?}") };
        assert_eq!(s.len(), 4, "Ts4ddome1: component count");
        let _ = s;
        Ts4ddome1 {
            f0: FromValue::from_value(s[0].as_ref().expect("component f0 of Ts4ddome1 must be present")),
            f1: FromValue::from_value(s[1].as_ref().expect("component f1 of Ts4ddome1 must be present")),
            f2: s[2].as_ref().map(FromValue::from_value),
            f3: s[3].as_ref().map(FromValue::from_value),
        }
    }
}
impl ToValue for Ts4ddome1 {
    fn to_value(&self) -> Value {
        Value::Seq(vec![
            Some(self.f0.to_value()),
            Some(self.f1.to_value()),
            self.f2.as_ref().map(|x| x.to_value()),
            self.f3.as_ref().map(|x| x.to_value()),
        ])
    }
}
impl FromValue for Ts4ddome2 {
    fn from_value(v: &Value) -> Self {
        let s = match v { Value::Seq(s) => s, other => panic!("Ts4ddome2: expected Seq, got {other:?}") };
        assert_eq!(s.len(), 4, "Ts4ddome2: component count");
        let _ = s;
        Ts4ddome2 {
            f0: FromValue::from_value(s[0].as_ref().expect("component f0 of Ts4ddome2 must be present")),
            f1: FromValue::from_value(s[1].as_ref().expect("component f1 of Ts4ddome2 must be present")),
            f2: s[2].as_ref().map(FromValue::from_value),
            f3: s[3].as_ref().map(FromValue::from_value),
        }
    }
}
impl ToValue for Ts4ddome2 {
    fn to_value(&self) -> Value {
        Value::Seq(vec![
            Some(self.f0.to_value()),
            Some(self.f1.to_value()),
            self.f2.as_ref().map(|x| x.to_value()),
            self.f3.as_ref().map(|x| x.to_value()),
        ])
    }
}
impl FromValue for Ts4ddome3 {
    fn from_value(v: &Value) -> Self {
        let s = match v { Value::Seq(s) => s, other => panic!("Ts4ddome3: expected Seq, got {other:?}") };
        assert_eq!(s.len(), 4, "Ts4ddome3: component count");
        let _ = s;
        Ts4ddome3 {
            f0: FromValue::from_value(s[0].as_ref().expect("component f0 of Ts4ddome3 must be present")),
            f1: FromValue::from_value(s[1].as_ref().expect("component f1 of Ts4ddome3 must be present")),
            f2: s[2].as_ref().map(FromValue::from_value),
            f3: s[3].as_ref().map(FromValue::from_value),
        }
    }
}
impl ToValue for Ts4ddome3 {
    fn to_value(&self) -> Value {
        Value::Seq(vec![
            Some(self.f0.to_value()),
            Some(self.f1.to_value()),
            self.f2.as_ref().map(|x| x.to_value()),
            self.f3.as_ref().map(|x| x.to_value()),
        ])
    }
}
impl FromValue for Ts4ddome4 {
    fn from_value(v: &Value) -> Self {
        let s = match v { Value::Seq(s) => s, other => panic!("Ts4ddome4: expected Seq, got {other:?}") };
        assert_eq!(s.len(), 4, "Ts4ddome4: component count");
        let _ = s;
        Ts4ddome4 {
            f0: FromValue::from_value(s[0].as_ref().expect("component f0 of Ts4ddome4 must be present")),
            f1: FromValue::from_value(s[1].as_ref().expect("component f1 of Ts4ddome4 must be present")),
            f2: s[2].as_ref().map(FromValue::from_value),
            f3: FromValue::from_value(s[3].as_ref().expect("component f3 of Ts4ddome4 must be present")),
        }
    }
}
impl ToValue for Ts4ddome4 {
    fn to_value(&self) -> Value {
        Value::Seq(vec![
            Some(self.f0.to_value()),
            Some(self.f1.to_value()),
            self.f2.as_ref().map(|x| x.to_value()),
            Some(self.f3.to_value()),
        ])
    }
}
impl FromValue for Ts4mmdmn {
    fn from_value(v: &Value) -> Self {
        let s = match v { Value::Seq(s) => s, other => panic!("Ts4mmdmn: expected Seq, got {other:?}") };
        assert_eq!(s.len(), 4, "Ts4mmdmn: component count");
        let _ = s;
        Ts4mmdmn {
            f0: FromValue::from_value(s[0].as_ref().expect("component f0 of Ts4mmdmn must be present")),
            f1: FromValue::from_value(s[1].as_ref().expect("component f1 of Ts4mmdmn must be present")),
            f2: FromValue::from_value(s[2].as_ref().expect("component f2 of Ts4mmdmn must be present")),
            f3: FromValue::from_value(s[3].as_ref().expect("component f3 of Ts4mmdmn must be present")),
        }
    }
}
impl ToValue for Ts4mmdmn {
    fn to_value(&self) -> Value {
        Value::Seq(vec![
            Some(self.f0.to_value()),
            Some(self.f1.to_value()),
            Some(self.f2.to_value()),
            Some(self.f3.to_value()),
        ])
    }
}
impl FromValue for Ts4mmdme0 {
    fn from_value(v: &Value) -> Self {
        let s = match v { Value::Seq(s) => s, other => panic!("Ts4mmdme0: expected Seq, got {other:?}") };
        assert_eq!(s.len(), 4, "Ts4mmdme0: component count");
        let _ = s;
        Ts4mmdme0 {
            f0: FromValue::from_value(s[0].as_ref().expect("component f0 of Ts4mmdme0 must be present")),
            f1: s[1].as_ref().map(FromValue::from_value),
            f2: FromValue::from_value(s[2].as_ref().expect("component f2 of Ts4mmdme0 must be present")),
            f3: s[3].as_ref().map(FromValue::from_value),
        }
    }
}
impl ToValue for Ts4mmdme0 {
    fn to_value(&self) -> Value {
        Value::Seq(vec![
            Some(self.f0.to_value()),
            self.f1.as_ref().map(|x| x.to_value()),
            Some(self.f2.to_value()),
            self.f3.as_ref().map(|x| x.to_value()),
        ])
    }
}
impl FromValue for Ts4mmdme1 {
    fn from_value(v: &Value) -> Self {
        let s = match v { Value::Seq(s) => s, other => panic!("Ts4mmdme1: expected Seq, got {other:?}") };
        assert_eq!(s.len(), 4, "Ts4mmdme1: component count");
        let _ = s;
        Ts4mmdme1 {
            f0: FromValue::from_value(s[0].as_ref().expect("component f0 of Ts4mmdme1 must be present")),
            f1: s[1].as_ref().map(FromValue::from_value),
            f2: FromValue::from_value(s[2].as_ref().expect("component f2 of Ts4mmdme1 must be present")),
            f3: s[3].as_ref().map(FromValue::from_value),
        }
    }
}
impl ToValue for Ts4mmdme1 {
    fn to_value(&self) -> Value {
        Value::Seq(vec![
            Some(self.f0.to_value()),
            self.f1.as_ref().map(|x| x.to_value()),
            Some(self.f2.to_value()),
            self.f3.as_ref().map(|x| x.to_value()),
        ])
    }
}
impl FromValue for Ts4mmdme2 {
    fn from_value(v: &Value) -> Self {
        let s = match v { Value::Seq(s) => s, other => panic!("Ts4mmdme2: expected Seq, got {other:?}") };
        assert_eq!(s.len(), 4, "Ts4mmdme2: component count");
        let _ = s;
        Ts4mmdme2 {
            f0: FromValue::from_value(s[0].as_ref().expect("component f0 of Ts4mmdme2 must be present")),
            f1: FromValue::from_value(s[1].as_ref().expect("component f1 of Ts4mmdme2 must be present")),
            f2: FromValue::from_value(s[2].as_ref().expect("component f2 of Ts4mmdme2 must be present")),
            f3: s[3].as_ref().map(FromValue::from_value),
        }
    }
}
impl ToValue for Ts4mmdme2 {
    fn to_value(&self) -> Value {
        Value::Seq(vec![
            Some(self.f0.to_value()),
            Some(self.f1.to_value()),
            Some(self.f2.to_value()),
            self.f3.as_ref().map(|x| x.to_value()),
        ])
    }
}
impl FromValue for Ts4mmdme3 {
    fn from_value(v: &Value) -> Self {
        let s = match v { Value::Seq(s) => s, other => panic!("Ts4mmdme3: expected Seq, got {other:?}") };
        assert_eq!(s.len(), 4, "Ts4mmdme3: component count");
        let _ = s;
        Ts4mmdme3 {
            f0: FromValue::from_value(s[0].as_ref().expect("component f0 of Ts4mmdme3 must be present")),
            f1: FromValue::from_value(s[1].as_ref().expect("component f1 of Ts4mmdme3 must be present")),
            f2: FromValue::from_value(s[2].as_ref().expect("component f2 of Ts4mmdme3 must be present")),
            f3: s[3].as_ref().map(FromValue::from_value),
        }
    }
}
impl ToValue for Ts4mmdme3 {
    fn to_value(&self) -> Value {
        Value::Seq(vec![
            Some(self.f0.to_value()),
            Some(self.f1.to_value()),
            Some(self.f2.to_value()),
            self.f3.as_ref().map(|x| x.to_value()),
        ])
    }
}
impl FromValue for Ts4mmdme4 {
    fn from_value(v: &Value) -> Self {
        let s = match v { Value::Seq(s) => s, other => panic!("Ts4mmdme4: expected Seq, got {other:?}") };
        assert_eq!(s.len(), 4, "Ts4mmdme4: component count");
        let _ = s;
        Ts4mmdme4 {
            f0: FromValue::from_value(s[0].as_ref().expect("component f0 of Ts4mmdme4 must be present")),
            f1: FromValue::from_value(s[1].as_ref().expect("component f1 of Ts4mmdme4 must be present")),
            f2: FromValue::from_value(s[2].as_ref().expect("component f2 of Ts4mmdme4 must be present")),
            f3: FromValue::from_value(s[3].as_ref().expect("component f3 of Ts4mmdme4 must be present")),
        }
    }
}
impl ToValue for Ts4mmdme4 {
    fn to_value(&self) -> Value {
        Value::Seq(vec![
            Some(self.f0.to_value()),
            Some(self.f1.to_value()),
            Some(self.f2.to_value()),
            Some(self.f3.to_value()),
        ])
    }
}
impl FromValue for Ts4omdmn {
    fn from_value(v: &Value) -> Self {
        let s = match v { Value::Seq(s) => s, other => panic!("Ts4omdmn: expected Seq, got {other:?}") };
        assert_eq!(s.len(), 4, "Ts4omdmn: component count");
        let _ = s;
        Ts4omdmn {
            f0: s[0].as_ref().map(FromValue::from_value),
            f1: FromValue::from_value(s[1].as_ref().expect("component f1 of Ts4omdmn must be present")),
            f2: FromValue::from_value(s[2].as_ref().expect("component f2 of Ts4omdmn must be present")),
            f3: FromValue::from_value(s[3].as_ref().expect("component f3 of Ts4omdmn must be present")),
        }
    }
}
impl ToValue for Ts4omdmn {
    fn to_value(&self) -> Value {
        Value::Seq(vec![
            self.f0.as_ref().map(|x| x.to_value()),
            Some(self.f1.to_value()),
            Some(self.f2.to_value()),
            Some(self.f3.to_value()),
        ])
    }
}
impl FromValue for Ts4omdme0 {
    fn from_value(v: &Value) -> Self {
        let s = match v { Value::Seq(s) => s, other => panic!("Ts4omdme0: expected Seq, got {other:?}") };
        assert_eq!(s.len(), 4, "Ts4omdme0: component count");
        let _ = s;
        Ts4omdme0 {
            f0: s[0].as_ref().map(FromValue::from_value),
            f1: s[1].as_ref().map(FromValue::from_value),
            f2: FromValue::from_value(s[2].as_ref().expect("component f2 of Ts4omdme0 must be present")),
            f3: s[3].as_ref().map(FromValue::from_value),
        }
    }
}
impl ToValue for Ts4omdme0 {
    fn to_value(&self) -> Value {
        Value::Seq(vec![
            self.f0.as_ref().map(|x| x.to_value()),
            self.f1.as_ref().map(|x| x.to_value()),
            Some(self.f2.to_value()),
            self.f3.as_ref().map(|x| x.to_value()),
        ])
    }
}
impl FromValue for Ts4omdme1 {
    fn from_value(v: &Value) -> Self {
        let s = match v { Value::Seq(s) => s, other => panic!("Ts4omdme1: expected Seq, got {other:?}") };
        assert_eq!(s.len(), 4, "Ts4omdme1: component count");
        let _ = s;
        Ts4omdme1 {
            f0: s[0].as_ref().map(FromValue::from_value),
            f1: s[1].as_ref().map(FromValue::from_value),
            f2: FromValue::from_value(s[2].as_ref().expect("component f2 of Ts4omdme1 must be present")),
            f3: s[3].as_ref().map(FromValue::from_value),
        }
    }
}
impl ToValue for Ts4omdme1 {
    fn to_value(&self) -> Value {
        Value::Seq(vec![
            self.f0.as_ref().map(|x| x.to_value()),
            self.f1.as_ref().map(|x| x.to_value()),
            Some(self.f2.to_value()),
            self.f3.as_ref().map(|x| x.to_value()),
        ])
    }
}
impl FromValue for Ts4omdme2 {
    fn from_value(v: &Value) -> Self {
        let s = match v { Value::Seq(s) => s, other => panic!("Ts4omdme2: expected Seq, got {other:?}") };
        assert_eq!(s.len(), 4, "Ts4omdme2: component count");
        let _ = s;
        Ts4omdme2 {
            f0: s[0].as_ref().map(FromValue::from_value),
            f1: FromValue::from_value(s[1].as_ref().expect("component f1 of Ts4omdme2 must be present")),
            f2: FromValue::from_value(s[2].as_ref().expect("component f2 of Ts4omdme2 must be present")),
            f3: s[3].as_ref().map(FromValue::from_value),
        }
    }
}
impl ToValue for Ts4omdme2 {
    fn to_value(&self) -> Value {
        Value::Seq(vec![
            self.f0.as_ref().map(|x| x.to_value()),
            Some(self.f1.to_value()),
            Some(self.f2.to_value()),
            self.f3.as_ref().map(|x| x.to_value()),
        ])
    }
}
impl FromValue for Ts4omdme3 {
    fn from_value(v: &Value) -> Self {
        let s = match v { Value::Seq(s) => s, other => panic!("Ts4omdme3: expected Seq, got {other:?}") };
        assert_eq!(s.len(), 4, "Ts4omdme3: component count");
        let _ = s;
        Ts4omdme3 {
            f0: s[0].as_ref().map(FromValue::from_value),
            f1: FromValue::from_value(s[1].as_ref().expect("component f1 of Ts4omdme3 must be present")),
            f2: FromValue::from_value(s[2].as_ref().expect("component f2 of Ts4omdme3 must be present")),
            f3: s[3].as_ref().map(FromValue::from_value),
        }
    }
}
impl ToValue for Ts4omdme3 {
    fn to_value(&self) -> Value {
        Value::Seq(vec![
            self.f0.as_ref().map(|x| x.to_value()),
            Some(self.f1.to_value()),
            Some(self.f2.to_value()),
            self.f3.as_ref().map(|x| x.to_value()),
        ])
    }
}
impl FromValue for Ts4omdme4 {
    fn from_value(v: &Value) -> Self {
        let s = match v { Value::Seq(s) => s, other => panic!("Ts4omdme4: expected Seq, got {other:?}") };
        assert_eq!(s.len(), 4, "Ts4omdme4: component count");
        let _ = s;
        Ts4omdme4 {
            f0: s[0].as_ref().map(FromValue::from_value),
            f1: FromValue::from_value(s[1].as_ref().expect("component f1 of Ts4omdme4 must be present")),
            f2: FromValue::from_value(s[2].as_ref().expect("component f2 of Ts4omdme4 must be present")),
            f3: FromValue::from_value(s[3].as_ref().expect("component f3 of Ts4omdme4 must be present")),
        }
    }
}
impl ToValue for Ts4omdme4 {
    fn to_value(&self) -> Value {
        Value::Seq(vec![
            self.f0.as_ref().map(|x| x.to_value()),
            Some(self.f1.to_value()),
            Some(self.f2.to_value()),
            Some(self.f3.to_value()),
        ])
    }
}

use asn1rs::prelude::*;

#[asn(sequence)]

#[derive(Default, Debug, Clone, PartialEq, Hash)]
pub struct Ts5mmmmmn {
    #[asn(integer(0..7))] pub f0: u8,
    #[asn(integer(0..7))] pub f1: u8,
    #[asn(integer(0..7))] pub f2: u8,
    #[asn(integer(0..7))] pub f3: u8,
    #[asn(integer(0..7))] pub f4: u8,
}

impl Ts5mmmmmn {
    pub const fn f0_min() -> u8 {
        0
    }

    pub const fn f0_max() -> u8 {
        7
    }

    pub const fn f1_min() -> u8 {
        0
    }

    pub const fn f1_max() -> u8 {
        7
    }

    pub const fn f2_min() -> u8 {
        0
    }

    pub const fn f2_max() -> u8 {
        7
    }

    pub const fn f3_min() -> u8 {
        0
    }

    pub const fn f3_max() -> u8 {
        7
    }

    pub const fn f4_min() -> u8 {
        0
    }

    pub const fn f4_max() -> u8 {
        7
    }
}

#[asn(sequence, extensible_after(f0))]

#[derive(Default, Debug, Clone, PartialEq, Hash)]
pub struct Ts5mmmmme0 {
    #[asn(integer(0..7))] pub f0: u8,
    #[asn(optional(integer(0..7)))] pub f1: Option<u8>,
    #[asn(optional(integer(0..7)))] pub f2: Option<u8>,
    #[asn(optional(integer(0..7)))] pub f3: Option<u8>,
    #[asn(optional(integer(0..7)))] pub f4: Option<u8>,
}

impl Ts5mmmmme0 {
    pub const fn f0_min() -> u8 {
        0
    }

    pub const fn f0_max() -> u8 {
        7
    }

    pub const fn f1_min() -> u8 {
        0
    }

    pub const fn f1_max() -> u8 {
        7
    }

    pub const fn f2_min() -> u8 {
        0
    }

    pub const fn f2_max() -> u8 {
        7
    }

    pub const fn f3_min() -> u8 {
        0
    }

    pub const fn f3_max() -> u8 {
        7
    }

    pub const fn f4_min() -> u8 {
        0
    }

    pub const fn f4_max() -> u8 {
        7
    }
}

#[asn(sequence, extensible_after(f0))]

#[derive(Default, Debug, Clone, PartialEq, Hash)]
pub struct Ts5mmmmme1 {
    #[asn(integer(0..7))] pub f0: u8,
    #[asn(optional(integer(0..7)))] pub f1: Option<u8>,
    #[asn(optional(integer(0..7)))] pub f2: Option<u8>,
    #[asn(optional(integer(0..7)))] pub f3: Option<u8>,
    #[asn(optional(integer(0..7)))] pub f4: Option<u8>,
}

impl Ts5mmmmme1 {
    pub const fn f0_min() -> u8 {
        0
    }

    pub const fn f0_max() -> u8 {
        7
    }

    pub const fn f1_min() -> u8 {
        0
    }

    pub const fn f1_max() -> u8 {
        7
    }

    pub const fn f2_min() -> u8 {
        0
    }

    pub const fn f2_max() -> u8 {
        7
    }

    pub const fn f3_min() -> u8 {
        0
    }

    pub const fn f3_max() -> u8 {
        7
    }

    pub const fn f4_min() -> u8 {
        0
    }

    pub const fn f4_max() -> u8 {
        7
    }
}

#[asn(sequence, extensible_after(f1))]

#[derive(Default, Debug, Clone, PartialEq, Hash)]
pub struct Ts5mmmmme2 {
    #[asn(integer(0..7))] pub f0: u8,
    #[asn(integer(0..7))] pub f1: u8,
    #[asn(optional(integer(0..7)))] pub f2: Option<u8>,
    #[asn(optional(integer(0..7)))] pub f3: Option<u8>,
    #[asn(optional(integer(0..7)))] pub f4: Option<u8>,
}

impl Ts5mmmmme2 {
    pub const fn f0_min() -> u8 {
        0
    }

    pub const fn f0_max() -> u8 {
        7
    }

    pub const fn f1_min() -> u8 {
        0
    }

    pub const fn f1_max() -> u8 {
        7
    }

    pub const fn f2_min() -> u8 {
        0
    }

    pub const fn f2_max() -> u8 {
        7
    }

    pub const fn f3_min() -> u8 {
        0
    }

    pub const fn f3_max() -> u8 {
        7
    }

    pub const fn f4_min() -> u8 {
        0
    }

    pub const fn f4_max() -> u8 {
        7
    }
}

#[asn(sequence, extensible_after(f2))]

#[derive(Default, Debug, Clone, PartialEq, Hash)]
pub struct Ts5mmmmme3 {
    #[asn(integer(0..7))] pub f0: u8,
    #[asn(integer(0..7))] pub f1: u8,
    #[asn(integer(0..7))] pub f2: u8,
    #[asn(optional(integer(0..7)))] pub f3: Option<u8>,
    #[asn(optional(integer(0..7)))] pub f4: Option<u8>,
}

impl Ts5mmmmme3 {
    pub const fn f0_min() -> u8 {
        0
    }

    pub const fn f0_max() -> u8 {
        7
    }

    pub const fn f1_min() -> u8 {
        0
    }

    pub const fn f1_max() -> u8 {
        7
    }

    pub const fn f2_min() -> u8 {
        0
    }

    pub const fn f2_max() -> u8 {
        7
    }

    pub const fn f3_min() -> u8 {
        0
    }

    pub const fn f3_max() -> u8 {
        7
    }

    pub const fn f4_min() -> u8 {
        0
    }

    pub const fn f4_max() -> u8 {
        7
    }
}

#[asn(sequence, extensible_after(f3))]

#[derive(Default, Debug, Clone, PartialEq, Hash)]
pub struct Ts5mmmmme4 {
    #[asn(integer(0..7))] pub f0: u8,
    #[asn(integer(0..7))] pub f1: u8,
    #[asn(integer(0..7))] pub f2: u8,
    #[asn(integer(0..7))] pub f3: u8,
    #[asn(optional(integer(0..7)))] pub f4: Option<u8>,
}

impl Ts5mmmmme4 {
    pub const fn f0_min() -> u8 {
        0
    }

    pub const fn f0_max() -> u8 {
        7
    }

    pub const fn f1_min() -> u8 {
        0
    }

    pub const fn f1_max() -> u8 {
        7
    }

    pub const fn f2_min() -> u8 {
        0
    }

    pub const fn f2_max() -> u8 {
        7
    }

    pub const fn f3_min() -> u8 {
        0
    }

    pub const fn f3_max() -> u8 {
        7
    }

    pub const fn f4_min() -> u8 {
        0
    }

    pub const fn f4_max() -> u8 {
        7
    }
}

#[asn(sequence, extensible_after(f4))]

#[derive(Default, Debug, Clone, PartialEq, Hash)]
pub struct Ts5mmmmme5 {
    #[asn(integer(0..7))] pub f0: u8,
    #[asn(integer(0..7))] pub f1: u8,
    #[asn(integer(0..7))] pub f2: u8,
    #[asn(integer(0..7))] pub f3: u8,
    #[asn(integer(0..7))] pub f4: u8,
}

impl Ts5mmmmme5 {
    pub const fn f0_min() -> u8 {
        0
    }

    pub const fn f0_max() -> u8 {
        7
    }

    pub const fn f1_min() -> u8 {
        0
    }

    pub const fn f1_max() -> u8 {
        7
    }

    pub const fn f2_min() -> u8 {
        0
    }

    pub const fn f2_max() -> u8 {
        7
    }

    pub const fn f3_min() -> u8 {
        0
    }

    pub const fn f3_max() -> u8 {
        7
    }

    pub const fn f4_min() -> u8 {
        0
    }

    pub const fn f4_max() -> u8 {
        7
    }
}

#[asn(sequence)]

#[derive(Default, Debug, Clone, PartialEq, Hash)]
pub struct Ts5ommmmn {
    #[asn(optional(integer(0..7)))] pub f0: Option<u8>,
    #[asn(integer(0..7))] pub f1: u8,
    #[asn(integer(0..7))] pub f2: u8,
    #[asn(integer(0..7))] pub f3: u8,
    #[asn(integer(0..7))] pub f4: u8,
}

impl Ts5ommmmn {
    pub const fn f0_min() -> u8 {
        0
    }

    pub const fn f0_max() -> u8 {
        7
    }

    pub const fn f1_min() -> u8 {
        0
    }

    pub const fn f1_max() -> u8 {
        7
    }

    pub const fn f2_min() -> u8 {
        0
    }

    pub const fn f2_max() -> u8 {
        7
    }

    pub const fn f3_min() -> u8 {
        0
    }

    pub const fn f3_max() -> u8 {
        7
    }

    pub const fn f4_min() -> u8 {
        0
    }

    pub const fn f4_max() -> u8 {
        7
    }
}

#[asn(sequence, extensible_after(f0))]

#[derive(Default, Debug, Clone, PartialEq, Hash)]
pub struct Ts5ommmme0 {
    #[asn(optional(integer(0..7)))] pub f0: Option<u8>,
    #[asn(optional(integer(0..7)))] pub f1: Option<u8>,
    #[asn(optional(integer(0..7)))] pub f2: Option<u8>,
    #[asn(optional(integer(0..7)))] pub f3: Option<u8>,
    #[asn(optional(integer(0..7)))] pub f4: Option<u8>,
}

impl Ts5ommmme0 {
    pub const fn f0_min() -> u8 {
        0
    }

    pub const fn f0_max() -> u8 {
        7
    }

    pub const fn f1_min() -> u8 {
        0
    }

    pub const fn f1_max() -> u8 {
        7
    }

    pub const fn f2_min() -> u8 {
        0
    }

    pub const fn f2_max() -> u8 {
        7
    }

    pub const fn f3_min() -> u8 {
        0
    }

    pub const fn f3_max() -> u8 {
        7
    }

    pub const fn f4_min() -> u8 {
        0
    }

    pub const fn f4_max() -> u8 {
        7
    }
}

#[asn(sequence, extensible_after(f0))]

#[derive(Default, Debug, Clone, PartialEq, Hash)]
pub struct Ts5ommmme1 {
    #[asn(optional(integer(0..7)))] pub f0: Option<u8>,
    #[asn(optional(integer(0..7)))] pub f1: Option<u8>,
    #[asn(optional(integer(0..7)))] pub f2: Option<u8>,
    #[asn(optional(integer(0..7)))] pub f3: Option<u8>,
    #[asn(optional(integer(0..7)))] pub f4: Option<u8>,
}

impl Ts5ommmme1 {
    pub const fn f0_min() -> u8 {
        0
    }

    pub const fn f0_max() -> u8 {
        7
    }

    pub const fn f1_min() -> u8 {
        0
    }

    pub const fn f1_max() -> u8 {
        7
    }

    pub const fn f2_min() -> u8 {
        0
    }

    pub const fn f2_max() -> u8 {
        7
    }

    pub const fn f3_min() -> u8 {
        0
    }

    pub const fn f3_max() -> u8 {
        7
    }

    pub const fn f4_min() -> u8 {
        0
    }

    pub const fn f4_max() -> u8 {
        7
    }
}

#[asn(sequence, extensible_after(f1))]

#[derive(Default, Debug, Clone, PartialEq, Hash)]
pub struct Ts5ommmme2 {
    #[asn(optional(integer(0..7)))] pub f0: Option<u8>,
    #[asn(integer(0..7))] pub f1: u8,
    #[asn(optional(integer(0..7)))] pub f2: Option<u8>,
    #[asn(optional(integer(0..7)))] pub f3: Option<u8>,
    #[asn(optional(integer(0..7)))] pub f4: Option<u8>,
}

impl Ts5ommmme2 {
    pub const fn f0_min() -> u8 {
        0
    }

    pub const fn f0_max() -> u8 {
        7
    }

    pub const fn f1_min() -> u8 {
        0
    }

    pub const fn f1_max() -> u8 {
        7
    }

    pub const fn f2_min() -> u8 {
        0
    }

    pub const fn f2_max() -> u8 {
        7
    }

    pub const fn f3_min() -> u8 {
        0
    }

    pub const fn f3_max() -> u8 {
        7
    }

    pub const fn f4_min() -> u8 {
        0
    }

    pub const fn f4_max() -> u8 {
        7
    }
}

#[asn(sequence, extensible_after(f2))]

#[derive(Default, Debug, Clone, PartialEq, Hash)]
pub struct Ts5ommmme3 {
    #[asn(optional(integer(0..7)))] pub f0: Option<u8>,
    #[asn(integer(0..7))] pub f1: u8,
    #[asn(integer(0..7))] pub f2: u8,
    #[asn(optional(integer(0..7)))] pub f3: Option<u8>,
    #[asn(optional(integer(0..7)))] pub f4: Option<u8>,
}

impl Ts5ommmme3 {
    pub const fn f0_min() -> u8 {
        0
    }

    pub const fn f0_max() -> u8 {
        7
    }

    pub const fn f1_min() -> u8 {
        0
    }

    pub const fn f1_max() -> u8 {
        7
    }

    pub const fn f2_min() -> u8 {
        0
    }

    pub const fn f2_max() -> u8 {
        7
    }

    pub const fn f3_min() -> u8 {
        0
    }

    pub const fn f3_max() -> u8 {
        7
    }

    pub const fn f4_min() -> u8 {
        0
    }

    pub const fn f4_max() -> u8 {
        7
    }
}

#[asn(sequence, extensible_after(f3))]

#[derive(Default, Debug, Clone, PartialEq, Hash)]
pub struct Ts5ommmme4 {
    #[asn(optional(integer(0..7)))] pub f0: Option<u8>,
    #[asn(integer(0..7))] pub f1: u8,
    #[asn(integer(0..7))] pub f2: u8,
    #[asn(integer(0..7))] pub f3: u8,
    #[asn(optional(integer(0..7)))] pub f4: Option<u8>,
}

impl Ts5ommmme4 {
    pub const fn f0_min() -> u8 {
        0
    }

    pub const fn f0_max() -> u8 {
        7
    }

    pub const fn f1_min() -> u8 {
        0
    }

    pub const fn f1_max() -> u8 {
        7
    }

    pub const fn f2_min() -> u8 {
        0
    }

    pub const fn f2_max() -> u8 {
        7
    }

    pub const fn f3_min() -> u8 {
        0
    }

    pub const fn f3_max() -> u8 {
        7
    }

    pub const fn f4_min() -> u8 {
        0
    }

    pub const fn f4_max() -> u8 {
        7
    }
}

#[asn(sequence, extensible_after(f4))]

#[derive(Default, Debug, Clone, PartialEq, Hash)]
pub struct Ts5ommmme5 {
    #[asn(optional(integer(0..7)))] pub f0: Option<u8>,
    #[asn(integer(0..7))] pub f1: u8,
    #[asn(integer(0..7))] pub f2: u8,
    #[asn(integer(0..7))] pub f3: u8,
    #[asn(integer(0..7))] pub f4: u8,
}

impl Ts5ommmme5 {
    pub const fn f0_min() -> u8 {
        0
    }

    pub const fn f0_max() -> u8 {
        7
    }

    pub const fn f1_min() -> u8 {
        0
    }

    pub const fn f1_max() -> u8 {
        7
    }

    pub const fn f2_min() -> u8 {
        0
    }

    pub const fn f2_max() -> u8 {
        7
    }

    pub const fn f3_min() -> u8 {
        0
    }

    pub const fn f3_max() -> u8 {
        7
    }

    pub const fn f4_min() -> u8 {
        0
    }

    pub const fn f4_max() -> u8 {
        7
    }
}

#[asn(sequence)]

#[derive(Default, Debug, Clone, PartialEq, Hash)]
pub struct Ts5dmmmmn {
    #[asn(default(integer(0..7), 5))] pub f0: u8,
    #[asn(integer(0..7))] pub f1: u8,
    #[asn(integer(0..7))] pub f2: u8,
    #[asn(integer(0..7))] pub f3: u8,
    #[asn(integer(0..7))] pub f4: u8,
}

impl Ts5dmmmmn {
    pub const fn f0_min() -> u8 {
        0
    }

    pub const fn f0_max() -> u8 {
        7
    }

    pub const fn f1_min() -> u8 {
        0
    }

    pub const fn f1_max() -> u8 {
        7
    }

    pub const fn f2_min() -> u8 {
        0
    }

    pub const fn f2_max() -> u8 {
        7
    }

    pub const fn f3_min() -> u8 {
        0
    }

    pub const fn f3_max() -> u8 {
        7
    }

    pub const fn f4_min() -> u8 {
        0
    }

    pub const fn f4_max() -> u8 {
        7
    }
}

#[asn(sequence, extensible_after(f0))]

#[derive(Default, Debug, Clone, PartialEq, Hash)]
pub struct Ts5dmmmme0 {
    #[asn(default(integer(0..7), 5))] pub f0: u8,
    #[asn(optional(integer(0..7)))] pub f1: Option<u8>,
    #[asn(optional(integer(0..7)))] pub f2: Option<u8>,
    #[asn(optional(integer(0..7)))] pub f3: Option<u8>,
    #[asn(optional(integer(0..7)))] pub f4: Option<u8>,
}

impl Ts5dmmmme0 {
    pub const fn f0_min() -> u8 {
        0
    }

    pub const fn f0_max() -> u8 {
        7
    }

    pub const fn f1_min() -> u8 {
        0
    }

    pub const fn f1_max() -> u8 {
        7
    }

    pub const fn f2_min() -> u8 {
        0
    }

    pub const fn f2_max() -> u8 {
        7
    }

    pub const fn f3_min() -> u8 {
        0
    }

    pub const fn f3_max() -> u8 {
        7
    }

    pub const fn f4_min() -> u8 {
        0
    }

    pub const fn f4_max() -> u8 {
        7
    }
}

#[asn(sequence, extensible_after(f0))]

#[derive(Default, Debug, Clone, PartialEq, Hash)]
pub struct Ts5dmmmme1 {
    #[asn(default(integer(0..7), 5))] pub f0: u8,
    #[asn(optional(integer(0..7)))] pub f1: Option<u8>,
    #[asn(optional(integer(0..7)))] pub f2: Option<u8>,
    #[asn(optional(integer(0..7)))] pub f3: Option<u8>,
    #[asn(optional(integer(0..7)))] pub f4: Option<u8>,
}

impl Ts5dmmmme1 {
    pub const fn f0_min() -> u8 {
        0
    }

    pub const fn f0_max() -> u8 {
        7
    }

    pub const fn f1_min() -> u8 {
        0
    }

    pub const fn f1_max() -> u8 {
        7
    }

    pub const fn f2_min() -> u8 {
        0
    }

    pub const fn f2_max() -> u8 {
        7
    }

    pub const fn f3_min() -> u8 {
        0
    }

    pub const fn f3_max() -> u8 {
        7
    }

    pub const fn f4_min() -> u8 {
        0
    }

    pub const fn f4_max() -> u8 {
        7
    }
}

#[asn(sequence, extensible_after(f1))]

#[derive(Default, Debug, Clone, PartialEq, Hash)]
pub struct Ts5dmmmme2 {
    #[asn(default(integer(0..7), 5))] pub f0: u8,
    #[asn(integer(0..7))] pub f1: u8,
    #[asn(optional(integer(0..7)))] pub f2: Option<u8>,
    #[asn(optional(integer(0..7)))] pub f3: Option<u8>,
    #[asn(optional(integer(0..7)))] pub f4: Option<u8>,
}

impl Ts5dmmmme2 {
    pub const fn f0_min() -> u8 {
        0
    }

    pub const fn f0_max() -> u8 {
        7
    }

    pub const fn f1_min() -> u8 {
        0
    }

    pub const fn f1_max() -> u8 {
        7
    }

    pub const fn f2_min() -> u8 {
        0
    }

    pub const fn f2_max() -> u8 {
        7
    }

    pub const fn f3_min() -> u8 {
        0
    }

    pub const fn f3_max() -> u8 {
        7
    }

    pub const fn f4_min() -> u8 {
        0
    }

    pub const fn f4_max() -> u8 {
        7
    }
}

#[asn(sequence, extensible_after(f2))]

#[derive(Default, Debug, Clone, PartialEq, Hash)]
pub struct Ts5dmmmme3 {
    #[asn(default(integer(0..7), 5))] pub f0: u8,
    #[asn(integer(0..7))] pub f1: u8,
    #[asn(integer(0..7))] pub f2: u8,
    #[asn(optional(integer(0..7)))] pub f3: Option<u8>,
    #[asn(optional(integer(0..7)))] pub f4: Option<u8>,
}

impl Ts5dmmmme3 {
    pub const fn f0_min() -> u8 {
        0
    }

    pub const fn f0_max() -> u8 {
        7
    }

    pub const fn f1_min() -> u8 {
        0
    }

    pub const fn f1_max() -> u8 {
        7
    }

    pub const fn f2_min() -> u8 {
        0
    }

    pub const fn f2_max() -> u8 {
        7
    }

    pub const fn f3_min() -> u8 {
        0
    }

    pub const fn f3_max() -> u8 {
        7
    }

    pub const fn f4_min() -> u8 {
        0
    }

    pub const fn f4_max() -> u8 {
        7
    }
}

#[asn(sequence, extensible_after(f3))]

#[derive(Default, Debug, Clone, PartialEq, Hash)]
pub struct Ts5dmmmme4 {
    #[asn(default(integer(0..7), 5))] pub f0: u8,
    #[asn(integer(0..7))] pub f1: u8,
    #[asn(integer(0..7))] pub f2: u8,
    #[asn(integer(0..7))] pub f3: u8,
    #[asn(optional(integer(0..7)))] pub f4: Option<u8>,
}

impl Ts5dmmmme4 {
    pub const fn f0_min() -> u8 {
        0
    }

    pub const fn f0_max() -> u8 {
        7
    }

    pub const fn f1_min() -> u8 {
        0
    }

    pub const fn f1_max() -> u8 {
        7
    }

    pub const fn f2_min() -> u8 {
        0
    }

    pub const fn f2_max() -> u8 {
        7
    }

    pub const fn f3_min() -> u8 {
        0
    }

    pub const fn f3_max() -> u8 {
        7
    }

    pub const fn f4_min() -> u8 {
        0
    }

    pub const fn f4_max() -> u8 {
        7
    }
}

#[asn(sequence, extensible_after(f4))]

#[derive(Default, Debug, Clone, PartialEq, Hash)]
pub struct Ts5dmmmme5 {
    #[asn(default(integer(0..7), 5))] pub f0: u8,
    #[asn(integer(0..7))] pub f1: u8,
    #[asn(integer(0..7))] pub f2: u8,
    #[asn(integer(0..7))] pub f3: u8,
    #[asn(integer(0..7))] pub f4: u8,
}

impl Ts5dmmmme5 {
    pub const fn f0_min() -> u8 {
        0
    }

    pub const fn f0_max() -> u8 {
        7
    }

    pub const fn f1_min() -> u8 {
        0
    }

    pub const fn f1_max() -> u8 {
        7
    }

    pub const fn f2_min() -> u8 {
        0
    }

    pub const fn f2_max() -> u8 {
        7
    }

    pub const fn f3_min() -> u8 {
        0
    }

    pub const fn f3_max() -> u8 {
        7
    }

    pub const fn f4_min() -> u8 {
        0
    }

    pub const fn f4_max() -> u8 {
        7
    }
}

#[asn(sequence)]

#[derive(Default, Debug, Clone, PartialEq, Hash)]
pub struct Ts5mommmn {
    #[asn(integer(0..7))] pub f0: u8,
    #[asn(optional(integer(0..7)))] pub f1: Option<u8>,
    #[asn(integer(0..7))] pub f2: u8,
    #[asn(integer(0..7))] pub f3: u8,
    #[asn(integer(0..7))] pub f4: u8,
}

impl Ts5mommmn {
    pub const fn f0_min() -> u8 {
        0
    }

    pub const fn f0_max() -> u8 {
        7
    }

    pub const fn f1_min() -> u8 {
        0
    }

    pub const fn f1_max() -> u8 {
        7
    }

    pub const fn f2_min() -> u8 {
        0
    }

    pub const fn f2_max() -> u8 {
        7
    }

    pub const fn f3_min() -> u8 {
        0
    }

    pub const fn f3_max() -> u8 {
        7
    }

    pub const fn f4_min() -> u8 {
        0
    }

    pub const fn f4_max() -> u8 {
        7
    }
}

#[asn(sequence, extensible_after(f0))]

#[derive(Default, Debug, Clone, PartialEq, Hash)]
pub struct Ts5mommme0 {
    #[asn(integer(0..7))] pub f0: u8,
    #[asn(optional(integer(0..7)))] pub f1: Option<u8>,
    #[asn(optional(integer(0..7)))] pub f2: Option<u8>,
    #[asn(optional(integer(0..7)))] pub f3: Option<u8>,
    #[asn(optional(integer(0..7)))] pub f4: Option<u8>,
}

impl Ts5mommme0 {
    pub const fn f0_min() -> u8 {
        0
    }

    pub const fn f0_max() -> u8 {
        7
    }

    pub const fn f1_min() -> u8 {
        0
    }

    pub const fn f1_max() -> u8 {
        7
    }

    pub const fn f2_min() -> u8 {
        0
    }

    pub const fn f2_max() -> u8 {
        7
    }

    pub const fn f3_min() -> u8 {
        0
    }

    pub const fn f3_max() -> u8 {
        7
    }

    pub const fn f4_min() -> u8 {
        0
    }

    pub const fn f4_max() -> u8 {
        7
    }
}

#[asn(sequence, extensible_after(f0))]

#[derive(Default, Debug, Clone, PartialEq, Hash)]
pub struct Ts5mommme1 {
    #[asn(integer(0..7))] pub f0: u8,
    #[asn(optional(integer(0..7)))] pub f1: Option<u8>,
    #[asn(optional(integer(0..7)))] pub f2: Option<u8>,
    #[asn(optional(integer(0..7)))] pub f3: Option<u8>,
    #[asn(optional(integer(0..7)))] pub f4: Option<u8>,
}

impl Ts5mommme1 {
    pub const fn f0_min() -> u8 {
        0
    }

    pub const fn f0_max() -> u8 {
        7
    }

    pub const fn f1_min() -> u8 {
        0
    }

    pub const fn f1_max() -> u8 {
        7
    }

    pub const fn f2_min() -> u8 {
        0
    }

    pub const fn f2_max() -> u8 {
        7
    }

    pub const fn f3_min() -> u8 {
        0
    }

    pub const fn f3_max() -> u8 {
        7
    }

    pub const fn f4_min() -> u8 {
        0
    }

    pub const fn f4_max() -> u8 {
        7
    }
}

#[asn(sequence, extensible_after(f1))]

#[derive(Default, Debug, Clone, PartialEq, Hash)]
pub struct Ts5mommme2 {
    #[asn(integer(0..7))] pub f0: u8,
    #[asn(optional(integer(0..7)))] pub f1: Option<u8>,
    #[asn(optional(integer(0..7)))] pub f2: Option<u8>,
    #[asn(optional(integer(0..7)))] pub f3: Option<u8>,
    #[asn(optional(integer(0..7)))] pub f4: Option<u8>,
}

impl Ts5mommme2 {
    pub const fn f0_min() -> u8 {
        0
    }

    pub const fn f0_max() -> u8 {
        7
    }

    pub const fn f1_min() -> u8 {
        0
    }

    pub const fn f1_max() -> u8 {
        7
    }

    pub const fn f2_min() -> u8 {
        0
    }

    pub const fn f2_max() -> u8 {
        7
    }

    pub const fn f3_min() -> u8 {
        0
    }

    pub const fn f3_max() -> u8 {
        7
    }

    pub const fn f4_min() -> u8 {
        0
    }

    pub const fn f4_max() -> u8 {
        7
    }
}

#[asn(sequence, extensible_after(f2))]

#[derive(Default, Debug, Clone, PartialEq, Hash)]
pub struct Ts5mommme3 {
    #[asn(integer(0..7))] pub f0: u8,
    #[asn(optional(integer(0..7)))] pub f1: Option<u8>,
    #[asn(integer(0..7))] pub f2: u8,
    #[asn(optional(integer(0..7)))] pub f3: Option<u8>,
    #[asn(optional(integer(0..7)))] pub f4: Option<u8>,
}

impl Ts5mommme3 {
    pub const fn f0_min() -> u8 {
        0
    }

    pub const fn f0_max() -> u8 {
        7
    }

    pub const fn f1_min() -> u8 {
        0
    }

    pub const fn f1_max() -> u8 {
        7
    }

    pub const fn f2_min() -> u8 {
        0
    }

    pub const fn f2_max() -> u8 {
        7
    }

    pub const fn f3_min() -> u8 {
        0
    }

    pub const fn f3_max() -> u8 {
        7
    }

    pub const fn f4_min() -> u8 {
        0
    }

    pub const fn f4_max() -> u8 {
        7
    }
}

#[asn(sequence, extensible_after(f3))]

#[derive(Default, Debug, Clone, PartialEq, Hash)]
pub struct Ts5mommme4 {
    #[asn(integer(0..7))] pub f0: u8,
    #[asn(optional(integer(0..7)))] pub f1: Option<u8>,
    #[asn(integer(0..7))] pub f2: u8,
    #[asn(integer(0..7))] pub f3: u8,
    #[asn(optional(integer(0..7)))] pub f4: Option<u8>,
}

impl Ts5mommme4 {
    pub const fn f0_min() -> u8 {
        0
    }

    pub const fn f0_max() -> u8 {
        7
    }

    pub const fn f1_min() -> u8 {
        0
    }

    pub const fn f1_max() -> u8 {
        7
    }

    pub const fn f2_min() -> u8 {
        0
    }

    pub const fn f2_max() -> u8 {
        7
    }

    pub const fn f3_min() -> u8 {
        0
    }

    pub const fn f3_max() -> u8 {
        7
    }

    pub const fn f4_min() -> u8 {
        0
    }

    pub const fn f4_max() -> u8 {
        7
    }
}

#[asn(sequence, extensible_after(f4))]

#[derive(Default, Debug, Clone, PartialEq, Hash)]
pub struct Ts5mommme5 {
    #[asn(integer(0..7))] pub f0: u8,
    #[asn(optional(integer(0..7)))] pub f1: Option<u8>,
    #[asn(integer(0..7))] pub f2: u8,
    #[asn(integer(0..7))] pub f3: u8,
    #[asn(integer(0..7))] pub f4: u8,
}

impl Ts5mommme5 {
    pub const fn f0_min() -> u8 {
        0
    }

    pub const fn f0_max() -> u8 {
        7
    }

    pub const fn f1_min() -> u8 {
        0
    }

    pub const fn f1_max() -> u8 {
        7
    }

    pub const fn f2_min() -> u8 {
        0
    }

    pub const fn f2_max() -> u8 {
        7
    }

    pub const fn f3_min() -> u8 {
        0
    }

    pub const fn f3_max() -> u8 {
        7
    }

    pub const fn f4_min() -> u8 {
        0
    }

    pub const fn f4_max() -> u8 {
        7
    }
}

#[asn(sequence)]

#[derive(Default, Debug, Clone, PartialEq, Hash)]
pub struct Ts5oommmn {
    #[asn(optional(integer(0..7)))] pub f0: Option<u8>,
    #[asn(optional(integer(0..7)))] pub f1: Option<u8>,
    #[asn(integer(0..7))] pub f2: u8,
    #[asn(integer(0..7))] pub f3: u8,
    #[asn(integer(0..7))] pub f4: u8,
}

impl Ts5oommmn {
    pub const fn f0_min() -> u8 {
        0
    }

    pub const fn f0_max() -> u8 {
        7
    }

    pub const fn f1_min() -> u8 {
        0
    }

    pub const fn f1_max() -> u8 {
        7
    }

    pub const fn f2_min() -> u8 {
        0
    }

    pub const fn f2_max() -> u8 {
        7
    }

    pub const fn f3_min() -> u8 {
        0
    }

    pub const fn f3_max() -> u8 {
        7
    }

    pub const fn f4_min() -> u8 {
        0
    }

    pub const fn f4_max() -> u8 {
        7
    }
}

#[asn(sequence, extensible_after(f0))]

#[derive(Default, Debug, Clone, PartialEq, Hash)]
pub struct Ts5oommme0 {
    #[asn(optional(integer(0..7)))] pub f0: Option<u8>,
    #[asn(optional(integer(0..7)))] pub f1: Option<u8>,
    #[asn(optional(integer(0..7)))] pub f2: Option<u8>,
    #[asn(optional(integer(0..7)))] pub f3: Option<u8>,
    #[asn(optional(integer(0..7)))] pub f4: Option<u8>,
}

impl Ts5oommme0 {
    pub const fn f0_min() -> u8 {
        0
    }

    pub const fn f0_max() -> u8 {
        7
    }

    pub const fn f1_min() -> u8 {
        0
    }

    pub const fn f1_max() -> u8 {
        7
    }

    pub const fn f2_min() -> u8 {
        0
    }

    pub const fn f2_max() -> u8 {
        7
    }

    pub const fn f3_min() -> u8 {
        0
    }

    pub const fn f3_max() -> u8 {
        7
    }

    pub const fn f4_min() -> u8 {
        0
    }

    pub const fn f4_max() -> u8 {
        7
    }
}

#[asn(sequence, extensible_after(f0))]

#[derive(Default, Debug, Clone, PartialEq, Hash)]
pub struct Ts5oommme1 {
    #[asn(optional(integer(0..7)))] pub f0: Option<u8>,
    #[asn(optional(integer(0..7)))] pub f1: Option<u8>,
    #[asn(optional(integer(0..7)))] pub f2: Option<u8>,
    #[asn(optional(integer(0..7)))] pub f3: Option<u8>,
    #[asn(optional(integer(0..7)))] pub f4: Option<u8>,
}

impl Ts5oommme1 {
    pub const fn f0_min() -> u8 {
        0
    }

    pub const fn f0_max() -> u8 {
        7
    }

    pub const fn f1_min() -> u8 {
        0
    }

    pub const fn f1_max() -> u8 {
        7
    }

    pub const fn f2_min() -> u8 {
        0
    }

    pub const fn f2_max() -> u8 {
        7
    }

    pub const fn f3_min() -> u8 {
        0
    }

    pub const fn f3_max() -> u8 {
        7
    }

    pub const fn f4_min() -> u8 {
        0
    }

    pub const fn f4_max() -> u8 {
        7
    }
}

#[asn(sequence, extensible_after(f1))]

#[derive(Default, Debug, Clone, PartialEq, Hash)]
pub struct Ts5oommme2 {
    #[asn(optional(integer(0..7)))] pub f0: Option<u8>,
    #[asn(optional(integer(0..7)))] pub f1: Option<u8>,
    #[asn(optional(integer(0..7)))] pub f2: Option<u8>,
    #[asn(optional(integer(0..7)))] pub f3: Option<u8>,
    #[asn(optional(integer(0..7)))] pub f4: Option<u8>,
}

impl Ts5oommme2 {
    pub const fn f0_min() -> u8 {
        0
    }

    pub const fn f0_max() -> u8 {
        7
    }

    pub const fn f1_min() -> u8 {
        0
    }

    pub const fn f1_max() -> u8 {
        7
    }

    pub const fn f2_min() -> u8 {
        0
    }

    pub const fn f2_max() -> u8 {
        7
    }

    pub const fn f3_min() -> u8 {
        0
    }

    pub const fn f3_max() -> u8 {
        7
    }

    pub const fn f4_min() -> u8 {
        0
    }

    pub const fn f4_max() -> u8 {
        7
    }
}

#[asn(sequence, extensible_after(f2))]

#[derive(Default, Debug, Clone, PartialEq, Hash)]
pub struct Ts5oommme3 {
    #[asn(optional(integer(0..7)))] pub f0: Option<u8>,
    #[asn(optional(integer(0..7)))] pub f1: Option<u8>,
    #[asn(integer(0..7))] pub f2: u8,
    #[asn(optional(integer(0..7)))] pub f3: Option<u8>,
    #[asn(optional(integer(0..7)))] pub f4: Option<u8>,
}

impl Ts5oommme3 {
    pub const fn f0_min() -> u8 {
        0
    }

    pub const fn f0_max() -> u8 {
        7
    }

    pub const fn f1_min() -> u8 {
        0
    }

    pub const fn f1_max() -> u8 {
        7
    }

    pub const fn f2_min() -> u8 {
        0
    }

    pub const fn f2_max() -> u8 {
        7
    }

    pub const fn f3_min() -> u8 {
        0
    }

    pub const fn f3_max() -> u8 {
        7
    }

    pub const fn f4_min() -> u8 {
        0
    }

    pub const fn f4_max() -> u8 {
        7
    }
}

#[asn(sequence, extensible_after(f3))]

#[derive(Default, Debug, Clone, PartialEq, Hash)]
pub struct Ts5oommme4 {
    #[asn(optional(integer(0..7)))] pub f0: Option<u8>,
    #[asn(optional(integer(0..7)))] pub f1: Option<u8>,
    #[asn(integer(0..7))] pub f2: u8,
    #[asn(integer(0..7))] pub f3: u8,
    #[asn(optional(integer(0..7)))] pub f4: Option<u8>,
}

impl Ts5oommme4 {
    pub const fn f0_min() -> u8 {
        0
    }

    pub const fn f0_max() -> u8 {
        7
    }

    pub const fn f1_min() -> u8 {
        0
    }

    pub const fn f1_max() -> u8 {
        7
    }

    pub const fn f2_min() -> u8 {
        0
    }

    pub const fn f2_max() -> u8 {
        7
    }

    pub const fn f3_min() -> u8 {
        0
    }

    pub const fn f3_max() -> u8 {
        7
    }

    pub const fn f4_min() -> u8 {
        0
    }

    pub const fn f4_max() -> u8 {
        7
    }
}

#[asn(sequence, extensible_after(f4))]

#[derive(Default, Debug, Clone, PartialEq, Hash)]
pub struct Ts5oommme5 {
    #[asn(optional(integer(0..7)))] pub f0: Option<u8>,
    #[asn(optional(integer(0..7)))] pub f1: Option<u8>,
    #[asn(integer(0..7))] pub f2: u8,
    #[asn(integer(0..7))] pub f3: u8,
    #[asn(integer(0..7))] pub f4: u8,
}

impl Ts5oommme5 {
    pub const fn f0_min() -> u8 {
        0
    }

    pub const fn f0_max() -> u8 {
        7
    }

    pub const fn f1_min() -> u8 {
        0
    }

    pub const fn f1_max() -> u8 {
        7
    }

    pub const fn f2_min() -> u8 {
        0
    }

    pub const fn f2_max() -> u8 {
        7
    }

    pub const fn f3_min() -> u8 {
        0
    }

    pub const fn f3_max() -> u8 {
        7
    }

    pub const fn f4_min() -> u8 {
        0
    }

    pub const fn f4_max() -> u8 {
        7
    }
}

#[asn(sequence)]

#[derive(Default, Debug, Clone, PartialEq, Hash)]
pub struct Ts5dommmn {
    #[asn(default(integer(0..7), 5))] pub f0: u8,
    #[asn(optional(integer(0..7)))] pub f1: Option<u8>,
    #[asn(integer(0..7))] pub f2: u8,
    #[asn(integer(0..7))] pub f3: u8,
    #[asn(integer(0..7))] pub f4: u8,
}

impl Ts5dommmn {
    pub const fn f0_min() -> u8 {
        0
    }

    pub const fn f0_max() -> u8 {
        7
    }

    pub const fn f1_min() -> u8 {
        0
    }

    pub const fn f1_max() -> u8 {
        7
    }

    pub const fn f2_min() -> u8 {
        0
    }

    pub const fn f2_max() -> u8 {
        7
    }

    pub const fn f3_min() -> u8 {
        0
    }

    pub const fn f3_max() -> u8 {
        7
    }

    pub const fn f4_min() -> u8 {
        0
    }

    pub const fn f4_max() -> u8 {
        7
    }
}

#[asn(sequence, extensible_after(f0))]

#[derive(Default, Debug, Clone, PartialEq, Hash)]
pub struct Ts5dommme0 {
    #[asn(default(integer(0..7), 5))] pub f0: u8,
    #[asn(optional(integer(0..7)))] pub f1: Option<u8>,
    #[asn(optional(integer(0..7)))] pub f2: Option<u8>,
    #[asn(optional(integer(0..7)))] pub f3: Option<u8>,
    #[asn(optional(integer(0..7)))] pub f4: Option<u8>,
}

impl Ts5dommme0 {
    pub const fn f0_min() -> u8 {
        0
    }

    pub const fn f0_max() -> u8 {
        7
    }

    pub const fn f1_min() -> u8 {
        0
    }

    pub const fn f1_max() -> u8 {
        7
    }

    pub const fn f2_min() -> u8 {
        0
    }

    pub const fn f2_max() -> u8 {
        7
    }

    pub const fn f3_min() -> u8 {
        0
    }

    pub const fn f3_max() -> u8 {
        7
    }

    pub const fn f4_min() -> u8 {
        0
    }

    pub const fn f4_max() -> u8 {
        7
    }
}

#[asn(sequence, extensible_after(f0))]

#[derive(Default, Debug, Clone, PartialEq, Hash)]
pub struct Ts5dommme1 {
    #[asn(default(integer(0..7), 5))] pub f0: u8,
    #[asn(optional(integer(0..7)))] pub f1: Option<u8>,
    #[asn(optional(integer(0..7)))] pub f2: Option<u8>,
    #[asn(optional(integer(0..7)))] pub f3: Option<u8>,
    #[asn(optional(integer(0..7)))] pub f4: Option<u8>,
}

impl Ts5dommme1 {
    pub const fn f0_min() -> u8 {
        0
    }

    pub const fn f0_max() -> u8 {
        7
    }

    pub const fn f1_min() -> u8 {
        0
    }

    pub const fn f1_max() -> u8 {
        7
    }

    pub const fn f2_min() -> u8 {
        0
    }

    pub const fn f2_max() -> u8 {
        7
    }

    pub const fn f3_min() -> u8 {
        0
    }

    pub const fn f3_max() -> u8 {
        7
    }

    pub const fn f4_min() -> u8 {
        0
    }

    pub const fn f4_max() -> u8 {
        7
    }
}

#[asn(sequence, extensible_after(f1))]

#[derive(Default, Debug, Clone, PartialEq, Hash)]
pub struct Ts5dommme2 {
    #[asn(default(integer(0..7), 5))] pub f0: u8,
    #[asn(optional(integer(0..7)))] pub f1: Option<u8>,
    #[asn(optional(integer(0..7)))] pub f2: Option<u8>,
    #[asn(optional(integer(0..7)))] pub f3: Option<u8>,
    #[asn(optional(integer(0..7)))] pub f4: Option<u8>,
}

impl Ts5dommme2 {
    pub const fn f0_min() -> u8 {
        0
    }

    pub const fn f0_max() -> u8 {
        7
    }

    pub const fn f1_min() -> u8 {
        0
    }

    pub const fn f1_max() -> u8 {
        7
    }

    pub const fn f2_min() -> u8 {
        0
    }

    pub const fn f2_max() -> u8 {
        7
    }

    pub const fn f3_min() -> u8 {
        0
    }

    pub const fn f3_max() -> u8 {
        7
    }

    pub const fn f4_min() -> u8 {
        0
    }

    pub const fn f4_max() -> u8 {
        7
    }
}

#[asn(sequence, extensible_after(f2))]

#[derive(Default, Debug, Clone, PartialEq, Hash)]
pub struct Ts5dommme3 {
    #[asn(default(integer(0..7), 5))] pub f0: u8,
    #[asn(optional(integer(0..7)))] pub f1: Option<u8>,
    #[asn(integer(0..7))] pub f2: u8,
    #[asn(optional(integer(0..7)))] pub f3: Option<u8>,
    #[asn(optional(integer(0..7)))] pub f4: Option<u8>,
}

impl Ts5dommme3 {
    pub const fn f0_min() -> u8 {
        0
    }

    pub const fn f0_max() -> u8 {
        7
    }

    pub const fn f1_min() -> u8 {
        0
    }

    pub const fn f1_max() -> u8 {
        7
    }

    pub const fn f2_min() -> u8 {
        0
    }

    pub const fn f2_max() -> u8 {
        7
    }

    pub const fn f3_min() -> u8 {
        0
    }

    pub const fn f3_max() -> u8 {
        7
    }

    pub const fn f4_min() -> u8 {
        0
    }

    pub const fn f4_max() -> u8 {
        7
    }
}

#[asn(sequence, extensible_after(f3))]

#[derive(Default, Debug, Clone, PartialEq, Hash)]
pub struct Ts5dommme4 {
    #[asn(default(integer(0..7), 5))] pub f0: u8,
    #[asn(optional(integer(0..7)))] pub f1: Option<u8>,
    #[asn(integer(0..7))] pub f2: u8,
    #[asn(integer(0..7))] pub f3: u8,
    #[asn(optional(integer(0..7)))] pub f4: Option<u8>,
}

impl Ts5dommme4 {
    pub const fn f0_min() -> u8 {
        0
    }

    pub const fn f0_max() -> u8 {
        7
    }

    pub const fn f1_min() -> u8 {
        0
    }

    pub const fn f1_max() -> u8 {
        7
    }

    pub const fn f2_min() -> u8 {
        0
    }

    pub const fn f2_max() -> u8 {
        7
    }

    pub const fn f3_min() -> u8 {
        0
    }

    pub const fn f3_max() -> u8 {
        7
    }

    pub const fn f4_min() -> u8 {
        0
    }

    pub const fn f4_max() -> u8 {
        7
    }
}

#[asn(sequence, extensible_after(f4))]

#[derive(Default, Debug, Clone, PartialEq, Hash)]
pub struct Ts5dommme5 {
    #[asn(default(integer(0..7), 5))] pub f0: u8,
    #[asn(optional(integer(0..7)))] pub f1: Option<u8>,
    #[asn(integer(0..7))] pub f2: u8,
    #[asn(integer(0..7))] pub f3: u8,
    #[asn(integer(0..7))] pub f4: u8,
}

impl Ts5dommme5 {
    pub const fn f0_min() -> u8 {
        0
    }

    pub const fn f0_max() -> u8 {
        7
    }

    pub const fn f1_min() -> u8 {
        0
    }

    pub const fn f1_max() -> u8 {
        7
    }

    pub const fn f2_min() -> u8 {
        0
    }

    pub const fn f2_max() -> u8 {
        7
    }

    pub const fn f3_min() -> u8 {
        0
    }

    pub const fn f3_max() -> u8 {
        7
    }

    pub const fn f4_min() -> u8 {
        0
    }

    pub const fn f4_max() -> u8 {
        7
    }
}

#[asn(sequence)]

#[derive(Default, Debug, Clone, PartialEq, Hash)]
pub struct Ts5mdmmmn {
    #[asn(integer(0..7))] pub f0: u8,
    #[asn(default(integer(0..7), 5))] pub f1: u8,
    #[asn(integer(0..7))] pub f2: u8,
    #[asn(integer(0..7))] pub f3: u8,
    #[asn(integer(0..7))] pub f4: u8,
}

impl Ts5mdmmmn {
    pub const fn f0_min() -> u8 {
        0
    }

    pub const fn f0_max() -> u8 {
        7
    }

    pub const fn f1_min() -> u8 {
        0
    }

    pub const fn f1_max() -> u8 {
        7
    }

    pub const fn f2_min() -> u8 {
        0
    }

    pub const fn f2_max() -> u8 {
        7
    }

    pub const fn f3_min() -> u8 {
        0
    }

    pub const fn f3_max() -> u8 {
        7
    }

    pub const fn f4_min() -> u8 {
        0
    }

    pub const fn f4_max() -> u8 {
        7
    }
}

#[asn(sequence, extensible_after(f0))]

#[derive(Default, Debug, Clone, PartialEq, Hash)]
pub struct Ts5mdmmme0 {
    #[asn(integer(0..7))] pub f0: u8,
    #[asn(default(integer(0..7), 5))] pub f1: u8,
    #[asn(optional(integer(0..7)))] pub f2: Option<u8>,
    #[asn(optional(integer(0..7)))] pub f3: Option<u8>,
    #[asn(optional(integer(0..7)))] pub f4: Option<u8>,
}

impl Ts5mdmmme0 {
    pub const fn f0_min() -> u8 {
        0
    }

    pub const fn f0_max() -> u8 {
        7
    }

    pub const fn f1_min() -> u8 {
        0
    }

    pub const fn f1_max() -> u8 {
        7
    }

    pub const fn f2_min() -> u8 {
        0
    }

    pub const fn f2_max() -> u8 {
        7
    }

    pub const fn f3_min() -> u8 {
        0
    }

    pub const fn f3_max() -> u8 {
        7
    }

    pub const fn f4_min() -> u8 {
        0
    }

    pub const fn f4_max() -> u8 {
        7
    }
}

#[asn(sequence, extensible_after(f0))]

#[derive(Default, Debug, Clone, PartialEq, Hash)]
pub struct Ts5mdmmme1 {
    #[asn(integer(0..7))] pub f0: u8,
    #[asn(default(integer(0..7), 5))] pub f1: u8,
    #[asn(optional(integer(0..7)))] pub f2: Option<u8>,
    #[asn(optional(integer(0..7)))] pub f3: Option<u8>,
    #[asn(optional(integer(0..7)))] pub f4: Option<u8>,
}

impl Ts5mdmmme1 {
    pub const fn f0_min() -> u8 {
        0
    }

    pub const fn f0_max() -> u8 {
        7
    }

    pub const fn f1_min() -> u8 {
        0
    }

    pub const fn f1_max() -> u8 {
        7
    }

    pub const fn f2_min() -> u8 {
        0
    }

    pub const fn f2_max() -> u8 {
        7
    }

    pub const fn f3_min() -> u8 {
        0
    }

    pub const fn f3_max() -> u8 {
        7
    }

    pub const fn f4_min() -> u8 {
        0
    }

    pub const fn f4_max() -> u8 {
        7
    }
}

#[asn(sequence, extensible_after(f1))]

#[derive(Default, Debug, Clone, PartialEq, Hash)]
pub struct Ts5mdmmme2 {
    #[asn(integer(0..7))] pub f0: u8,
    #[asn(default(integer(0..7), 5))] pub f1: u8,
    #[asn(optional(integer(0..7)))] pub f2: Option<u8>,
    #[asn(optional(integer(0..7)))] pub f3: Option<u8>,
    #[asn(optional(integer(0..7)))] pub f4: Option<u8>,
}

impl Ts5mdmmme2 {
    pub const fn f0_min() -> u8 {
        0
    }

    pub const fn f0_max() -> u8 {
        7
    }

    pub const fn f1_min() -> u8 {
        0
    }

    pub const fn f1_max() -> u8 {
        7
    }

    pub const fn f2_min() -> u8 {
        0
    }

    pub const fn f2_max() -> u8 {
        7
    }

    pub const fn f3_min() -> u8 {
        0
    }

    pub const fn f3_max() -> u8 {
        7
    }

    pub const fn f4_min() -> u8 {
        0
    }

    pub const fn f4_max() -> u8 {
        7
    }
}

#[asn(sequence, extensible_after(f2))]

#[derive(Default, Debug, Clone, PartialEq, Hash)]
pub struct Ts5mdmmme3 {
    #[asn(integer(0..7))] pub f0: u8,
    #[asn(default(integer(0..7), 5))] pub f1: u8,
    #[asn(integer(0..7))] pub f2: u8,
    #[asn(optional(integer(0..7)))] pub f3: Option<u8>,
    #[asn(optional(integer(0..7)))] pub f4: Option<u8>,
}

impl Ts5mdmmme3 {
    pub const fn f0_min() -> u8 {
        0
    }

    pub const fn f0_max() -> u8 {
        7
    }

    pub const fn f1_min() -> u8 {
        0
    }

    pub const fn f1_max() -> u8 {
        7
    }

    pub const fn f2_min() -> u8 {
        0
    }

    pub const fn f2_max() -> u8 {
        7
    }

    pub const fn f3_min() -> u8 {
        0
    }

    pub const fn f3_max() -> u8 {
        7
    }

    pub const fn f4_min() -> u8 {
        0
    }

    pub const fn f4_max() -> u8 {
        7
    }
}

#[asn(sequence, extensible_after(f3))]

#[derive(Default, Debug, Clone, PartialEq, Hash)]
pub struct Ts5mdmmme4 {
    #[asn(integer(0..7))] pub f0: u8,
    #[asn(default(integer(0..7), 5))] pub f1: u8,
    #[asn(integer(0..7))] pub f2: u8,
    #[asn(integer(0..7))] pub f3: u8,
    #[asn(optional(integer(0..7)))] pub f4: Option<u8>,
}

impl Ts5mdmmme4 {
    pub const fn f0_min() -> u8 {
        0
    }

    pub const fn f0_max() -> u8 {
        7
    }

    pub const fn f1_min() -> u8 {
        0
    }

    pub const fn f1_max() -> u8 {
        7
    }

    pub const fn f2_min() -> u8 {
        0
    }

    pub const fn f2_max() -> u8 {
        7
    }

    pub const fn f3_min() -> u8 {
        0
    }

    pub const fn f3_max() -> u8 {
        7
    }

    pub const fn f4_min() -> u8 {
        0
    }

    pub const fn f4_max() -> u8 {
        7
    }
}

#[asn(sequence, extensible_after(f4))]

#[derive(Default, Debug, Clone, PartialEq, Hash)]
pub struct Ts5mdmmme5 {
    #[asn(integer(0..7))] pub f0: u8,
    #[asn(default(integer(0..7), 5))] pub f1: u8,
    #[asn(integer(0..7))] pub f2: u8,
    #[asn(integer(0..7))] pub f3: u8,
    #[asn(integer(0..7))] pub f4: u8,
}

impl Ts5mdmmme5 {
    pub const fn f0_min() -> u8 {
        0
    }

    pub const fn f0_max() -> u8 {
        7
    }

    pub const fn f1_min() -> u8 {
        0
    }

    pub const fn f1_max() -> u8 {
        7
    }

    pub const fn f2_min() -> u8 {
        0
    }

    pub const fn f2_max() -> u8 {
        7
    }

    pub const fn f3_min() -> u8 {
        0
    }

    pub const fn f3_max() -> u8 {
        7
    }

    pub const fn f4_min() -> u8 {
        0
    }

    pub const fn f4_max() -> u8 {
        7
    }
}

#[asn(sequence)]

#[derive(Default, Debug, Clone, PartialEq, Hash)]
pub struct Ts5odmmmn {
    #[asn(optional(integer(0..7)))] pub f0: Option<u8>,
    #[asn(default(integer(0..7), 5))] pub f1: u8,
    #[asn(integer(0..7))] pub f2: u8,
    #[asn(integer(0..7))] pub f3: u8,
    #[asn(integer(0..7))] pub f4: u8,
}

impl Ts5odmmmn {
    pub const fn f0_min() -> u8 {
        0
    }

    pub const fn f0_max() -> u8 {
        7
    }

    pub const fn f1_min() -> u8 {
        0
    }

    pub const fn f1_max() -> u8 {
        7
    }

    pub const fn f2_min() -> u8 {
        0
    }

    pub const fn f2_max() -> u8 {
        7
    }

    pub const fn f3_min() -> u8 {
        0
    }

    pub const fn f3_max() -> u8 {
        7
    }

    pub const fn f4_min() -> u8 {
        0
    }

    pub const fn f4_max() -> u8 {
        7
    }
}

#[asn(sequence, extensible_after(f0))]

#[derive(Default, Debug, Clone, PartialEq, Hash)]
pub struct Ts5odmmme0 {
    #[asn(optional(integer(0..7)))] pub f0: Option<u8>,
    #[asn(default(integer(0..7), 5))] pub f1: u8,
    #[asn(optional(integer(0..7)))] pub f2: Option<u8>,
    #[asn(optional(integer(0..7)))] pub f3: Option<u8>,
    #[asn(optional(integer(0..7)))] pub f4: Option<u8>,
}

impl Ts5odmmme0 {
    pub const fn f0_min() -> u8 {
        0
    }

    pub const fn f0_max() -> u8 {
        7
    }

    pub const fn f1_min() -> u8 {
        0
    }

    pub const fn f1_max() -> u8 {
        7
    }

    pub const fn f2_min() -> u8 {
        0
    }

    pub const fn f2_max() -> u8 {
        7
    }

    pub const fn f3_min() -> u8 {
        0
    }

    pub const fn f3_max() -> u8 {
        7
    }

    pub const fn f4_min() -> u8 {
        0
    }

    pub const fn f4_max() -> u8 {
        7
    }
}

#[asn(sequence, extensible_after(f0))]

#[derive(Default, Debug, Clone, PartialEq, Hash)]
pub struct Ts5odmmme1 {
    #[asn(optional(integer(0..7)))] pub f0: Option<u8>,
    #[asn(default(integer(0..7), 5))] pub f1: u8,
    #[asn(optional(integer(0..7)))] pub f2: Option<u8>,
    #[asn(optional(integer(0..7)))] pub f3: Option<u8>,
    #[asn(optional(integer(0..7)))] pub f4: Option<u8>,
}

impl Ts5odmmme1 {
    pub const fn f0_min() -> u8 {
        0
    }

    pub const fn f0_max() -> u8 {
        7
    }

    pub const fn f1_min() -> u8 {
        0
    }

    pub const fn f1_max() -> u8 {
        7
    }

    pub const fn f2_min() -> u8 {
        0
    }

    pub const fn f2_max() -> u8 {
        7
    }

    pub const fn f3_min() -> u8 {
        0
    }

    pub const fn f3_max() -> u8 {
        7
    }

    pub const fn f4_min() -> u8 {
        0
    }

    pub const fn f4_max() -> u8 {
        7
    }
}

#[asn(sequence, extensible_after(f1))]

#[derive(Default, Debug, Clone, PartialEq, Hash)]
pub struct Ts5odmmme2 {
    #[asn(optional(integer(0..7)))] pub f0: Option<u8>,
    #[asn(default(integer(0..7), 5))] pub f1: u8,
    #[asn(optional(integer(0..7)))] pub f2: Option<u8>,
    #[asn(optional(integer(0..7)))] pub f3: Option<u8>,
    #[asn(optional(integer(0..7)))] pub f4: Option<u8>,
}

impl Ts5odmmme2 {
    pub const fn f0_min() -> u8 {
        0
    }

    pub const fn f0_max() -> u8 {
        7
    }

    pub const fn f1_min() -> u8 {
        0
    }

    pub const fn f1_max() -> u8 {
        7
    }

    pub const fn f2_min() -> u8 {
        0
    }

    pub const fn f2_max() -> u8 {
        7
    }

    pub const fn f3_min() -> u8 {
        0
    }

    pub const fn f3_max() -> u8 {
        7
    }

    pub const fn f4_min() -> u8 {
        0
    }

    pub const fn f4_max() -> u8 {
        7
    }
}

#[asn(sequence, extensible_after(f2))]

#[derive(Default, Debug, Clone, PartialEq, Hash)]
pub struct Ts5odmmme3 {
    #[asn(optional(integer(0..7)))] pub f0: Option<u8>,
    #[asn(default(integer(0..7), 5))] pub f1: u8,
    #[asn(integer(0..7))] pub f2: u8,
    #[asn(optional(integer(0..7)))] pub f3: Option<u8>,
    #[asn(optional(integer(0..7)))] pub f4: Option<u8>,
}

impl Ts5odmmme3 {
    pub const fn f0_min() -> u8 {
        0
    }

    pub const fn f0_max() -> u8 {
        7
    }

    pub const fn f1_min() -> u8 {
        0
    }

    pub const fn f1_max() -> u8 {
        7
    }

    pub const fn f2_min() -> u8 {
        0
    }

    pub const fn f2_max() -> u8 {
        7
    }

    pub const fn f3_min() -> u8 {
        0
    }

    pub const fn f3_max() -> u8 {
        7
    }

    pub const fn f4_min() -> u8 {
        0
    }

    pub const fn f4_max() -> u8 {
        7
    }
}

#[asn(sequence, extensible_after(f3))]

#[derive(Default, Debug, Clone, PartialEq, Hash)]
pub struct Ts5odmmme4 {
    #[asn(optional(integer(0..7)))] pub f0: Option<u8>,
    #[asn(default(integer(0..7), 5))] pub f1: u8,
    #[asn(integer(0..7))] pub f2: u8,
    #[asn(integer(0..7))] pub f3: u8,
    #[asn(optional(integer(0..7)))] pub f4: Option<u8>,
}

impl Ts5odmmme4 {
    pub const fn f0_min() -> u8 {
        0
    }

    pub const fn f0_max() -> u8 {
        7
    }

    pub const fn f1_min() -> u8 {
        0
    }

    pub const fn f1_max() -> u8 {
        7
    }

    pub const fn f2_min() -> u8 {
        0
    }

    pub const fn f2_max() -> u8 {
        7
    }

    pub const fn f3_min() -> u8 {
        0
    }

    pub const fn f3_max() -> u8 {
        7
    }

    pub const fn f4_min() -> u8 {
        0
    }

    pub const fn f4_max() -> u8 {
        7
    }
}

#[asn(sequence, extensible_after(f4))]

#[derive(Default, Debug, Clone, PartialEq, Hash)]
pub struct Ts5odmmme5 {
    #[asn(optional(integer(0..7)))] pub f0: Option<u8>,
    #[asn(default(integer(0..7), 5))] pub f1: u8,
    #[asn(integer(0..7))] pub f2: u8,
    #[asn(integer(0..7))] pub f3: u8,
    #[asn(integer(0..7))] pub f4: u8,
}

impl Ts5odmmme5 {
    pub const fn f0_min() -> u8 {
        0
    }

    pub const fn f0_max() -> u8 {
        7
    }

    pub const fn f1_min() -> u8 {
        0
    }

    pub const fn f1_max() -> u8 {
        7
    }

    pub const fn f2_min() -> u8 {
        0
    }

    pub const fn f2_max() -> u8 {
        7
    }

    pub const fn f3_min() -> u8 {
        0
    }

    pub const fn f3_max() -> u8 {
        7
    }

    pub const fn f4_min() -> u8 {
        0
    }

    pub const fn f4_max() -> u8 {
        7
    }
}

#[asn(sequence)]

#[derive(Default, Debug, Clone, PartialEq, Hash)]
pub struct Ts5ddmmmn {
    #[asn(default(integer(0..7), 5))] pub f0: u8,
    #[asn(default(integer(0..7), 5))] pub f1: u8,
    #[asn(integer(0..7))] pub f2: u8,
    #[asn(integer(0..7))] pub f3: u8,
    #[asn(integer(0..7))] pub f4: u8,
}

impl Ts5ddmmmn {
    pub const fn f0_min() -> u8 {
        0
    }

    pub const fn f0_max() -> u8 {
        7
    }

    pub const fn f1_min() -> u8 {
        0
    }

    pub const fn f1_max() -> u8 {
        7
    }

    pub const fn f2_min() -> u8 {
        0
    }

    pub const fn f2_max() -> u8 {
        7
    }

    pub const fn f3_min() -> u8 {
        0
    }

    pub const fn f3_max() -> u8 {
        7
    }

    pub const fn f4_min() -> u8 {
        0
    }

    pub const fn f4_max() -> u8 {
        7
    }
}

#[asn(sequence, extensible_after(f0))]

#[derive(Default, Debug, Clone, PartialEq, Hash)]
pub struct Ts5ddmmme0 {
    #[asn(default(integer(0..7), 5))] pub f0: u8,
    #[asn(default(integer(0..7), 5))] pub f1: u8,
    #[asn(optional(integer(0..7)))] pub f2: Option<u8>,
    #[asn(optional(integer(0..7)))] pub f3: Option<u8>,
    #[asn(optional(integer(0..7)))] pub f4: Option<u8>,
}

impl Ts5ddmmme0 {
    pub const fn f0_min() -> u8 {
        0
    }

    pub const fn f0_max() -> u8 {
        7
    }

    pub const fn f1_min() -> u8 {
        0
    }

    pub const fn f1_max() -> u8 {
        7
    }

    pub const fn f2_min() -> u8 {
        0
    }

    pub const fn f2_max() -> u8 {
        7
    }

    pub const fn f3_min() -> u8 {
        0
    }

    pub const fn f3_max() -> u8 {
        7
    }

    pub const fn f4_min() -> u8 {
        0
    }

    pub const fn f4_max() -> u8 {
        7
    }
}

#[asn(sequence, extensible_after(f0))]

#[derive(Default, Debug, Clone, PartialEq, Hash)]
pub struct Ts5ddmmme1 {
    #[asn(default(integer(0..7), 5))] pub f0: u8,
    #[asn(default(integer(0..7), 5))] pub f1: u8,
    #[asn(optional(integer(0..7)))] pub f2: Option<u8>,
    #[asn(optional(integer(0..7)))] pub f3: Option<u8>,
    #[asn(optional(integer(0..7)))] pub f4: Option<u8>,
}

impl Ts5ddmmme1 {
    pub const fn f0_min() -> u8 {
        0
    }

    pub const fn f0_max() -> u8 {
        7
    }

    pub const fn f1_min() -> u8 {
        0
    }

    pub const fn f1_max() -> u8 {
        7
    }

    pub const fn f2_min() -> u8 {
        0
    }

    pub const fn f2_max() -> u8 {
        7
    }

    pub const fn f3_min() -> u8 {
        0
    }

    pub const fn f3_max() -> u8 {
        7
    }

    pub const fn f4_min() -> u8 {
        0
    }

    pub const fn f4_max() -> u8 {
        7
    }
}

#[asn(sequence, extensible_after(f1))]

#[derive(Default, Debug, Clone, PartialEq, Hash)]
pub struct Ts5ddmmme2 {
    #[asn(default(integer(0..7), 5))] pub f0: u8,
    #[asn(default(integer(0..7), 5))] pub f1: u8,
    #[asn(optional(integer(0..7)))] pub f2: Option<u8>,
    #[asn(optional(integer(0..7)))] pub f3: Option<u8>,
    #[asn(optional(integer(0..7)))] pub f4: Option<u8>,
}

impl Ts5ddmmme2 {
    pub const fn f0_min() -> u8 {
        0
    }

    pub const fn f0_max() -> u8 {
        7
    }

    pub const fn f1_min() -> u8 {
        0
    }

    pub const fn f1_max() -> u8 {
        7
    }

    pub const fn f2_min() -> u8 {
        0
    }

    pub const fn f2_max() -> u8 {
        7
    }

    pub const fn f3_min() -> u8 {
        0
    }

    pub const fn f3_max() -> u8 {
        7
    }

    pub const fn f4_min() -> u8 {
        0
    }

    pub const fn f4_max() -> u8 {
        7
    }
}

#[asn(sequence, extensible_after(f2))]

#[derive(Default, Debug, Clone, PartialEq, Hash)]
pub struct Ts5ddmmme3 {
    #[asn(default(integer(0..7), 5))] pub f0: u8,
    #[asn(default(integer(0..7), 5))] pub f1: u8,
    #[asn(integer(0..7))] pub f2: u8,
    #[asn(optional(integer(0..7)))] pub f3: Option<u8>,
    #[asn(optional(integer(0..7)))] pub f4: Option<u8>,
}

impl Ts5ddmmme3 {
    pub const fn f0_min() -> u8 {
        0
    }

    pub const fn f0_max() -> u8 {
        7
    }

    pub const fn f1_min() -> u8 {
        0
    }

    pub const fn f1_max() -> u8 {
        7
    }

    pub const fn f2_min() -> u8 {
        0
    }

    pub const fn f2_max() -> u8 {
        7
    }

    pub const fn f3_min() -> u8 {
        0
    }

    pub const fn f3_max() -> u8 {
        7
    }

    pub const fn f4_min() -> u8 {
        0
    }

    pub const fn f4_max() -> u8 {
        7
    }
}

#[asn(sequence, extensible_after(f3))]

#[derive(Default, Debug, Clone, PartialEq, Hash)]
pub struct Ts5ddmmme4 {
    #[asn(default(integer(0..7), 5))] pub f0: u8,
    #[asn(default(integer(0..7), 5))] pub f1: u8,
    #[asn(integer(0..7))] pub f2: u8,
    #[asn(integer(0..7))] pub f3: u8,
    #[asn(optional(integer(0..7)))] pub f4: Option<u8>,
}

impl Ts5ddmmme4 {
    pub const fn f0_min() -> u8 {
        0
    }

    pub const fn f0_max() -> u8 {
        7
    }

    pub const fn f1_min() -> u8 {
        0
    }

    pub const fn f1_max() -> u8 {
        7
    }

    pub const fn f2_min() -> u8 {
        0
    }

    pub const fn f2_max() -> u8 {
        7
    }

    pub const fn f3_min() -> u8 {
        0
    }

    pub const fn f3_max() -> u8 {
        7
    }

    pub const fn f4_min() -> u8 {
        0
    }

    pub const fn f4_max() -> u8 {
        7
    }
}

#[asn(sequence, extensible_after(f4))]

#[derive(Default, Debug, Clone, PartialEq, Hash)]
pub struct Ts5ddmmme5 {
    #[asn(default(integer(0..7), 5))] pub f0: u8,
    #[asn(default(integer(0..7), 5))] pub f1: u8,
    #[asn(integer(0..7))] pub f2: u8,
    #[asn(integer(0..7))] pub f3: u8,
    #[asn(integer(0..7))] pub f4: u8,
}

impl Ts5ddmmme5 {
    pub const fn f0_min() -> u8 {
        0
    }

    pub const fn f0_max() -> u8 {
        7
    }

    pub const fn f1_min() -> u8 {
        0
    }

    pub const fn f1_max() -> u8 {
        7
    }

    pub const fn f2_min() -> u8 {
        0
    }

    pub const fn f2_max() -> u8 {
        7
    }

    pub const fn f3_min() -> u8 {
        0
    }

    pub const fn f3_max() -> u8 {
        7
    }

    pub const fn f4_min() -> u8 {
        0
    }

    pub const fn f4_max() -> u8 {
        7
    }
}

#[asn(sequence)]

#[derive(Default, Debug, Clone, PartialEq, Hash)]
pub struct Ts5mmommn {
    #[asn(integer(0..7))] pub f0: u8,
    #[asn(integer(0..7))] pub f1: u8,
    #[asn(optional(integer(0..7)))] pub f2: Option<u8>,
    #[asn(integer(0..7))] pub f3: u8,
    #[asn(integer(0..7))] pub f4: u8,
}

impl Ts5mmommn {
    pub const fn f0_min() -> u8 {
        0
    }

    pub const fn f0_max() -> u8 {
        7
    }

    pub const fn f1_min() -> u8 {
        0
    }

    pub const fn f1_max() -> u8 {
        7
    }

    pub const fn f2_min() -> u8 {
        0
    }

    pub const fn f2_max() -> u8 {
        7
    }

    pub const fn f3_min() -> u8 {
        0
    }

    pub const fn f3_max() -> u8 {
        7
    }

    pub const fn f4_min() -> u8 {
        0
    }

    pub const fn f4_max() -> u8 {
        7
    }
}

#[asn(sequence, extensible_after(f0))]

#[derive(Default, Debug, Clone, PartialEq, Hash)]
pub struct Ts5mmomme0 {
    #[asn(integer(0..7))] pub f0: u8,
    #[asn(optional(integer(0..7)))] pub f1: Option<u8>,
    #[asn(optional(integer(0..7)))] pub f2: Option<u8>,
    #[asn(optional(integer(0..7)))] pub f3: Option<u8>,
    #[asn(optional(integer(0..7)))] pub f4: Option<u8>,
}

impl Ts5mmomme0 {
    pub const fn f0_min() -> u8 {
        0
    }

    pub const fn f0_max() -> u8 {
        7
    }

    pub const fn f1_min() -> u8 {
        0
    }

    pub const fn f1_max() -> u8 {
        7
    }

    pub const fn f2_min() -> u8 {
        0
    }

    pub const fn f2_max() -> u8 {
        7
    }

    pub const fn f3_min() -> u8 {
        0
    }

    pub const fn f3_max() -> u8 {
        7
    }

    pub const fn f4_min() -> u8 {
        0
    }

    pub const fn f4_max() -> u8 {
        7
    }
}

#[asn(sequence, extensible_after(f0))]

#[derive(Default, Debug, Clone, PartialEq, Hash)]
pub struct Ts5mmomme1 {
    #[asn(integer(0..7))] pub f0: u8,
    #[asn(optional(integer(0..7)))] pub f1: Option<u8>,
    #[asn(optional(integer(0..7)))] pub f2: Option<u8>,
    #[asn(optional(integer(0..7)))] pub f3: Option<u8>,
    #[asn(optional(integer(0..7)))] pub f4: Option<u8>,
}

impl Ts5mmomme1 {
    pub const fn f0_min() -> u8 {
        0
    }

    pub const fn f0_max() -> u8 {
        7
    }

    pub const fn f1_min() -> u8 {
        0
    }

    pub const fn f1_max() -> u8 {
        7
    }

    pub const fn f2_min() -> u8 {
        0
    }

    pub const fn f2_max() -> u8 {
        7
    }

    pub const fn f3_min() -> u8 {
        0
    }

    pub const fn f3_max() -> u8 {
        7
    }

    pub const fn f4_min() -> u8 {
        0
    }

    pub const fn f4_max() -> u8 {
        7
    }
}

#[asn(sequence, extensible_after(f1))]

#[derive(Default, Debug, Clone, PartialEq, Hash)]
pub struct Ts5mmomme2 {
    #[asn(integer(0..7))] pub f0: u8,
    #[asn(integer(0..7))] pub f1: u8,
    #[asn(optional(integer(0..7)))] pub f2: Option<u8>,
    #[asn(optional(integer(0..7)))] pub f3: Option<u8>,
    #[asn(optional(integer(0..7)))] pub f4: Option<u8>,
}

impl Ts5mmomme2 {
    pub const fn f0_min() -> u8 {
        0
    }

    pub const fn f0_max() -> u8 {
        7
    }

    pub const fn f1_min() -> u8 {
        0
    }

    pub const fn f1_max() -> u8 {
        7
    }

    pub const fn f2_min() -> u8 {
        0
    }

    pub const fn f2_max() -> u8 {
        7
    }

    pub const fn f3_min() -> u8 {
        0
    }

    pub const fn f3_max() -> u8 {
        7
    }

    pub const fn f4_min() -> u8 {
        0
    }

    pub const fn f4_max() -> u8 {
        7
    }
}

#[asn(sequence, extensible_after(f2))]

#[derive(Default, Debug, Clone, PartialEq, Hash)]
pub struct Ts5mmomme3 {
    #[asn(integer(0..7))] pub f0: u8,
    #[asn(integer(0..7))] pub f1: u8,
    #[asn(optional(integer(0..7)))] pub f2: Option<u8>,
    #[asn(optional(integer(0..7)))] pub f3: Option<u8>,
    #[asn(optional(integer(0..7)))] pub f4: Option<u8>,
}

impl Ts5mmomme3 {
    pub const fn f0_min() -> u8 {
        0
    }

    pub const fn f0_max() -> u8 {
        7
    }

    pub const fn f1_min() -> u8 {
        0
    }

    pub const fn f1_max() -> u8 {
        7
    }

    pub const fn f2_min() -> u8 {
        0
    }

    pub const fn f2_max() -> u8 {
        7
    }

    pub const fn f3_min() -> u8 {
        0
    }

    pub const fn f3_max() -> u8 {
        7
    }

    pub const fn f4_min() -> u8 {
        0
    }

    pub const fn f4_max() -> u8 {
        7
    }
}

#[asn(sequence, extensible_after(f3))]

#[derive(Default, Debug, Clone, PartialEq, Hash)]
pub struct Ts5mmomme4 {
    #[asn(integer(0..7))] pub f0: u8,
    #[asn(integer(0..7))] pub f1: u8,
    #[asn(optional(integer(0..7)))] pub f2: Option<u8>,
    #[asn(integer(0..7))] pub f3: u8,
    #[asn(optional(integer(0..7)))] pub f4: Option<u8>,
}

impl Ts5mmomme4 {
    pub const fn f0_min() -> u8 {
        0
    }

    pub const fn f0_max() -> u8 {
        7
    }

    pub const fn f1_min() -> u8 {
        0
    }

    pub const fn f1_max() -> u8 {
        7
    }

    pub const fn f2_min() -> u8 {
        0
    }

    pub const fn f2_max() -> u8 {
        7
    }

    pub const fn f3_min() -> u8 {
        0
    }

    pub const fn f3_max() -> u8 {
        7
    }

    pub const fn f4_min() -> u8 {
        0
    }

    pub const fn f4_max() -> u8 {
        7
    }
}

#[asn(sequence, extensible_after(f4))]

#[derive(Default, Debug, Clone, PartialEq, Hash)]
pub struct Ts5mmomme5 {
    #[asn(integer(0..7))] pub f0: u8,
    #[asn(integer(0..7))] pub f1: u8,
    #[asn(optional(integer(0..7)))] pub f2: Option<u8>,
    #[asn(integer(0..7))] pub f3: u8,
    #[asn(integer(0..7))] pub f4: u8,
}

impl Ts5mmomme5 {
    pub const fn f0_min() -> u8 {
        0
    }

    pub const fn f0_max() -> u8 {
        7
    }

    pub const fn f1_min() -> u8 {
        0
    }

    pub const fn f1_max() -> u8 {
        7
    }

    pub const fn f2_min() -> u8 {
        0
    }

    pub const fn f2_max() -> u8 {
        7
    }

    pub const fn f3_min() -> u8 {
        0
    }

    pub const fn f3_max() -> u8 {
        7
    }

    pub const fn f4_min() -> u8 {
        0
    }

    pub const fn f4_max() -> u8 {
        7
    }
}

#[asn(sequence)]

#[derive(Default, Debug, Clone, PartialEq, Hash)]
pub struct Ts5omommn {
    #[asn(optional(integer(0..7)))] pub f0: Option<u8>,
    #[asn(integer(0..7))] pub f1: u8,
    #[asn(optional(integer(0..7)))] pub f2: Option<u8>,
    #[asn(integer(0..7))] pub f3: u8,
    #[asn(integer(0..7))] pub f4: u8,
}

impl Ts5omommn {
    pub const fn f0_min() -> u8 {
        0
    }

    pub const fn f0_max() -> u8 {
        7
    }

    pub const fn f1_min() -> u8 {
        0
    }

    pub const fn f1_max() -> u8 {
        7
    }

    pub const fn f2_min() -> u8 {
        0
    }

    pub const fn f2_max() -> u8 {
        7
    }

    pub const fn f3_min() -> u8 {
        0
    }

    pub const fn f3_max() -> u8 {
        7
    }

    pub const fn f4_min() -> u8 {
        0
    }

    pub const fn f4_max() -> u8 {
        7
    }
}

#[asn(sequence, extensible_after(f0))]

#[derive(Default, Debug, Clone, PartialEq, Hash)]
pub struct Ts5omomme0 {
    #[asn(optional(integer(0..7)))] pub f0: Option<u8>,
    #[asn(optional(integer(0..7)))] pub f1: Option<u8>,
    #[asn(optional(integer(0..7)))] pub f2: Option<u8>,
    #[asn(optional(integer(0..7)))] pub f3: Option<u8>,
    #[asn(optional(integer(0..7)))] pub f4: Option<u8>,
}

impl Ts5omomme0 {
    pub const fn f0_min() -> u8 {
        0
    }

    pub const fn f0_max() -> u8 {
        7
    }

    pub const fn f1_min() -> u8 {
        0
    }

    pub const fn f1_max() -> u8 {
        7
    }

    pub const fn f2_min() -> u8 {
        0
    }

    pub const fn f2_max() -> u8 {
        7
    }

    pub const fn f3_min() -> u8 {
        0
    }

    pub const fn f3_max() -> u8 {
        7
    }

    pub const fn f4_min() -> u8 {
        0
    }

    pub const fn f4_max() -> u8 {
        7
    }
}

#[asn(sequence, extensible_after(f0))]

#[derive(Default, Debug, Clone, PartialEq, Hash)]
pub struct Ts5omomme1 {
    #[asn(optional(integer(0..7)))] pub f0: Option<u8>,
    #[asn(optional(integer(0..7)))] pub f1: Option<u8>,
    #[asn(optional(integer(0..7)))] pub f2: Option<u8>,
    #[asn(optional(integer(0..7)))] pub f3: Option<u8>,
    #[asn(optional(integer(0..7)))] pub f4: Option<u8>,
}

impl Ts5omomme1 {
    pub const fn f0_min() -> u8 {
        0
    }

    pub const fn f0_max() -> u8 {
        7
    }

    pub const fn f1_min() -> u8 {
        0
    }

    pub const fn f1_max() -> u8 {
        7
    }

    pub const fn f2_min() -> u8 {
        0
    }

    pub const fn f2_max() -> u8 {
        7
    }

    pub const fn f3_min() -> u8 {
        0
    }

    pub const fn f3_max() -> u8 {
        7
    }

    pub const fn f4_min() -> u8 {
        0
    }

    pub const fn f4_max() -> u8 {
        7
    }
}

#[asn(sequence, extensible_after(f1))]

#[derive(Default, Debug, Clone, PartialEq, Hash)]
pub struct Ts5omomme2 {
    #[asn(optional(integer(0..7)))] pub f0: Option<u8>,
    #[asn(integer(0..7))] pub f1: u8,
    #[asn(optional(integer(0..7)))] pub f2: Option<u8>,
    #[asn(optional(integer(0..7)))] pub f3: Option<u8>,
    #[asn(optional(integer(0..7)))] pub f4: Option<u8>,
}

impl Ts5omomme2 {
    pub const fn f0_min() -> u8 {
        0
    }

    pub const fn f0_max() -> u8 {
        7
    }

    pub const fn f1_min() -> u8 {
        0
    }

    pub const fn f1_max() -> u8 {
        7
    }

    pub const fn f2_min() -> u8 {
        0
    }

    pub const fn f2_max() -> u8 {
        7
    }

    pub const fn f3_min() -> u8 {
        0
    }

    pub const fn f3_max() -> u8 {
        7
    }

    pub const fn f4_min() -> u8 {
        0
    }

    pub const fn f4_max() -> u8 {
        7
    }
}

#[asn(sequence, extensible_after(f2))]

#[derive(Default, Debug, Clone, PartialEq, Hash)]
pub struct Ts5omomme3 {
    #[asn(optional(integer(0..7)))] pub f0: Option<u8>,
    #[asn(integer(0..7))] pub f1: u8,
    #[asn(optional(integer(0..7)))] pub f2: Option<u8>,
    #[asn(optional(integer(0..7)))] pub f3: Option<u8>,
    #[asn(optional(integer(0..7)))] pub f4: Option<u8>,
}

impl Ts5omomme3 {
    pub const fn f0_min() -> u8 {
        0
    }

    pub const fn f0_max() -> u8 {
        7
    }

    pub const fn f1_min() -> u8 {
        0
    }

    pub const fn f1_max() -> u8 {
        7
    }

    pub const fn f2_min() -> u8 {
        0
    }

    pub const fn f2_max() -> u8 {
        7
    }

    pub const fn f3_min() -> u8 {
        0
    }

    pub const fn f3_max() -> u8 {
        7
    }

    pub const fn f4_min() -> u8 {
        0
    }

    pub const fn f4_max() -> u8 {
        7
    }
}

#[asn(sequence, extensible_after(f3))]

#[derive(Default, Debug, Clone, PartialEq, Hash)]
pub struct Ts5omomme4 {
    #[asn(optional(integer(0..7)))] pub f0: Option<u8>,
    #[asn(integer(0..7))] pub f1: u8,
    #[asn(optional(integer(0..7)))] pub f2: Option<u8>,
    #[asn(integer(0..7))] pub f3: u8,
    #[asn(optional(integer(0..7)))] pub f4: Option<u8>,
}

impl Ts5omomme4 {
    pub const fn f0_min() -> u8 {
        0
    }

    pub const fn f0_max() -> u8 {
        7
    }

    pub const fn f1_min() -> u8 {
        0
    }

    pub const fn f1_max() -> u8 {
        7
    }

    pub const fn f2_min() -> u8 {
        0
    }

    pub const fn f2_max() -> u8 {
        7
    }

    pub const fn f3_min() -> u8 {
        0
    }

    pub const fn f3_max() -> u8 {
        7
    }

    pub const fn f4_min() -> u8 {
        0
    }

    pub const fn f4_max() -> u8 {
        7
    }
}

#[asn(sequence, extensible_after(f4))]

#[derive(Default, Debug, Clone, PartialEq, Hash)]
pub struct Ts5omomme5 {
    #[asn(optional(integer(0..7)))] pub f0: Option<u8>,
    #[asn(integer(0..7))] pub f1: u8,
    #[asn(optional(integer(0..7)))] pub f2: Option<u8>,
    #[asn(integer(0..7))] pub f3: u8,
    #[asn(integer(0..7))] pub f4: u8,
}

impl Ts5omomme5 {
    pub const fn f0_min() -> u8 {
        0
    }

    pub const fn f0_max() -> u8 {
        7
    }

    pub const fn f1_min() -> u8 {
        0
    }

    pub const fn f1_max() -> u8 {
        7
    }

    pub const fn f2_min() -> u8 {
        0
    }

    pub const fn f2_max() -> u8 {
        7
    }

    pub const fn f3_min() -> u8 {
        0
    }

    pub const fn f3_max() -> u8 {
        7
    }

    pub const fn f4_min() -> u8 {
        0
    }

    pub const fn f4_max() -> u8 {
        7
    }
}

#[asn(sequence)]

#[derive(Default, Debug, Clone, PartialEq, Hash)]
pub struct Ts5dmommn {
    #[asn(default(integer(0..7), 5))] pub f0: u8,
    #[asn(integer(0..7))] pub f1: u8,
    #[asn(optional(integer(0..7)))] pub f2: Option<u8>,
    #[asn(integer(0..7))] pub f3: u8,
    #[asn(integer(0..7))] pub f4: u8,
}

impl Ts5dmommn {
    pub const fn f0_min() -> u8 {
        0
    }

    pub const fn f0_max() -> u8 {
        7
    }

    pub const fn f1_min() -> u8 {
        0
    }

    pub const fn f1_max() -> u8 {
        7
    }

    pub const fn f2_min() -> u8 {
        0
    }

    pub const fn f2_max() -> u8 {
        7
    }

    pub const fn f3_min() -> u8 {
        0
    }

    pub const fn f3_max() -> u8 {
        7
    }

    pub const fn f4_min() -> u8 {
        0
    }

    pub const fn f4_max() -> u8 {
        7
    }
}

#[asn(sequence, extensible_after(f0))]

#[derive(Default, Debug, Clone, PartialEq, Hash)]
pub struct Ts5dmomme0 {
    #[asn(default(integer(0..7), 5))] pub f0: u8,
    #[asn(optional(integer(0..7)))] pub f1: Option<u8>,
    #[asn(optional(integer(0..7)))] pub f2: Option<u8>,
    #[asn(optional(integer(0..7)))] pub f3: Option<u8>,
    #[asn(optional(integer(0..7)))] pub f4: Option<u8>,
}

impl Ts5dmomme0 {
    pub const fn f0_min() -> u8 {
        0
    }

    pub const fn f0_max() -> u8 {
        7
    }

    pub const fn f1_min() -> u8 {
        0
    }

    pub const fn f1_max() -> u8 {
        7
    }

    pub const fn f2_min() -> u8 {
        0
    }

    pub const fn f2_max() -> u8 {
        7
    }

    pub const fn f3_min() -> u8 {
        0
    }

    pub const fn f3_max() -> u8 {
        7
    }

    pub const fn f4_min() -> u8 {
        0
    }

    pub const fn f4_max() -> u8 {
        7
    }
}

#[asn(sequence, extensible_after(f0))]

#[derive(Default, Debug, Clone, PartialEq, Hash)]
pub struct Ts5dmomme1 {
    #[asn(default(integer(0..7), 5))] pub f0: u8,
    #[asn(optional(integer(0..7)))] pub f1: Option<u8>,
    #[asn(optional(integer(0..7)))] pub f2: Option<u8>,
    #[asn(optional(integer(0..7)))] pub f3: Option<u8>,
    #[asn(optional(integer(0..7)))] pub f4: Option<u8>,
}

impl Ts5dmomme1 {
    pub const fn f0_min() -> u8 {
        0
    }

    pub const fn f0_max() -> u8 {
        7
    }

    pub const fn f1_min() -> u8 {
        0
    }

    pub const fn f1_max() -> u8 {
        7
    }

    pub const fn f2_min() -> u8 {
        0
    }

    pub const fn f2_max() -> u8 {
        7
    }

    pub const fn f3_min() -> u8 {
        0
    }

    pub const fn f3_max() -> u8 {
        7
    }

    pub const fn f4_min() -> u8 {
        0
    }

    pub const fn f4_max() -> u8 {
        7
    }
}

#[asn(sequence, extensible_after(f1))]

#[derive(Default, Debug, Clone, PartialEq, Hash)]
pub struct Ts5dmomme2 {
    #[asn(default(integer(0..7), 5))] pub f0: u8,
    #[asn(integer(0..7))] pub f1: u8,
    #[asn(optional(integer(0..7)))] pub f2: Option<u8>,
    #[asn(optional(integer(0..7)))] pub f3: Option<u8>,
    #[asn(optional(integer(0..7)))] pub f4: Option<u8>,
}

impl Ts5dmomme2 {
    pub const fn f0_min() -> u8 {
        0
    }

    pub const fn f0_max() -> u8 {
        7
    }

    pub const fn f1_min() -> u8 {
        0
    }

    pub const fn f1_max() -> u8 {
        7
    }

    pub const fn f2_min() -> u8 {
        0
    }

    pub const fn f2_max() -> u8 {
        7
    }

    pub const fn f3_min() -> u8 {
        0
    }

    pub const fn f3_max() -> u8 {
        7
    }

    pub const fn f4_min() -> u8 {
        0
    }

    pub const fn f4_max() -> u8 {
        7
    }
}

#[asn(sequence, extensible_after(f2))]

#[derive(Default, Debug, Clone, PartialEq, Hash)]
pub struct Ts5dmomme3 {
    #[asn(default(integer(0..7), 5))] pub f0: u8,
    #[asn(integer(0..7))] pub f1: u8,
    #[asn(optional(integer(0..7)))] pub f2: Option<u8>,
    #[asn(optional(integer(0..7)))] pub f3: Option<u8>,
    #[asn(optional(integer(0..7)))] pub f4: Option<u8>,
}

impl Ts5dmomme3 {
    pub const fn f0_min() -> u8 {
        0
    }

    pub const fn f0_max() -> u8 {
        7
    }

    pub const fn f1_min() -> u8 {
        0
    }

    pub const fn f1_max() -> u8 {
        7
    }

    pub const fn f2_min() -> u8 {
        0
    }

    pub const fn f2_max() -> u8 {
        7
    }

    pub const fn f3_min() -> u8 {
        0
    }

    pub const fn f3_max() -> u8 {
        7
    }

    pub const fn f4_min() -> u8 {
        0
    }

    pub const fn f4_max() -> u8 {
        7
    }
}

#[asn(sequence, extensible_after(f3))]

#[derive(Default, Debug, Clone, PartialEq, Hash)]
pub struct Ts5dmomme4 {
    #[asn(default(integer(0..7), 5))] pub f0: u8,
    #[asn(integer(0..7))] pub f1: u8,
    #[asn(optional(integer(0..7)))] pub f2: Option<u8>,
    #[asn(integer(0..7))] pub f3: u8,
    #[asn(optional(integer(0..7)))] pub f4: Option<u8>,
}

impl Ts5dmomme4 {
    pub const fn f0_min() -> u8 {
        0
    }

    pub const fn f0_max() -> u8 {
        7
    }

    pub const fn f1_min() -> u8 {
        0
    }

    pub const fn f1_max() -> u8 {
        7
    }

    pub const fn f2_min() -> u8 {
        0
    }

    pub const fn f2_max() -> u8 {
        7
    }

    pub const fn f3_min() -> u8 {
        0
    }

    pub const fn f3_max() -> u8 {
        7
    }

    pub const fn f4_min() -> u8 {
        0
    }

    pub const fn f4_max() -> u8 {
        7
    }
}

#[asn(sequence, extensible_after(f4))]

#[derive(Default, Debug, Clone, PartialEq, Hash)]
pub struct Ts5dmomme5 {
    #[asn(default(integer(0..7), 5))] pub f0: u8,
    #[asn(integer(0..7))] pub f1: u8,
    #[asn(optional(integer(0..7)))] pub f2: Option<u8>,
    #[asn(integer(0..7))] pub f3: u8,
    #[asn(integer(0..7))] pub f4: u8,
}

impl Ts5dmomme5 {
    pub const fn f0_min() -> u8 {
        0
    }

    pub const fn f0_max() -> u8 {
        7
    }

    pub const fn f1_min() -> u8 {
        0
    }

    pub const fn f1_max() -> u8 {
        7
    }

    pub const fn f2_min() -> u8 {
        0
    }

    pub const fn f2_max() -> u8 {
        7
    }

    pub const fn f3_min() -> u8 {
        0
    }

    pub const fn f3_max() -> u8 {
        7
    }

    pub const fn f4_min() -> u8 {
        0
    }

    pub const fn f4_max() -> u8 {
        7
    }
}

#[asn(sequence)]

#[derive(Default, Debug, Clone, PartialEq, Hash)]
pub struct Ts5moommn {
    #[asn(integer(0..7))] pub f0: u8,
    #[asn(optional(integer(0..7)))] pub f1: Option<u8>,
    #[asn(optional(integer(0..7)))] pub f2: Option<u8>,
    #[asn(integer(0..7))] pub f3: u8,
    #[asn(integer(0..7))] pub f4: u8,
}

impl Ts5moommn {
    pub const fn f0_min() -> u8 {
        0
    }

    pub const fn f0_max() -> u8 {
        7
    }

    pub const fn f1_min() -> u8 {
        0
    }

    pub const fn f1_max() -> u8 {
        7
    }

    pub const fn f2_min() -> u8 {
        0
    }

    pub const fn f2_max() -> u8 {
        7
    }

    pub const fn f3_min() -> u8 {
        0
    }

    pub const fn f3_max() -> u8 {
        7
    }

    pub const fn f4_min() -> u8 {
        0
    }

    pub const fn f4_max() -> u8 {
        7
    }
}

#[asn(sequence, extensible_after(f0))]

#[derive(Default, Debug, Clone, PartialEq, Hash)]
pub struct Ts5moomme0 {
    #[asn(integer(0..7))] pub f0: u8,
    #[asn(optional(integer(0..7)))] pub f1: Option<u8>,
    #[asn(optional(integer(0..7)))] pub f2: Option<u8>,
    #[asn(optional(integer(0..7)))] pub f3: Option<u8>,
    #[asn(optional(integer(0..7)))] pub f4: Option<u8>,
}

impl Ts5moomme0 {
    pub const fn f0_min() -> u8 {
        0
    }

    pub const fn f0_max() -> u8 {
        7
    }

    pub const fn f1_min() -> u8 {
        0
    }

    pub const fn f1_max() -> u8 {
        7
    }

    pub const fn f2_min() -> u8 {
        0
    }

    pub const fn f2_max() -> u8 {
        7
    }

    pub const fn f3_min() -> u8 {
        0
    }

    pub const fn f3_max() -> u8 {
        7
    }

    pub const fn f4_min() -> u8 {
        0
    }

    pub const fn f4_max() -> u8 {
        7
    }
}

#[asn(sequence, extensible_after(f0))]

#[derive(Default, Debug, Clone, PartialEq, Hash)]
pub struct Ts5moomme1 {
    #[asn(integer(0..7))] pub f0: u8,
    #[asn(optional(integer(0..7)))] pub f1: Option<u8>,
    #[asn(optional(integer(0..7)))] pub f2: Option<u8>,
    #[asn(optional(integer(0..7)))] pub f3: Option<u8>,
    #[asn(optional(integer(0..7)))] pub f4: Option<u8>,
}

impl Ts5moomme1 {
    pub const fn f0_min() -> u8 {
        0
    }

    pub const fn f0_max() -> u8 {
        7
    }

    pub const fn f1_min() -> u8 {
        0
    }

    pub const fn f1_max() -> u8 {
        7
    }

    pub const fn f2_min() -> u8 {
        0
    }

    pub const fn f2_max() -> u8 {
        7
    }

    pub const fn f3_min() -> u8 {
        0
    }

    pub const fn f3_max() -> u8 {
        7
    }

    pub const fn f4_min() -> u8 {
        0
    }

    pub const fn f4_max() -> u8 {
        7
    }
}

#[asn(sequence, extensible_after(f1))]

#[derive(Default, Debug, Clone, PartialEq, Hash)]
pub struct Ts5moomme2 {
    #[asn(integer(0..7))] pub f0: u8,
    #[asn(optional(integer(0..7)))] pub f1: Option<u8>,
    #[asn(optional(integer(0..7)))] pub f2: Option<u8>,
    #[asn(optional(integer(0..7)))] pub f3: Option<u8>,
    #[asn(optional(integer(0..7)))] pub f4: Option<u8>,
}

impl Ts5moomme2 {
    pub const fn f0_min() -> u8 {
        0
    }

    pub const fn f0_max() -> u8 {
        7
    }

    pub const fn f1_min() -> u8 {
        0
    }

    pub const fn f1_max() -> u8 {
        7
    }

    pub const fn f2_min() -> u8 {
        0
    }

    pub const fn f2_max() -> u8 {
        7
    }

    pub const fn f3_min() -> u8 {
        0
    }

    pub const fn f3_max() -> u8 {
        7
    }

    pub const fn f4_min() -> u8 {
        0
    }

    pub const fn f4_max() -> u8 {
        7
    }
}

#[asn(sequence, extensible_after(f2))]

#[derive(Default, Debug, Clone, PartialEq, Hash)]
pub struct Ts5moomme3 {
    #[asn(integer(0..7))] pub f0: u8,
    #[asn(optional(integer(0..7)))] pub f1: Option<u8>,
    #[asn(optional(integer(0..7)))] pub f2: Option<u8>,
    #[asn(optional(integer(0..7)))] pub f3: Option<u8>,
    #[asn(optional(integer(0..7)))] pub f4: Option<u8>,
}

impl Ts5moomme3 {
    pub const fn f0_min() -> u8 {
        0
    }

    pub const fn f0_max() -> u8 {
        7
    }

    pub const fn f1_min() -> u8 {
        0
    }

    pub const fn f1_max() -> u8 {
        7
    }

    pub const fn f2_min() -> u8 {
        0
    }

    pub const fn f2_max() -> u8 {
        7
    }

    pub const fn f3_min() -> u8 {
        0
    }

    pub const fn f3_max() -> u8 {
        7
    }

    pub const fn f4_min() -> u8 {
        0
    }

    pub const fn f4_max() -> u8 {
        7
    }
}

#[asn(sequence, extensible_after(f3))]

#[derive(Default, Debug, Clone, PartialEq, Hash)]
pub struct Ts5moomme4 {
    #[asn(integer(0..7))] pub f0: u8,
    #[asn(optional(integer(0..7)))] pub f1: Option<u8>,
    #[asn(optional(integer(0..7)))] pub f2: Option<u8>,
    #[asn(integer(0..7))] pub f3: u8,
    #[asn(optional(integer(0..7)))] pub f4: Option<u8>,
}

impl Ts5moomme4 {
    pub const fn f0_min() -> u8 {
        0
    }

    pub const fn f0_max() -> u8 {
        7
    }

    pub const fn f1_min() -> u8 {
        0
    }

    pub const fn f1_max() -> u8 {
        7
    }

    pub const fn f2_min() -> u8 {
        0
    }

    pub const fn f2_max() -> u8 {
        7
    }

    pub const fn f3_min() -> u8 {
        0
    }

    pub const fn f3_max() -> u8 {
        7
    }

    pub const fn f4_min() -> u8 {
        0
    }

    pub const fn f4_max() -> u8 {
        7
    }
}

#[asn(sequence, extensible_after(f4))]

#[derive(Default, Debug, Clone, PartialEq, Hash)]
pub struct Ts5moomme5 {
    #[asn(integer(0..7))] pub f0: u8,
    #[asn(optional(integer(0..7)))] pub f1: Option<u8>,
    #[asn(optional(integer(0..7)))] pub f2: Option<u8>,
    #[asn(integer(0..7))] pub f3: u8,
    #[asn(integer(0..7))] pub f4: u8,
}

impl Ts5moomme5 {
    pub const fn f0_min() -> u8 {
        0
    }

    pub const fn f0_max() -> u8 {
        7
    }

    pub const fn f1_min() -> u8 {
        0
    }

    pub const fn f1_max() -> u8 {
        7
    }

    pub const fn f2_min() -> u8 {
        0
    }

    pub const fn f2_max() -> u8 {
        7
    }

    pub const fn f3_min() -> u8 {
        0
    }

    pub const fn f3_max() -> u8 {
        7
    }

    pub const fn f4_min() -> u8 {
        0
    }

    pub const fn f4_max() -> u8 {
        7
    }
}

#[asn(sequence)]

#[derive(Default, Debug, Clone, PartialEq, Hash)]
pub struct Ts5ooommn {
    #[asn(optional(integer(0..7)))] pub f0: Option<u8>,
    #[asn(optional(integer(0..7)))] pub f1: Option<u8>,
    #[asn(optional(integer(0..7)))] pub f2: Option<u8>,
    #[asn(integer(0..7))] pub f3: u8,
    #[asn(integer(0..7))] pub f4: u8,
}

impl Ts5ooommn {
    pub const fn f0_min() -> u8 {
        0
    }

    pub const fn f0_max() -> u8 {
        7
    }

    pub const fn f1_min() -> u8 {
        0
    }

    pub const fn f1_max() -> u8 {
        7
    }

    pub const fn f2_min() -> u8 {
        0
    }

    pub const fn f2_max() -> u8 {
        7
    }

    pub const fn f3_min() -> u8 {
        0
    }

    pub const fn f3_max() -> u8 {
        7
    }

    pub const fn f4_min() -> u8 {
        0
    }

    pub const fn f4_max() -> u8 {
        7
    }
}

#[asn(sequence, extensible_after(f0))]

#[derive(Default, Debug, Clone, PartialEq, Hash)]
pub struct Ts5ooomme0 {
    #[asn(optional(integer(0..7)))] pub f0: Option<u8>,
    #[asn(optional(integer(0..7)))] pub f1: Option<u8>,
    #[asn(optional(integer(0..7)))] pub f2: Option<u8>,
    #[asn(optional(integer(0..7)))] pub f3: Option<u8>,
    #[asn(optional(integer(0..7)))] pub f4: Option<u8>,
}

impl Ts5ooomme0 {
    pub const fn f0_min() -> u8 {
        0
    }

    pub const fn f0_max() -> u8 {
        7
    }

    pub const fn f1_min() -> u8 {
        0
    }

    pub const fn f1_max() -> u8 {
        7
    }

    pub const fn f2_min() -> u8 {
        0
    }

    pub const fn f2_max() -> u8 {
        7
    }

    pub const fn f3_min() -> u8 {
        0
    }

    pub const fn f3_max() -> u8 {
        7
    }

    pub const fn f4_min() -> u8 {
        0
    }

    pub const fn f4_max() -> u8 {
        7
    }
}

#[asn(sequence, extensible_after(f0))]

#[derive(Default, Debug, Clone, PartialEq, Hash)]
pub struct Ts5ooomme1 {
    #[asn(optional(integer(0..7)))] pub f0: Option<u8>,
    #[asn(optional(integer(0..7)))] pub f1: Option<u8>,
    #[asn(optional(integer(0..7)))] pub f2: Option<u8>,
    #[asn(optional(integer(0..7)))] pub f3: Option<u8>,
    #[asn(optional(integer(0..7)))] pub f4: Option<u8>,
}

impl Ts5ooomme1 {
    pub const fn f0_min() -> u8 {
        0
    }

    pub const fn f0_max() -> u8 {
        7
    }

    pub const fn f1_min() -> u8 {
        0
    }

    pub const fn f1_max() -> u8 {
        7
    }

    pub const fn f2_min() -> u8 {
        0
    }

    pub const fn f2_max() -> u8 {
        7
    }

    pub const fn f3_min() -> u8 {
        0
    }

    pub const fn f3_max() -> u8 {
        7
    }

    pub const fn f4_min() -> u8 {
        0
    }

    pub const fn f4_max() -> u8 {
        7
    }
}

#[asn(sequence, extensible_after(f1))]

#[derive(Default, Debug, Clone, PartialEq, Hash)]
pub struct Ts5ooomme2 {
    #[asn(optional(integer(0..7)))] pub f0: Option<u8>,
    #[asn(optional(integer(0..7)))] pub f1: Option<u8>,
    #[asn(optional(integer(0..7)))] pub f2: Option<u8>,
    #[asn(optional(integer(0..7)))] pub f3: Option<u8>,
    #[asn(optional(integer(0..7)))] pub f4: Option<u8>,
}

impl Ts5ooomme2 {
    pub const fn f0_min() -> u8 {
        0
    }

    pub const fn f0_max() -> u8 {
        7
    }

    pub const fn f1_min() -> u8 {
        0
    }

    pub const fn f1_max() -> u8 {
        7
    }

    pub const fn f2_min() -> u8 {
        0
    }

    pub const fn f2_max() -> u8 {
        7
    }

    pub const fn f3_min() -> u8 {
        0
    }

    pub const fn f3_max() -> u8 {
        7
    }

    pub const fn f4_min() -> u8 {
        0
    }

    pub const fn f4_max() -> u8 {
        7
    }
}

#[asn(sequence, extensible_after(f2))]

#[derive(Default, Debug, Clone, PartialEq, Hash)]
pub struct Ts5ooomme3 {
    #[asn(optional(integer(0..7)))] pub f0: Option<u8>,
    #[asn(optional(integer(0..7)))] pub f1: Option<u8>,
    #[asn(optional(integer(0..7)))] pub f2: Option<u8>,
    #[asn(optional(integer(0..7)))] pub f3: Option<u8>,
    #[asn(optional(integer(0..7)))] pub f4: Option<u8>,
}

impl Ts5ooomme3 {
    pub const fn f0_min() -> u8 {
        0
    }

    pub const fn f0_max() -> u8 {
        7
    }

    pub const fn f1_min() -> u8 {
        0
    }

    pub const fn f1_max() -> u8 {
        7
    }

    pub const fn f2_min() -> u8 {
        0
    }

    pub const fn f2_max() -> u8 {
        7
    }

    pub const fn f3_min() -> u8 {
        0
    }

    pub const fn f3_max() -> u8 {
        7
    }

    pub const fn f4_min() -> u8 {
        0
    }

    pub const fn f4_max() -> u8 {
        7
    }
}

#[asn(sequence, extensible_after(f3))]

#[derive(Default, Debug, Clone, PartialEq, Hash)]
pub struct Ts5ooomme4 {
    #[asn(optional(integer(0..7)))] pub f0: Option<u8>,
    #[asn(optional(integer(0..7)))] pub f1: Option<u8>,
    #[asn(optional(integer(0..7)))] pub f2: Option<u8>,
    #[asn(integer(0..7))] pub f3: u8,
    #[asn(optional(integer(0..7)))] pub f4: Option<u8>,
}

impl Ts5ooomme4 {
    pub const fn f0_min() -> u8 {
        0
    }

    pub const fn f0_max() -> u8 {
        7
    }

    pub const fn f1_min() -> u8 {
        0
    }

    pub const fn f1_max() -> u8 {
        7
    }

    pub const fn f2_min() -> u8 {
        0
    }

    pub const fn f2_max() -> u8 {
        7
    }

    pub const fn f3_min() -> u8 {
        0
    }

    pub const fn f3_max() -> u8 {
        7
    }

    pub const fn f4_min() -> u8 {
        0
    }

    pub const fn f4_max() -> u8 {
        7
    }
}

#[asn(sequence, extensible_after(f4))]

#[derive(Default, Debug, Clone, PartialEq, Hash)]
pub struct Ts5ooomme5 {
    #[asn(optional(integer(0..7)))] pub f0: Option<u8>,
    #[asn(optional(integer(0..7)))] pub f1: Option<u8>,
    #[asn(optional(integer(0..7)))] pub f2: Option<u8>,
    #[asn(integer(0..7))] pub f3: u8,
    #[asn(integer(0..7))] pub f4: u8,
}

impl Ts5ooomme5 {
    pub const fn f0_min() -> u8 {
        0
    }

    pub const fn f0_max() -> u8 {
        7
    }

    pub const fn f1_min() -> u8 {
        0
    }

    pub const fn f1_max() -> u8 {
        7
    }

    pub const fn f2_min() -> u8 {
        0
    }

    pub const fn f2_max() -> u8 {
        7
    }

    pub const fn f3_min() -> u8 {
        0
    }

    pub const fn f3_max() -> u8 {
        7
    }

    pub const fn f4_min() -> u8 {
        0
    }

    pub const fn f4_max() -> u8 {
        7
    }
}

#[asn(sequence)]

#[derive(Default, Debug, Clone, PartialEq, Hash)]
pub struct Ts5doommn {
    #[asn(default(integer(0..7), 5))] pub f0: u8,
    #[asn(optional(integer(0..7)))] pub f1: Option<u8>,
    #[asn(optional(integer(0..7)))] pub f2: Option<u8>,
    #[asn(integer(0..7))] pub f3: u8,
    #[asn(integer(0..7))] pub f4: u8,
}

impl Ts5doommn {
    pub const fn f0_min() -> u8 {
        0
    }

    pub const fn f0_max() -> u8 {
        7
    }

    pub const fn f1_min() -> u8 {
        0
    }

    pub const fn f1_max() -> u8 {
        7
    }

    pub const fn f2_min() -> u8 {
        0
    }

    pub const fn f2_max() -> u8 {
        7
    }

    pub const fn f3_min() -> u8 {
        0
    }

    pub const fn f3_max() -> u8 {
        7
    }

    pub const fn f4_min() -> u8 {
        0
    }

    pub const fn f4_max() -> u8 {
        7
    }
}

#[asn(sequence, extensible_after(f0))]

#[derive(Default, Debug, Clone, PartialEq, Hash)]
pub struct Ts5doomme0 {
    #[asn(default(integer(0..7), 5))] pub f0: u8,
    #[asn(optional(integer(0..7)))] pub f1: Option<u8>,
    #[asn(optional(integer(0..7)))] pub f2: Option<u8>,
    #[asn(optional(integer(0..7)))] pub f3: Option<u8>,
    #[asn(optional(integer(0..7)))] pub f4: Option<u8>,
}

impl Ts5doomme0 {
    pub const fn f0_min() -> u8 {
        0
    }

    pub const fn f0_max() -> u8 {
        7
    }

    pub const fn f1_min() -> u8 {
        0
    }

    pub const fn f1_max() -> u8 {
        7
    }

    pub const fn f2_min() -> u8 {
        0
    }

    pub const fn f2_max() -> u8 {
        7
    }

    pub const fn f3_min() -> u8 {
        0
    }

    pub const fn f3_max() -> u8 {
        7
    }

    pub const fn f4_min() -> u8 {
        0
    }

    pub const fn f4_max() -> u8 {
        7
    }
}

#[asn(sequence, extensible_after(f0))]

#[derive(Default, Debug, Clone, PartialEq, Hash)]
pub struct Ts5doomme1 {
    #[asn(default(integer(0..7), 5))] pub f0: u8,
    #[asn(optional(integer(0..7)))] pub f1: Option<u8>,
    #[asn(optional(integer(0..7)))] pub f2: Option<u8>,
    #[asn(optional(integer(0..7)))] pub f3: Option<u8>,
    #[asn(optional(integer(0..7)))] pub f4: Option<u8>,
}

impl Ts5doomme1 {
    pub const fn f0_min() -> u8 {
        0
    }

    pub const fn f0_max() -> u8 {
        7
    }

    pub const fn f1_min() -> u8 {
        0
    }

    pub const fn f1_max() -> u8 {
        7
    }

    pub const fn f2_min() -> u8 {
        0
    }

    pub const fn f2_max() -> u8 {
        7
    }

    pub const fn f3_min() -> u8 {
        0
    }

    pub const fn f3_max() -> u8 {
        7
    }

    pub const fn f4_min() -> u8 {
        0
    }

    pub const fn f4_max() -> u8 {
        7
    }
}

#[asn(sequence, extensible_after(f1))]

#[derive(Default, Debug, Clone, PartialEq, Hash)]
pub struct Ts5doomme2 {
    #[asn(default(integer(0..7), 5))] pub f0: u8,
    #[asn(optional(integer(0..7)))] pub f1: Option<u8>,
    #[asn(optional(integer(0..7)))] pub f2: Option<u8>,
    #[asn(optional(integer(0..7)))] pub f3: Option<u8>,
    #[asn(optional(integer(0..7)))] pub f4: Option<u8>,
}

impl Ts5doomme2 {
    pub const fn f0_min() -> u8 {
        0
    }

    pub const fn f0_max() -> u8 {
        7
    }

    pub const fn f1_min() -> u8 {
        0
    }

    pub const fn f1_max() -> u8 {
        7
    }

    pub const fn f2_min() -> u8 {
        0
    }

    pub const fn f2_max() -> u8 {
        7
    }

    pub const fn f3_min() -> u8 {
        0
    }

    pub const fn f3_max() -> u8 {
        7
    }

    pub const fn f4_min() -> u8 {
        0
    }

    pub const fn f4_max() -> u8 {
        7
    }
}

#[asn(sequence, extensible_after(f2))]

#[derive(Default, Debug, Clone, PartialEq, Hash)]
pub struct Ts5doomme3 {
    #[asn(default(integer(0..7), 5))] pub f0: u8,
    #[asn(optional(integer(0..7)))] pub f1: Option<u8>,
    #[asn(optional(integer(0..7)))] pub f2: Option<u8>,
    #[asn(optional(integer(0..7)))] pub f3: Option<u8>,
    #[asn(optional(integer(0..7)))] pub f4: Option<u8>,
}

impl Ts5doomme3 {
    pub const fn f0_min() -> u8 {
        0
    }

    pub const fn f0_max() -> u8 {
        7
    }

    pub const fn f1_min() -> u8 {
        0
    }

    pub const fn f1_max() -> u8 {
        7
    }

    pub const fn f2_min() -> u8 {
        0
    }

    pub const fn f2_max() -> u8 {
        7
    }

    pub const fn f3_min() -> u8 {
        0
    }

    pub const fn f3_max() -> u8 {
        7
    }

    pub const fn f4_min() -> u8 {
        0
    }

    pub const fn f4_max() -> u8 {
        7
    }
}

#[asn(sequence, extensible_after(f3))]

#[derive(Default, Debug, Clone, PartialEq, Hash)]
pub struct Ts5doomme4 {
    #[asn(default(integer(0..7), 5))] pub f0: u8,
    #[asn(optional(integer(0..7)))] pub f1: Option<u8>,
    #[asn(optional(integer(0..7)))] pub f2: Option<u8>,
    #[asn(integer(0..7))] pub f3: u8,
    #[asn(optional(integer(0..7)))] pub f4: Option<u8>,
}

impl Ts5doomme4 {
    pub const fn f0_min() -> u8 {
        0
    }

    pub const fn f0_max() -> u8 {
        7
    }

    pub const fn f1_min() -> u8 {
        0
    }

    pub const fn f1_max() -> u8 {
        7
    }

    pub const fn f2_min() -> u8 {
        0
    }

    pub const fn f2_max() -> u8 {
        7
    }

    pub const fn f3_min() -> u8 {
        0
    }

    pub const fn f3_max() -> u8 {
        7
    }

    pub const fn f4_min() -> u8 {
        0
    }

    pub const fn f4_max() -> u8 {
        7
    }
}

#[asn(sequence, extensible_after(f4))]

#[derive(Default, Debug, Clone, PartialEq, Hash)]
pub struct Ts5doomme5 {
    #[asn(default(integer(0..7), 5))] pub f0: u8,
    #[asn(optional(integer(0..7)))] pub f1: Option<u8>,
    #[asn(optional(integer(0..7)))] pub f2: Option<u8>,
    #[asn(integer(0..7))] pub f3: u8,
    #[asn(integer(0..7))] pub f4: u8,
}

impl Ts5doomme5 {
    pub const fn f0_min() -> u8 {
        0
    }

    pub const fn f0_max() -> u8 {
        7
    }

    pub const fn f1_min() -> u8 {
        0
    }

    pub const fn f1_max() -> u8 {
        7
    }

    pub const fn f2_min() -> u8 {
        0
    }

    pub const fn f2_max() -> u8 {
        7
    }

    pub const fn f3_min() -> u8 {
        0
    }

    pub const fn f3_max() -> u8 {
        7
    }

    pub const fn f4_min() -> u8 {
        0
    }

    pub const fn f4_max() -> u8 {
        7
    }
}

#[asn(sequence)]

#[derive(Default, Debug, Clone, PartialEq, Hash)]
pub struct Ts5mdommn {
    #[asn(integer(0..7))] pub f0: u8,
    #[asn(default(integer(0..7), 5))] pub f1: u8,
    #[asn(optional(integer(0..7)))] pub f2: Option<u8>,
    #[asn(integer(0..7))] pub f3: u8,
    #[asn(integer(0..7))] pub f4: u8,
}

impl Ts5mdommn {
    pub const fn f0_min() -> u8 {
        0
    }

    pub const fn f0_max() -> u8 {
        7
    }

    pub const fn f1_min() -> u8 {
        0
    }

    pub const fn f1_max() -> u8 {
        7
    }

    pub const fn f2_min() -> u8 {
        0
    }

    pub const fn f2_max() -> u8 {
        7
    }

    pub const fn f3_min() -> u8 {
        0
    }

    pub const fn f3_max() -> u8 {
        7
    }

    pub const fn f4_min() -> u8 {
        0
    }

    pub const fn f4_max() -> u8 {
        7
    }
}

#[asn(sequence, extensible_after(f0))]

#[derive(Default, Debug, Clone, PartialEq, Hash)]
pub struct Ts5mdomme0 {
    #[asn(integer(0..7))] pub f0: u8,
    #[asn(default(integer(0..7), 5))] pub f1: u8,
    #[asn(optional(integer(0..7)))] pub f2: Option<u8>,
    #[asn(optional(integer(0..7)))] pub f3: Option<u8>,
    #[asn(optional(integer(0..7)))] pub f4: Option<u8>,
}

impl Ts5mdomme0 {
    pub const fn f0_min() -> u8 {
        0
    }

    pub const fn f0_max() -> u8 {
        7
    }

    pub const fn f1_min() -> u8 {
        0
    }

    pub const fn f1_max() -> u8 {
        7
    }

    pub const fn f2_min() -> u8 {
        0
    }

    pub const fn f2_max() -> u8 {
        7
    }

    pub const fn f3_min() -> u8 {
        0
    }

    pub const fn f3_max() -> u8 {
        7
    }

    pub const fn f4_min() -> u8 {
        0
    }

    pub const fn f4_max() -> u8 {
        7
    }
}

#[asn(sequence, extensible_after(f0))]

#[derive(Default, Debug, Clone, PartialEq, Hash)]
pub struct Ts5mdomme1 {
    #[asn(integer(0..7))] pub f0: u8,
    #[asn(default(integer(0..7), 5))] pub f1: u8,
    #[asn(optional(integer(0..7)))] pub f2: Option<u8>,
    #[asn(optional(integer(0..7)))] pub f3: Option<u8>,
    #[asn(optional(integer(0..7)))] pub f4: Option<u8>,
}

impl Ts5mdomme1 {
    pub const fn f0_min() -> u8 {
        0
    }

    pub const fn f0_max() -> u8 {
        7
    }

    pub const fn f1_min() -> u8 {
        0
    }

    pub const fn f1_max() -> u8 {
        7
    }

    pub const fn f2_min() -> u8 {
        0
    }

    pub const fn f2_max() -> u8 {
        7
    }

    pub const fn f3_min() -> u8 {
        0
    }

    pub const fn f3_max() -> u8 {
        7
    }

    pub const fn f4_min() -> u8 {
        0
    }

    pub const fn f4_max() -> u8 {
        7
    }
}

#[asn(sequence, extensible_after(f1))]

#[derive(Default, Debug, Clone, PartialEq, Hash)]
pub struct Ts5mdomme2 {
    #[asn(integer(0..7))] pub f0: u8,
    #[asn(default(integer(0..7), 5))] pub f1: u8,
    #[asn(optional(integer(0..7)))] pub f2: Option<u8>,
    #[asn(optional(integer(0..7)))] pub f3: Option<u8>,
    #[asn(optional(integer(0..7)))] pub f4: Option<u8>,
}

impl Ts5mdomme2 {
    pub const fn f0_min() -> u8 {
        0
    }

    pub const fn f0_max() -> u8 {
        7
    }

    pub const fn f1_min() -> u8 {
        0
    }

    pub const fn f1_max() -> u8 {
        7
    }

    pub const fn f2_min() -> u8 {
        0
    }

    pub const fn f2_max() -> u8 {
        7
    }

    pub const fn f3_min() -> u8 {
        0
    }

    pub const fn f3_max() -> u8 {
        7
    }

    pub const fn f4_min() -> u8 {
        0
    }

    pub const fn f4_max() -> u8 {
        7
    }
}

#[asn(sequence, extensible_after(f2))]

#[derive(Default, Debug, Clone, PartialEq, Hash)]
pub struct Ts5mdomme3 {
    #[asn(integer(0..7))] pub f0: u8,
    #[asn(default(integer(0..7), 5))] pub f1: u8,
    #[asn(optional(integer(0..7)))] pub f2: Option<u8>,
    #[asn(optional(integer(0..7)))] pub f3: Option<u8>,
    #[asn(optional(integer(0..7)))] pub f4: Option<u8>,
}

impl Ts5mdomme3 {
    pub const fn f0_min() -> u8 {
        0
    }

    pub const fn f0_max() -> u8 {
        7
    }

    pub const fn f1_min() -> u8 {
        0
    }

    pub const fn f1_max() -> u8 {
        7
    }

    pub const fn f2_min() -> u8 {
        0
    }

    pub const fn f2_max() -> u8 {
        7
    }

    pub const fn f3_min() -> u8 {
        0
    }

    pub const fn f3_max() -> u8 {
        7
    }

    pub const fn f4_min() -> u8 {
        0
    }

    pub const fn f4_max() -> u8 {
        7
    }
}

#[asn(sequence, extensible_after(f3))]

#[derive(Default, Debug, Clone, PartialEq, Hash)]
pub struct Ts5mdomme4 {
    #[asn(integer(0..7))] pub f0: u8,
    #[asn(default(integer(0..7), 5))] pub f1: u8,
    #[asn(optional(integer(0..7)))] pub f2: Option<u8>,
    #[asn(integer(0..7))] pub f3: u8,
    #[asn(optional(integer(0..7)))] pub f4: Option<u8>,
}

impl Ts5mdomme4 {
    pub const fn f0_min() -> u8 {
        0
    }

    pub const fn f0_max() -> u8 {
        7
    }

    pub const fn f1_min() -> u8 {
        0
    }

    pub const fn f1_max() -> u8 {
        7
    }

    pub const fn f2_min() -> u8 {
        0
    }

    pub const fn f2_max() -> u8 {
        7
    }

    pub const fn f3_min() -> u8 {
        0
    }

    pub const fn f3_max() -> u8 {
        7
    }

    pub const fn f4_min() -> u8 {
        0
    }

    pub const fn f4_max() -> u8 {
        7
    }
}

#[asn(sequence, extensible_after(f4))]

#[derive(Default, Debug, Clone, PartialEq, Hash)]
pub struct Ts5mdomme5 {
    #[asn(integer(0..7))] pub f0: u8,
    #[asn(default(integer(0..7), 5))] pub f1: u8,
    #[asn(optional(integer(0..7)))] pub f2: Option<u8>,
    #[asn(integer(0..7))] pub f3: u8,
    #[asn(integer(0..7))] pub f4: u8,
}

impl Ts5mdomme5 {
    pub const fn f0_min() -> u8 {
        0
    }

    pub const fn f0_max() -> u8 {
        7
    }

    pub const fn f1_min() -> u8 {
        0
    }

    pub const fn f1_max() -> u8 {
        7
    }

    pub const fn f2_min() -> u8 {
        0
    }

    pub const fn f2_max() -> u8 {
        7
    }

    pub const fn f3_min() -> u8 {
        0
    }

    pub const fn f3_max() -> u8 {
        7
    }

    pub const fn f4_min() -> u8 {
        0
    }

    pub const fn f4_max() -> u8 {
        7
    }
}

#[asn(sequence)]

#[derive(Default, Debug, Clone, PartialEq, Hash)]
pub struct Ts5odommn {
    #[asn(optional(integer(0..7)))] pub f0: Option<u8>,
    #[asn(default(integer(0..7), 5))] pub f1: u8,
    #[asn(optional(integer(0..7)))] pub f2: Option<u8>,
    #[asn(integer(0..7))] pub f3: u8,
    #[asn(integer(0..7))] pub f4: u8,
}

impl Ts5odommn {
    pub const fn f0_min() -> u8 {
        0
    }

    pub const fn f0_max() -> u8 {
        7
    }

    pub const fn f1_min() -> u8 {
        0
    }

    pub const fn f1_max() -> u8 {
        7
    }

    pub const fn f2_min() -> u8 {
        0
    }

    pub const fn f2_max() -> u8 {
        7
    }

    pub const fn f3_min() -> u8 {
        0
    }

    pub const fn f3_max() -> u8 {
        7
    }

    pub const fn f4_min() -> u8 {
        0
    }

    pub const fn f4_max() -> u8 {
        7
    }
}

#[asn(sequence, extensible_after(f0))]

#[derive(Default, Debug, Clone, PartialEq, Hash)]
pub struct Ts5odomme0 {
    #[asn(optional(integer(0..7)))] pub f0: Option<u8>,
    #[asn(default(integer(0..7), 5))] pub f1: u8,
    #[asn(optional(integer(0..7)))] pub f2: Option<u8>,
    #[asn(optional(integer(0..7)))] pub f3: Option<u8>,
    #[asn(optional(integer(0..7)))] pub f4: Option<u8>,
}

impl Ts5odomme0 {
    pub const fn f0_min() -> u8 {
        0
    }

    pub const fn f0_max() -> u8 {
        7
    }

    pub const fn f1_min() -> u8 {
        0
    }

    pub const fn f1_max() -> u8 {
        7
    }

    pub const fn f2_min() -> u8 {
        0
    }

    pub const fn f2_max() -> u8 {
        7
    }

    pub const fn f3_min() -> u8 {
        0
    }

    pub const fn f3_max() -> u8 {
        7
    }

    pub const fn f4_min() -> u8 {
        0
    }

    pub const fn f4_max() -> u8 {
        7
    }
}

#[asn(sequence, extensible_after(f0))]

#[derive(Default, Debug, Clone, PartialEq, Hash)]
pub struct Ts5odomme1 {
    #[asn(optional(integer(0..7)))] pub f0: Option<u8>,
    #[asn(default(integer(0..7), 5))] pub f1: u8,
    #[asn(optional(integer(0..7)))] pub f2: Option<u8>,
    #[asn(optional(integer(0..7)))] pub f3: Option<u8>,
    #[asn(optional(integer(0..7)))] pub f4: Option<u8>,
}

impl Ts5odomme1 {
    pub const fn f0_min() -> u8 {
        0
    }

    pub const fn f0_max() -> u8 {
        7
    }

    pub const fn f1_min() -> u8 {
        0
    }

    pub const fn f1_max() -> u8 {
        7
    }

    pub const fn f2_min() -> u8 {
        0
    }

    pub const fn f2_max() -> u8 {
        7
    }

    pub const fn f3_min() -> u8 {
        0
    }

    pub const fn f3_max() -> u8 {
        7
    }

    pub const fn f4_min() -> u8 {
        0
    }

    pub const fn f4_max() -> u8 {
        7
    }
}

#[asn(sequence, extensible_after(f1))]

#[derive(Default, Debug, Clone, PartialEq, Hash)]
pub struct Ts5odomme2 {
    #[asn(optional(integer(0..7)))] pub f0: Option<u8>,
    #[asn(default(integer(0..7), 5))] pub f1: u8,
    #[asn(optional(integer(0..7)))] pub f2: Option<u8>,
    #[asn(optional(integer(0..7)))] pub f3: Option<u8>,
    #[asn(optional(integer(0..7)))] pub f4: Option<u8>,
}

impl Ts5odomme2 {
    pub const fn f0_min() -> u8 {
        0
    }

    pub const fn f0_max() -> u8 {
        7
    }

    pub const fn f1_min() -> u8 {
        0
    }

    pub const fn f1_max() -> u8 {
        7
    }

    pub const fn f2_min() -> u8 {
        0
    }

    pub const fn f2_max() -> u8 {
        7
    }

    pub const fn f3_min() -> u8 {
        0
    }

    pub const fn f3_max() -> u8 {
        7
    }

    pub const fn f4_min() -> u8 {
        0
    }

    pub const fn f4_max() -> u8 {
        7
    }
}

#[asn(sequence, extensible_after(f2))]

#[derive(Default, Debug, Clone, PartialEq, Hash)]
pub struct Ts5odomme3 {
    #[asn(optional(integer(0..7)))] pub f0: Option<u8>,
    #[asn(default(integer(0..7), 5))] pub f1: u8,
    #[asn(optional(integer(0..7)))] pub f2: Option<u8>,
    #[asn(optional(integer(0..7)))] pub f3: Option<u8>,
    #[asn(optional(integer(0..7)))] pub f4: Option<u8>,
}

impl Ts5odomme3 {
    pub const fn f0_min() -> u8 {
        0
    }

    pub const fn f0_max() -> u8 {
        7
    }

    pub const fn f1_min() -> u8 {
        0
    }

    pub const fn f1_max() -> u8 {
        7
    }

    pub const fn f2_min() -> u8 {
        0
    }

    pub const fn f2_max() -> u8 {
        7
    }

    pub const fn f3_min() -> u8 {
        0
    }

    pub const fn f3_max() -> u8 {
        7
    }

    pub const fn f4_min() -> u8 {
        0
    }

    pub const fn f4_max() -> u8 {
        7
    }
}

#[asn(sequence, extensible_after(f3))]

#[derive(Default, Debug, Clone, PartialEq, Hash)]
pub struct Ts5odomme4 {
    #[asn(optional(integer(0..7)))] pub f0: Option<u8>,
    #[asn(default(integer(0..7), 5))] pub f1: u8,
    #[asn(optional(integer(0..7)))] pub f2: Option<u8>,
    #[asn(integer(0..7))] pub f3: u8,
    #[asn(optional(integer(0..7)))] pub f4: Option<u8>,
}

impl Ts5odomme4 {
    pub const fn f0_min() -> u8 {
        0
    }

    pub const fn f0_max() -> u8 {
        7
    }

    pub const fn f1_min() -> u8 {
        0
    }

    pub const fn f1_max() -> u8 {
        7
    }

    pub const fn f2_min() -> u8 {
        0
    }

    pub const fn f2_max() -> u8 {
        7
    }

    pub const fn f3_min() -> u8 {
        0
    }

    pub const fn f3_max() -> u8 {
        7
    }

    pub const fn f4_min() -> u8 {
        0
    }

    pub const fn f4_max() -> u8 {
        7
    }
}

#[asn(sequence, extensible_after(f4))]

#[derive(Default, Debug, Clone, PartialEq, Hash)]
pub struct Ts5odomme5 {
    #[asn(optional(integer(0..7)))] pub f0: Option<u8>,
    #[asn(default(integer(0..7), 5))] pub f1: u8,
    #[asn(optional(integer(0..7)))] pub f2: Option<u8>,
    #[asn(integer(0..7))] pub f3: u8,
    #[asn(integer(0..7))] pub f4: u8,
}

impl Ts5odomme5 {
    pub const fn f0_min() -> u8 {
        0
    }

    pub const fn f0_max() -> u8 {
        7
    }

    pub const fn f1_min() -> u8 {
        0
    }

    pub const fn f1_max() -> u8 {
        7
    }

    pub const fn f2_min() -> u8 {
        0
    }

    pub const fn f2_max() -> u8 {
        7
    }

    pub const fn f3_min() -> u8 {
        0
    }

    pub const fn f3_max() -> u8 {
        7
    }

    pub const fn f4_min() -> u8 {
        0
    }

    pub const fn f4_max() -> u8 {
        7
    }
}

#[asn(sequence)]

#[derive(Default, Debug, Clone, PartialEq, Hash)]
pub struct Ts5ddommn {
    #[asn(default(integer(0..7), 5))] pub f0: u8,
    #[asn(default(integer(0..7), 5))] pub f1: u8,
    #[asn(optional(integer(0..7)))] pub f2: Option<u8>,
    #[asn(integer(0..7))] pub f3: u8,
    #[asn(integer(0..7))] pub f4: u8,
}

impl Ts5ddommn {
    pub const fn f0_min() -> u8 {
        0
    }

    pub const fn f0_max() -> u8 {
        7
    }

    pub const fn f1_min() -> u8 {
        0
    }

    pub const fn f1_max() -> u8 {
        7
    }

    pub const fn f2_min() -> u8 {
        0
    }

    pub const fn f2_max() -> u8 {
        7
    }

    pub const fn f3_min() -> u8 {
        0
    }

    pub const fn f3_max() -> u8 {
        7
    }

    pub const fn f4_min() -> u8 {
        0
    }

    pub const fn f4_max() -> u8 {
        7
    }
}
// ---- harness conversions (generated by the zoo build script from the items above) ----
impl FromValue for Ts5mmmmmn {
    fn from_value(v: &Value) -> Self {
        let s = match v { Value::Seq(s) => s, other => panic!("Ts5mmmmmn: expected Seq, got {other:?}") };
        assert_eq!(s.len(), 5, "Ts5mmmmmn: component count");
        let _ = s;
        Ts5mmmmmn {
            f0: FromValue::from_value(s[0].as_ref().expect("component f0 of Ts5mmmmmn must be present")),
            f1: FromValue::from_value(s[1].as_ref().expect("component f1 of Ts5mmmmmn must be present")),
            f2: FromValue::from_value(s[2].as_ref().expect("component f2 of Ts5mmmmmn must be present")),
            f3: FromValue::from_value(s[3].as_ref().expect("component f3 of Ts5mmmmmn must be present")),
            f4: FromValue::from_value(s[4].as_ref().expect("component f4 of Ts5mmmmmn must be present")),
        }
    }
}
impl ToValue for Ts5mmmmmn {
    fn to_value(&self) -> Value {
        Value::Seq(vec![
            Some(self.f0.to_value()),
            Some(self.f1.to_value()),
            Some(self.f2.to_value()),
            Some(self.f3.to_value()),
            Some(self.f4.to_value()),
        ])
    }
}
impl FromValue for Ts5mmmmme0 {
    fn from_value(v: &Value) -> Self {
        let s = match v { Value::Seq(s) => s, other => panic!("Ts5mmmmme0: expected Seq, got {other:?}") };
        assert_eq!(s.len(), 5, "Ts5mmmmme0: component count");
        let _ = s;
        Ts5mmmmme0 {
            f0: FromValue::from_value(s[0].as_ref().expect("component f0 of Ts5mmmmme0 must be present")),
            f1: s[1].as_ref().map(FromValue::from_value),
            f2: s[2].as_ref().map(FromValue::from_value),
            f3: s[3].as_ref().map(FromValue::from_value),
            f4: s[4].as_ref().map(FromValue::from_value),
        }
    }
}
impl ToValue for Ts5mmmmme0 {
    fn to_value(&self) -> Value {
        Value::Seq(vec![
            Some(self.f0.to_value()),
            self.f1.as_ref().map(|x| x.to_value()),
            self.f2.as_ref().map(|x| x.to_value()),
            self.f3.as_ref().map(|x| x.to_value()),
            self.f4.as_ref().map(|x| x.to_value()),
        ])
    }
}
impl FromValue for Ts5mmmmme1 {
    fn from_value(v: &Value) -> Self {
        let s = match v { Value::Seq(s) => s, other => panic!("Ts5mmmmme1: expected Seq, got {other:?}") };
        assert_eq!(s.len(), 5, "Ts5mmmmme1: component count");
        let _ = s;
        Ts5mmmmme1 {
            f0: FromValue::from_value(s[0].as_ref().expect("component f0 of Ts5mmmmme1 must be present")),
            f1: s[1].as_ref().map(FromValue::from_value),
            f2: s[2].as_ref().map(FromValue::from_value),
            f3: s[3].as_ref().map(FromValue::from_value),
            f4: s[4].as_ref().map(FromValue::from_value),
        }
    }
}
impl ToValue for Ts5mmmmme1 {
    fn to_value(&self) -> Value {
        Value::Seq(vec![
            Some(self.f0.to_value()),
            self.f1.as_ref().map(|x| x.to_value()),
            self.f2.as_ref().map(|x| x.to_value()),
            self.f3.as_ref().map(|x| x.to_value()),
            self.f4.as_ref().map(|x| x.to_value()),
        ])
    }
}
impl FromValue for Ts5mmmmme2 {
    fn from_value(v: &Value) -> Self {
        let s = match v { Value::Seq(s) => s, other => panic!("Ts5mmmmme2: expected Seq, got {other:?}") };
        assert_eq!(s.len(), 5, "Ts5mmmmme2: component count");
        let _ = s;
        Ts5mmmmme2 {
            f0: FromValue::from_value(s[0].as_ref().expect("component f0 of Ts5mmmmme2 must be present")),
            f1: FromValue::from_value(s[1].as_ref().expect("component f1 of Ts5mmmmme2 must be present")),
            f2: s[2].as_ref().map(FromValue::from_value),
            f3: s[3].as_ref().map(FromValue::from_value),
            f4: s[4].as_ref().map(FromValue::from_value),
        }
    }
}
impl ToValue for Ts5mmmmme2 {
    fn to_value(&self) -> Value {
        Value::Seq(vec![
            Some(self.f0.to_value()),
            Some(self.f1.to_value()),
            self.f2.as_ref().map(|x| x.to_value()),
            self.f3.as_ref().map(|x| x.to_value()),
            self.f4.as_ref().map(|x| x.to_value()),
        ])
    }
}
impl FromValue for Ts5mmmmme3 {
    fn from_value(v: &Value) -> Self {
        let s = match v { Value::Seq(s) => s, other => panic!("Ts5mmmmme3: expected Seq, got {other:?}") };
        assert_eq!(s.len(), 5, "Ts5mmmmme3: component count");
        let _ = s;
        Ts5mmmmme3 {
            f0: FromValue::from_value(s[0].as_ref().expect("component f0 of Ts5mmmmme3 must be present")),
            f1: FromValue::from_value(s[1].as_ref().expect("component f1 of Ts5mmmmme3 must be present")),
            f2: FromValue::from_value(s[2].as_ref().expect("component f2 of Ts5mmmmme3 must be present")),
            f3: s[3].as_ref().map(FromValue::from_value),
            f4: s[4].as_ref().map(FromValue::from_value),
        }
    }
}
impl ToValue for Ts5mmmmme3 {
    fn to_value(&self) -> Value {
        Value::Seq(vec![
            Some(self.f0.to_value()),
            Some(self.f1.to_value()),
            Some(self.f2.to_value()),
            self.f3.as_ref().map(|x| x.to_value()),
            self.f4.as_ref().map(|x| x.to_value()),
        ])
    }
}
impl FromValue for Ts5mmmmme4 {
    fn from_value(v: &Value) -> Self {
        let s = match v { Value::Seq(s) => s, other => panic!("Ts5mmmmme4: expected Seq, got {other:?}") };
        assert_eq!(s.len(), 5, "Ts5mmmmme4: component count");
        let _ = s;
        Ts5mmmmme4 {
            f0: FromValue::from_value(s[0].as_ref().expect("component f0 of Ts5mmmmme4 must be present")),
            f1: FromValue::from_value(s[1].as_ref().expect("component f1 of Ts5mmmmme4 must be present")),
            f2: FromValue::from_value(s[2].as_ref().expect("component f2 of Ts5mmmmme4 must be present")),
            f3: FromValue::from_value(s[3].as_ref().expect("component f3 of Ts5mmmmme4 must be present")),
            f4: s[4].as_ref().map(FromValue::from_value),
        }
    }
}
impl ToValue for Ts5mmmmme4 {
    fn to_value(&self) -> Value {
        Value::Seq(vec![
            Some(self.f0.to_value()),
            Some(self.f1.to_value()),
            Some(self.f2.to_value()),
            Some(self.f3.to_value()),
            self.f4.as_ref().map(|x| x.to_value()),
        ])
    }
}
impl FromValue for Ts5mmmmme5 {
    fn from_value(v: &Value) -> Self {
        let s = match v { Value::Seq(s) => s, other => panic!("Ts5mmmmme5: expected Seq, got {other:?}") };
        assert_eq!(s.len(), 5, "Ts5mmmmme5: component count");
        let _ = s;
        Ts5mmmmme5 {
            f0: FromValue::from_value(s[0].as_ref().expect("component f0 of Ts5mmmmme5 must be present")),
            f1: FromValue::from_value(s[1].as_ref().expect("component f1 of Ts5mmmmme5 must be present")),
            f2: FromValue::from_value(s[2].as_ref().expect("component f2 of Ts5mmmmme5 must be present")),
            f3: FromValue::from_value(s[3].as_ref().expect("component f3 of Ts5mmmmme5 must be present")),
            f4: FromValue::from_value(s[4].as_ref().expect("component f4 of Ts5mmmmme5 must be present")),
        }
    }
}
impl ToValue for Ts5mmmmme5 {
    fn to_value(&self) -> Value {
        Value::Seq(vec![
            Some(self.f0.to_value()),
            Some(self.f1.to_value()),
            Some(self.f2.to_value()),
            Some(self.f3.to_value()),
            Some(self.f4.to_value()),
        ])
    }
}
impl FromValue for Ts5ommmmn {
    fn from_value(v: &Value) -> Self {
        let s = match v { Value::Seq(s) => s, other => panic!("Ts5ommmmn: expected Seq, got {other:?}") };
        assert_eq!(s.len(), 5, "Ts5ommmmn: component count");
        let _ = s;
        Ts5ommmmn {
            f0: s[0].as_ref().map(FromValue::from_value),
            f1: FromValue::from_value(s[1].as_ref().expect("component f1 of Ts5ommmmn must be present")),
            f2: FromValue::from_value(s[2].as_ref().expect("component f2 of Ts5ommmmn must be present")),
            f3: FromValue::from_value(s[3].as_ref().expect("component f3 of Ts5ommmmn must be present")),
            f4: FromValue::from_value(s[4].as_ref().expect("component f4 of Ts5ommmmn must be present")),
        }
    }
}
impl ToValue for Ts5ommmmn {
    fn to_value(&self) -> Value {
        Value::Seq(vec![
            self.f0.as_ref().map(|x| x.to_value()),
            Some(self.f1.to_value()),
            Some(self.f2.to_value()),
            Some(self.f3.to_value()),
            Some(self.f4.to_value()),
        ])
    }
}
impl FromValue for Ts5ommmme0 {
    fn from_value(v: &Value) -> Self {
        let s = match v { Value::Seq(s) => s, other => panic!("Ts5ommmme0: expected Seq, got {other:?}") };
        assert_eq!(s.len(), 5, "Ts5ommmme0: component count");
        let _ = s;
        Ts5ommmme0 {
            f0: s[0].as_ref().map(FromValue::from_value),
            f1: s[1].as_ref().map(FromValue::from_value),
            f2: s[2].as_ref().map(FromValue::from_value),
            f3: s[3].as_ref().map(FromValue::from_value),
            f4: s[4].as_ref().map(FromValue::from_value),
        }
    }
}
impl ToValue for Ts5ommmme0 {
    fn to_value(&self) -> Value {
        Value::Seq(vec![
            self.f0.as_ref().map(|x| x.to_value()),
            self.f1.as_ref().map(|x| x.to_value()),
            self.f2.as_ref().map(|x| x.to_value()),
            self.f3.as_ref().map(|x| x.to_value()),
            self.f4.as_ref().map(|x| x.to_value()),
        ])
    }
}
impl FromValue for Ts5ommmme1 {
    fn from_value(v: &Value) -> Self {
        let s = match v { Value::Seq(s) => s, other => panic!("Ts5ommmme1: expected Seq, got {other:?}") };
        assert_eq!(s.len(), 5, "Ts5ommmme1: component count");
        let _ = s;
        Ts5ommmme1 {
            f0: s[0].as_ref().map(FromValue::from_value),
            f1: s[1].as_ref().map(FromValue::from_value),
            f2: s[2].as_ref().map(FromValue::from_value),
            f3: s[3].as_ref().map(FromValue::from_value),
            f4: s[4].as_ref().map(FromValue::from_value),
        }
    }
}
impl ToValue for Ts5ommmme1 {
    fn to_value(&self) -> Value {
        Value::Seq(vec![
            self.f0.as_ref().map(|x| x.to_value()),
            self.f1.as_ref().map(|x| x.to_value()),
            self.f2.as_ref().map(|x| x.to_value()),
            self.f3.as_ref().map(|x| x.to_value()),
            self.f4.as_ref().map(|x| x.to_value()),
        ])
    }
}
impl FromValue for Ts5ommmme2 {
    fn from_value(v: &Value) -> Self {
        let s = match v { Value::Seq(s) => s, other => panic!("Ts5ommmme2: expected Seq, got {other:?}") };
        assert_eq!(s.len(), 5, "Ts5ommmme2: component count");
        let _ = s;
        Ts5ommmme2 {
            f0: s[0].as_ref().map(FromValue::from_value),
            f1: FromValue::from_value(s[1].as_ref().expect("component f1 of Ts5ommmme2 must be present")),
            f2: s[2].as_ref().map(FromValue::from_value),
            f3: s[3].as_ref().map(FromValue::from_value),
            f4: s[4].as_ref().map(FromValue::from_value),
        }
    }
}
impl ToValue for Ts5ommmme2 {
    fn to_value(&self) -> Value {
        Value::Seq(vec![
            self.f0.as_ref().map(|x| x.to_value()),
            Some(self.f1.to_value()),
            self.f2.as_ref().map(|x| x.to_value()),
            self.f3.as_ref().map(|x| x.to_value()),
            self.f4.as_ref().map(|x| x.to_value()),
        ])
    }
}
impl FromValue for Ts5ommmme3 {
    fn from_value(v: &Value) -> Self {
        let s = match v { Value::Seq(s) => s, other => panic!("Ts5ommmme3: expected Seq, got {other:?}") };
        assert_eq!(s.len(), 5, "Ts5ommmme3: component count");
        let _ = s;
        Ts5ommmme3 {
            f0: s[0].as_ref().map(FromValue::from_value),
            f1: FromValue::from_value(s[1].as_ref().expect("component f1 of Ts5ommmme3 must be present")),
            f2: FromValue::from_value(s[2].as_ref().expect("component f2 of Ts5ommmme3 must be present")),
            f3: s[3].as_ref().map(FromValue::from_value),
            f4: s[4].as_ref().map(FromValue::from_value),
        }
    }
}
impl ToValue for Ts5ommmme3 {
    fn to_value(&self) -> Value {
        Value::Seq(vec![
            self.f0.as_ref().map(|x| x.to_value()),
            Some(self.f1.to_value()),
            Some(self.f2.to_value()),
            self.f3.as_ref().map(|x| x.to_value()),
            self.f4.as_ref().map(|x| x.to_value()),
        ])
    }
}
impl FromValue for Ts5ommmme4 {
    fn from_value(v: &Value) -> Self {
        let s = match v { Value::Seq(s) => s, other => panic!("Ts5ommmme4: expected Seq, got {other:?}") };
        assert_eq!(s.len(), 5, "Ts5ommmme4: component count");
        let _ = s;
        Ts5ommmme4 {
            f0: s[0].as_ref().map(FromValue::from_value),
            f1: FromValue::from_value(s[1].as_ref().expect("component f1 of Ts5ommmme4 must be present")),
            f2: FromValue::from_value(s[2].as_ref().expect("component f2 of Ts5ommmme4 must be present")),
            f3: FromValue::from_value(s[3].as_ref().expect("component f3 of Ts5ommmme4 must be present")),
            f4: s[4].as_ref().map(FromValue::from_value),
        }
    }
}
impl ToValue for Ts5ommmme4 {
    fn to_value(&self) -> Value {
        Value::Seq(vec![
            self.f0.as_ref().map(|x| x.to_value()),
            Some(self.f1.to_value()),
            Some(self.f2.to_value()),
            Some(self.f3.to_value()),
            self.f4.as_ref().map(|x| x.to_value()),
        ])
    }
}
impl FromValue for Ts5ommmme5 {
    fn from_value(v: &Value) -> Self {
        let s = match v { Value::Seq(s) => s, other => panic!("Ts5ommmme5: expected Seq, got {other:?}") };
        assert_eq!(s.len(), 5, "Ts5ommmme5: component count");
        let _ = s;
        Ts5ommmme5 {
            f0: s[0].as_ref().map(FromValue::from_value),
            f1: FromValue::from_value(s[1].as_ref().expect("component f1 of Ts5ommmme5 must be present")),
            f2: FromValue::from_value(s[2].as_ref().expect("component f2 of Ts5ommmme5 must be present")),
            f3: FromValue::from_value(s[3].as_ref().expect("component f3 of Ts5ommmme5 must be present")),
            f4: FromValue::from_value(s[4].as_ref().expect("component f4 of Ts5ommmme5 must be present")),
        }
    }
}
impl ToValue for Ts5ommmme5 {
    fn to_value(&self) -> Value {
        Value::Seq(vec![
            self.f0.as_ref().map(|x| x.to_value()),
            Some(self.f1.to_value()),
            Some(self.f2.to_value()),
            Some(self.f3.to_value()),
            Some(self.f4.to_value()),
        ])
    }
}
impl FromValue for Ts5dmmmmn {
    fn from_value(v: &Value) -> Self {
        let s = match v { Value::Seq(s) => s, other => panic!("Ts5dmmmmn: expected Seq, got {other:?}") };
        assert_eq!(s.len(), 5, "Ts5dmmmmn: component count");
        let _ = s;
        Ts5dmmmmn {
            f0: FromValue::from_value(s[0].as_ref().expect("component f0 of Ts5dmmmmn must be present")),
            f1: FromValue::from_value(s[1].as_ref().expect("component f1 of Ts5dmmmmn must be present")),
            f2: FromValue::from_value(s[2].as_ref().expect("component f2 of Ts5dmmmmn must be present")),
            f3: FromValue::from_value(s[3].as_ref().expect("component f3 of Ts5dmmmmn must be present")),
            f4: FromValue::from_value(s[4].as_ref().expect("component f4 of Ts5dmmmmn must be present")),
        }
    }
}
impl ToValue for Ts5dmmmmn {
    fn to_value(&self) -> Value {
        Value::Seq(vec![
            Some(self.f0.to_value()),
            Some(self.f1.to_value()),
            Some(self.f2.to_value()),
            Some(self.f3.to_value()),
            Some(self.f4.to_value()),
        ])
    }
}
impl FromValue for Ts5dmmmme0 {
    fn from_value(v: &Value) -> Self {
        let s = match v { Value::Seq(s) => s, other => panic!("Ts5dmmmme0: expected Seq, got {other:?}") };
        assert_eq!(s.len(), 5, "Ts5dmmmme0: component count");
        let _ = s;
        Ts5dmmmme0 {
            f0: FromValue::from_value(s[0].as_ref().expect("component f0 of Ts5dmmmme0 must be present")),
            f1: s[1].as_ref().map(FromValue::from_value),
            f2: s[2].as_ref().map(FromValue::from_value),
            f3: s[3].as_ref().map(FromValue::from_value),
            f4: s[4].as_ref().map(FromValue::from_value),
        }
    }
}
impl ToValue for Ts5dmmmme0 {
    fn to_value(&self) -> Value {
        Value::Seq(vec![
            Some(self.f0.to_value()),
            self.f1.as_ref().map(|x| x.to_value()),
            self.f2.as_ref().map(|x| x.to_value()),
            self.f3.as_ref().map(|x| x.to_value()),
            self.f4.as_ref().map(|x| x.to_value()),
        ])
    }
}
impl FromValue for Ts5dmmmme1 {
    fn from_value(v: &Value) -> Self {
        let s = match v { Value::Seq(s) => s, other => panic!("Ts5dmmmme1: expected Seq, got {other:?}") };
        assert_eq!(s.len(), 5, "Ts5dmmmme1: component count");
        let _ = s;
        Ts5dmmmme1 {
            f0: FromValue::from_value(s[0].as_ref().expect("component f0 of Ts5dmmmme1 must be present")),
            f1: s[1].as_ref().map(FromValue::from_value),
            f2: s[2].as_ref().map(FromValue::from_value),
            f3: s[3].as_ref().map(FromValue::from_value),
            f4: s[4].as_ref().map(FromValue::from_value),
        }
    }
}
impl ToValue for Ts5dmmmme1 {
    fn to_value(&self) -> Value {
        Value::Seq(vec![
            Some(self.f0.to_value()),
            self.f1.as_ref().map(|x| x.to_value()),
            self.f2.as_ref().map(|x| x.to_value()),
            self.f3.as_ref().map(|x| x.to_value()),
            self.f4.as_ref().map(|x| x.to_value()),
        ])
    }
}
impl FromValue for Ts5dmmmme2 {
    fn from_value(v: &Value) -> Self {
        let s = match v { Value::Seq(s) => s, other => panic!("Ts5dmmmme2: expected Seq, got {other:?}") };
        assert_eq!(s.len(), 5, "Ts5dmmmme2: component count");
        let _ = s;
        Ts5dmmmme2 {
            f0: FromValue::from_value(s[0].as_ref().expect("component f0 of Ts5dmmmme2 must be present")),
            f1: FromValue::from_value(s[1].as_ref().expect("component f1 of Ts5dmmmme2 must be present")),
            f2: s[2].as_ref().map(FromValue::from_value),
            f3: s[3].as_ref().map(FromValue::from_value),
            f4: s[4].as_ref().map(FromValue::from_value),
        }
    }
}
impl ToValue for Ts5dmmmme2 {
    fn to_value(&self) -> Value {
        Value::Seq(vec![
            Some(self.f0.to_value()),
            Some(self.f1.to_value()),
            self.f2.as_ref().map(|x| x.to_value()),
            self.f3.as_ref().map(|x| x.to_value()),
            self.f4.as_ref().map(|x| x.to_value()),
        ])
    }
}
impl FromValue for Ts5dmmmme3 {
    fn from_value(v: &Value) -> Self {
        let s = match v { Value::Seq(s) => s, other => panic!("Ts5dmmmme3: expected Seq, got {other:?}") };
        assert_eq!(s.len(), 5, "Ts5dmmmme3: component count");
        let _ = s;
        Ts5dmmmme3 {
            f0: FromValue::from_value(s[0].as_ref().expect("component f0 of Ts5dmmmme3 must be present")),
            f1: FromValue::from_value(s[1].as_ref().expect("component f1 of Ts5dmmmme3 must be present")),
            f2: FromValue::from_value(s[2].as_ref().expect("component f2 of Ts5dmmmme3 must be present")),
            f3: s[3].as_ref().map(FromValue::from_value),
            f4: s[4].as_ref().map(FromValue::from_value),
        }
    }
}
impl ToValue for Ts5dmmmme3 {
    fn to_value(&self) -> Value {
        Value::Seq(vec![
            Some(self.f0.to_value()),
            Some(self.f1.to_value()),
            Some(self.f2.to_value()),
            self.f3.as_ref().map(|x| x.to_value()),
            self.f4.as_ref().map(|x| x.to_value()),
        ])
    }
}
impl FromValue for Ts5dmmmme4 {
    fn from_value(v: &Value) -> Self {
        let s = match v { Value::Seq(s) => s, other => panic!("Ts5dmmmme4: expected Seq, got {other:?}") };
        assert_eq!(s.len(), 5, "Ts5dmmmme4: component count");
        let _ = s;
        Ts5dmmmme4 {
            f0: FromValue::from_value(s[0].as_ref().expect("component f0 of Ts5dmmmme4 must be present")),
            f1: FromValue::from_value(s[1].as_ref().expect("component f1 of Ts5dmmmme4 must be present")),
            f2: FromValue::from_value(s[2].as_ref().expect("component f2 of Ts5dmmmme4 must be present")),
            f3: FromValue::from_value(s[3].as_ref().expect("component f3 of Ts5dmmmme4 must be present")),
            f4: s[4].as_ref().map(FromValue::from_value),
        }
    }
}
impl ToValue for Ts5dmmmme4 {
    fn to_value(&self) -> Value {
        Value::Seq(vec![
            Some(self.f0.to_value()),
            Some(self.f1.to_value()),
            Some(self.f2.to_value()),
            Some(self.f3.to_value()),
            self.f4.as_ref().map(|x| x.to_value()),
        ])
    }
}
impl FromValue for Ts5dmmmme5 {
    fn from_value(v: &Value) -> Self {
        let s = match v { Value::Seq(s) => s, other => panic!("Ts5dmmmme5: expected Seq, got {other:?}") };
        assert_eq!(s.len(), 5, "Ts5dmmmme5: component count");
        let _ = s;
        Ts5dmmmme5 {
            f0: FromValue::from_value(s[0].as_ref().expect("component f0 of Ts5dmmmme5 must be present")),
            f1: FromValue::from_value(s[1].as_ref().expect("component f1 of Ts5dmmmme5 must be present")),
            f2: FromValue::from_value(s[2].as_ref().expect("component f2 of Ts5dmmmme5 must be present")),
            f3: FromValue::from_value(s[3].as_ref().expect("component f3 of Ts5dmmmme5 must be present")),
            f4: FromValue::from_value(s[4].as_ref().expect("component f4 of Ts5dmmmme5 must be present")),
        }
    }
}
impl ToValue for Ts5dmmmme5 {
    fn to_value(&self) -> Value {
        Value::Seq(vec![
            Some(self.f0.to_value()),
            Some(self.f1.to_value()),
            Some(self.f2.to_value()),
            Some(self.f3.to_value()),
            Some(self.f4.to_value()),
        ])
    }
}
impl FromValue for Ts5mommmn {
    fn from_value(v: &Value) -> Self {
        let s = match v { Value::Seq(s) => s, other => panic!("Ts5mommmn: expected Seq, got {other:?}") };
        assert_eq!(s.len(), 5, "Ts5mommmn: component count");
        let _ = s;
        Ts5mommmn {
            f0: FromValue::from_value(s[0].as_ref().expect("component f0 of Ts5mommmn must be present")),
            f1: s[1].as_ref().map(FromValue::from_value),
            f2: FromValue::from_value(s[2].as_ref().expect("component f2 of Ts5mommmn must be present")),
            f3: FromValue::from_value(s[3].as_ref().expect("component f3 of Ts5mommmn must be present")),
            f4: FromValue::from_value(s[4].as_ref().expect("component f4 of Ts5mommmn must be present")),
        }
    }
}
impl ToValue for Ts5mommmn {
    fn to_value(&self) -> Value {
        Value::Seq(vec![
            Some(self.f0.to_value()),
            self.f1.as_ref().map(|x| x.to_value()),
            Some(self.f2.to_value()),
            Some(self.f3.to_value()),
            Some(self.f4.to_value()),
        ])
    }
}
impl FromValue for Ts5mommme0 {
    fn from_value(v: &Value) -> Self {
        let s = match v { Value::Seq(s) => s, other => panic!("Ts5mommme0: expected Seq, got {other:?}") };
        assert_eq!(s.len(), 5, "Ts5mommme0: component count");
        let _ = s;
        Ts5mommme0 {
            f0: FromValue::from_value(s[0].as_ref().expect("component f0 of Ts5mommme0 must be present")),
            f1: s[1].as_ref().map(FromValue::from_value),
            f2: s[2].as_ref().map(FromValue::from_value),
            f3: s[3].as_ref().map(FromValue::from_value),
            f4: s[4].as_ref().map(FromValue::from_value),
        }
    }
}
impl ToValue for Ts5mommme0 {
    fn to_value(&self) -> Value {
        Value::Seq(vec![
            Some(self.f0.to_value()),
            self.f1.as_ref().map(|x| x.to_value()),
            self.f2.as_ref().map(|x| x.to_value()),
            self.f3.as_ref().map(|x| x.to_value()),
            self.f4.as_ref().map(|x| x.to_value()),
        ])
    }
}
impl FromValue for Ts5mommme1 {
    fn from_value(v: &Value) -> Self {
        let s = match v { Value::Seq(s) => s, other => panic!("Ts5mommme1: expected Seq, got {other:?}") };
        assert_eq!(s.len(), 5, "Ts5mommme1: component count");
        let _ = s;
        Ts5mommme1 {
            f0: FromValue::from_value(s[0].as_ref().expect("component f0 of Ts5mommme1 must be present")),
            f1: s[1].as_ref().map(FromValue::from_value),
            f2: s[2].as_ref().map(FromValue::from_value),
            f3: s[3].as_ref().map(FromValue::from_value),
            f4: s[4].as_ref().map(FromValue::from_value),
        }
    }
}
impl ToValue for Ts5mommme1 {
    fn to_value(&self) -> Value {
        Value::Seq(vec![
            Some(self.f0.to_value()),
            self.f1.as_ref().map(|x| x.to_value()),
            self.f2.as_ref().map(|x| x.to_value()),
            self.f3.as_ref().map(|x| x.to_value()),
            self.f4.as_ref().map(|x| x.to_value()),
        ])
    }
}
impl FromValue for Ts5mommme2 {
    fn from_value(v: &Value) -> Self {
        let s = match v { Value::Seq(s) => s, other => panic!("Ts5mommme2: expected Seq, got {other:?}") };
        assert_eq!(s.len(), 5, "Ts5mommme2: component count");
        let _ = s;
        Ts5mommme2 {
            f0: FromValue::from_value(s[0].as_ref().expect("component f0 of Ts5mommme2 must be present")),
            f1: s[1].as_ref().map(FromValue::from_value),
            f2: s[2].as_ref().map(FromValue::from_value),
            f3: s[3].as_ref().map(FromValue::from_value),
            f4: s[4].as_ref().map(FromValue::from_value),
        }
    }
}
impl ToValue for Ts5mommme2 {
    fn to_value(&self) -> Value {
        Value::Seq(vec![
            Some(self.f0.to_value()),
            self.f1.as_ref().map(|x| x.to_value()),
            self.f2.as_ref().map(|x| x.to_value()),
            self.f3.as_ref().map(|x| x.to_value()),
            self.f4.as_ref().map(|x| x.to_value()),
        ])
    }
}
impl FromValue for Ts5mommme3 {
    fn from_value(v: &Value) -> Self {
        let s = match v { Value::Seq(s) => s, other => panic!("Ts5mommme3: expected Seq, got {other:?}") };
        assert_eq!(s.len(), 5, "Ts5mommme3: component count");
        let _ = s;
        Ts5mommme3 {
            f0: FromValue::from_value(s[0].as_ref().expect("component f0 of Ts5mommme3 must be present")),
            f1: s[1].as_ref().map(FromValue::from_value),
            f2: FromValue::from_value(s[2].as_ref().expect("component f2 of Ts5mommme3 must be present")),
            f3: s[3].as_ref().map(FromValue::from_value),
            f4: s[4].as_ref().map(FromValue::from_value),
        }
    }
}
impl ToValue for Ts5mommme3 {
    fn to_value(&self) -> Value {
        Value::Seq(vec![
            Some(self.f0.to_value()),
            self.f1.as_ref().map(|x| x.to_value()),
            Some(self.f2.to_value()),
            self.f3.as_ref().map(|x| x.to_value()),
            self.f4.as_ref().map(|x| x.to_value()),
        ])
    }
}
impl FromValue for Ts5mommme4 {
    fn from_value(v: &Value) -> Self {
        let s = match v { Value::Seq(s) => s, other => panic!("Ts5mommme4: expected Seq, got {other:?}") };
        assert_eq!(s.len(), 5, "Ts5mommme4: component count");
        let _ = s;
        Ts5mommme4 {
            f0: FromValue::from_value(s[0].as_ref().expect("component f0 of Ts5mommme4 must be present")),
            f1: s[1].as_ref().map(FromValue::from_value),
            f2: FromValue::from_value(s[2].as_ref().expect("component f2 of Ts5mommme4 must be present")),
            f3: FromValue::from_value(s[3].as_ref().expect("component f3 of Ts5mommme4 must be present")),
            f4: s[4].as_ref().map(FromValue::from_value),
        }
    }
}
impl ToValue for Ts5mommme4 {
    fn to_value(&self) -> Value {
        Value::Seq(vec![
            Some(self.f0.to_value()),
            self.f1.as_ref().map(|x| x.to_value()),
            Some(self.f2.to_value()),
            Some(self.f3.to_value()),
            self.f4.as_ref().map(|x| x.to_value()),
        ])
    }
}
impl FromValue for Ts5mommme5 {
    fn from_value(v: &Value) -> Self {
        let s = match v { Value::Seq(s) => s, other => panic!("Ts5mommme5: expected Seq, got {other:?}") };
        assert_eq!(s.len(), 5, "Ts5mommme5: component count");
        let _ = s;
        Ts5mommme5 {
            f0: FromValue::from_value(s[0].as_ref().expect("component f0 of Ts5mommme5 must be present")),
            f1: s[1].as_ref().map(FromValue::from_value),
            f2: FromValue::from_value(s[2].as_ref().expect("component f2 of Ts5mommme5 must be present")),
            f3: FromValue::from_value(s[3].as_ref().expect("component f3 of Ts5mommme5 must be present")),
            f4: FromValue::from_value(s[4].as_ref().expect("component f4 of Ts5mommme5 must be present")),
        }
    }
}
impl ToValue for Ts5mommme5 {
    fn to_value(&self) -> Value {
        Value::Seq(vec![
            Some(self.f0.to_value()),
            self.f1.as_ref().map(|x| x.to_value()),
            Some(self.f2.to_value()),
            Some(self.f3.to_value()),
            Some(self.f4.to_value()),
        ])
    }
}
impl FromValue for Ts5oommmn {
    fn from_value(v: &Value) -> Self {
        let s = match v { Value::Seq(s) => s, other => panic!("Ts5oommmn: expected Seq, got {other:?}") };
        assert_eq!(s.len(), 5, "Ts5oommmn: component count");
        let _ = s;
        Ts5oommmn {
            f0: s[0].as_ref().map(FromValue::from_value),
            f1: s[1].as_ref().map(FromValue::from_value),
            f2: FromValue::from_value(s[2].as_ref().expect("component f2 of Ts5oommmn must be present")),
            f3: FromValue::from_value(s[3].as_ref().expect("component f3 of Ts5oommmn must be present")),
            f4: FromValue::from_value(s[4].as_ref().expect("component f4 of Ts5oommmn must be present")),
        }
    }
}
impl ToValue for Ts5oommmn {
    fn to_value(&self) -> Value {
        Value::Seq(vec![
            self.f0.as_ref().map(|x| x.to_value()),
            self.f1.as_ref().map(|x| x.to_value()),
            Some(self.f2.to_value()),
            Some(self.f3.to_value()),
            Some(self.f4.to_value()),
        ])
    }
}
impl FromValue for Ts5oommme0 {
    fn from_value(v: &Value) -> Self {
        let s = match v { Value::Seq(s) => s, other => panic!("Ts5oommme0: expected Seq, got {other:?}") };
        assert_eq!(s.len(), 5, "Ts5oommme0: component count");
        let _ = s;
        Ts5oommme0 {
            f0: s[0].as_ref().map(FromValue::from_value),
            f1: s[1].as_ref().map(FromValue::from_value),
            f2: s[2].as_ref().map(FromValue::from_value),
            f3: s[3].as_ref().map(FromValue::from_value),
            f4: s[4].as_ref().map(FromValue::from_value),
        }
    }
}
impl ToValue for Ts5oommme0 {
    fn to_value(&self) -> Value {
        Value::Seq(vec![
            self.f0.as_ref().map(|x| x.to_value()),
            self.f1.as_ref().map(|x| x.to_value()),
            self.f2.as_ref().map(|x| x.to_value()),
            self.f3.as_ref().map(|x| x.to_value()),
            self.f4.as_ref().map(|x| x.to_value()),
        ])
    }
}
impl FromValue for Ts5oommme1 {
    fn from_value(v: &Value) -> Self {
        let s = match v { Value::Seq(s) => s, other => panic!("Ts5oommme1: expected Seq, got {other:?}") };
        assert_eq!(s.len(), 5, "Ts5oommme1: component count");
        let _ = s;
        Ts5oommme1 {
            f0: s[0].as_ref().map(FromValue::from_value),
            f1: s[1].as_ref().map(FromValue::from_value),
            f2: s[2].as_ref().map(FromValue::from_value),
            f3: s[3].as_ref().map(FromValue::from_value),
            f4: s[4].as_ref().map(FromValue::from_value),
        }
    }
}
impl ToValue for Ts5oommme1 {
    fn to_value(&self) -> Value {
        Value::Seq(vec![
            self.f0.as_ref().map(|x| x.to_value()),
            self.f1.as_ref().map(|x| x.to_value()),
            self.f2.as_ref().map(|x| x.to_value()),
            self.f3.as_ref().map(|x| x.to_value()),
            self.f4.as_ref().map(|x| x.to_value()),
        ])
    }
}
impl FromValue for Ts5oommme2 {
    fn from_value(v: &Value) -> Self {
        let s = match v { Value::Seq(s) => s, other => panic!("Ts5oommme2: expected Seq, got {other:?}") };
        assert_eq!(s.len(), 5, "Ts5oommme2: component count");
        let _ = s;
        Ts5oommme2 {
            f0: s[0].as_ref().map(FromValue::from_value),
            f1: s[1].as_ref().map(FromValue::from_value),
            f2: s[2].as_ref().map(FromValue::from_value),
            f3: s[3].as_ref().map(FromValue::from_value),
            f4: s[4].as_ref().map(FromValue::from_value),
        }
    }
}
impl ToValue for Ts5oommme2 {
    fn to_value(&self) -> Value {
        Value::Seq(vec![
            self.f0.as_ref().map(|x| x.to_value()),
            self.f1.as_ref().map(|x| x.to_value()),
            self.f2.as_ref().map(|x| x.to_value()),
            self.f3.as_ref().map(|x| x.to_value()),
            self.f4.as_ref().map(|x| x.to_value()),
        ])
    }
}
impl FromValue for Ts5oommme3 {
    fn from_value(v: &Value) -> Self {
        let s = match v { Value::Seq(s) => s, other => panic!("Ts5oommme3: expected Seq, got {other:?}") };
        assert_eq!(s.len(), 5, "Ts5oommme3: component count");
        let _ = s;
        Ts5oommme3 {
            f0: s[0].as_ref().map(FromValue::from_value),
            f1: s[1].as_ref().map(FromValue::from_value),
            f2: FromValue::from_value(s[2].as_ref().expect("component f2 of Ts5oommme3 must be present")),
            f3: s[3].as_ref().map(FromValue::from_value),
            f4: s[4].as_ref().map(FromValue::from_value),
        }
    }
}
impl ToValue for Ts5oommme3 {
    fn to_value(&self) -> Value {
        Value::Seq(vec![
            self.f0.as_ref().map(|x| x.to_value()),
            self.f1.as_ref().map(|x| x.to_value()),
            Some(self.f2.to_value()),
            self.f3.as_ref().map(|x| x.to_value()),
            self.f4.as_ref().map(|x| x.to_value()),
        ])
    }
}
impl FromValue for Ts5oommme4 {
    fn from_value(v: &Value) -> Self {
        let s = match v { Value::Seq(s) => s, other => panic!("Ts5oommme4: expected Seq, got {other:?}") };
        assert_eq!(s.len(), 5, "Ts5oommme4: component count");
        let _ = s;
        Ts5oommme4 {
            f0: s[0].as_ref().map(FromValue::from_value),
            f1: s[1].as_ref().map(FromValue::from_value),
            f2: FromValue::from_value(s[2].as_ref().expect("component f2 of Ts5oommme4 must be present")),
            f3: FromValue::from_value(s[3].as_ref().expect("component f3 of Ts5oommme4 must be present")),
            f4: s[4].as_ref().map(FromValue::from_value),
        }
    }
}
impl ToValue for Ts5oommme4 {
    fn to_value(&self) -> Value {
        Value::Seq(vec![
            self.f0.as_ref().map(|x| x.to_value()),
            self.f1.as_ref().map(|x| x.to_value()),
            Some(self.f2.to_value()),
            Some(self.f3.to_value()),
            self.f4.as_ref().map(|x| x.to_value()),
        ])
    }
}
impl FromValue for Ts5oommme5 {
    fn from_value(v: &Value) -> Self {
        let s = match v { Value::Seq(s) => s, other => panic!("Ts5oommme5: expected Seq, got {other:?}") };
        assert_eq!(s.len(), 5, "Ts5oommme5: component count");
        let _ = s;
        Ts5oommme5 {
            f0: s[0].as_ref().map(FromValue::from_value),
            f1: s[1].as_ref().map(FromValue::from_value),
            f2: FromValue::from_value(s[2].as_ref().expect("component f2 of Ts5oommme5 must be present")),
            f3: FromValue::from_value(s[3].as_ref().expect("component f3 of Ts5oommme5 must be present")),
            f4: FromValue::from_value(s[4].as_ref().expect("component f4 of Ts5oommme5 must be present")),
        }
    }
}
impl ToValue for Ts5oommme5 {
    fn to_value(&self) -> Value {
        Value::Seq(vec![
            self.f0.as_ref().map(|x| x.to_value()),
            self.f1.as_ref().map(|x| x.to_value()),
            Some(self.f2.to_value()),
            Some(self.f3.to_value()),
            Some(self.f4.to_value()),
        ])
    }
}
impl FromValue for Ts5dommmn {
    fn from_value(v: &Value) -> Self {
        let s = match v { Value::Seq(s) => s, other => panic!("Ts5dommmn: expected Seq, got {other:?}") };
        assert_eq!(s.len(), 5, "Ts5dommmn: component count");
        let _ = s;
        Ts5dommmn {
            f0: FromValue::from_value(s[0].as_ref().expect("component f0 of Ts5dommmn must be present")),
            f1: s[1].as_ref().map(FromValue::from_value),
            f2: FromValue::from_value(s[2].as_ref().expect("component f2 of Ts5dommmn must be present")),
            f3: FromValue::from_value(s[3].as_ref().expect("component f3 of Ts5dommmn must be present")),
            f4: FromValue::from_value(s[4].as_ref().expect("component f4 of Ts5dommmn must be present")),
        }
    }
}
impl ToValue for Ts5dommmn {
    fn to_value(&self) -> Value {
        Value::Seq(vec![
            Some(self.f0.to_value()),
            self.f1.as_ref().map(|x| x.to_value()),
            Some(self.f2.to_value()),
            Some(self.f3.to_value()),
            Some(self.f4.to_value()),
        ])
    }
}
impl FromValue for Ts5dommme0 {
    fn from_value(v: &Value) -> Self {
        let s = match v { Value::Seq(s) => s, other => panic!("Ts5dommme0: expected Seq, got {other:?}") };
        assert_eq!(s.len(), 5, "Ts5dommme0: component count");
        let _ = s;
        Ts5dommme0 {
            f0: FromValue::from_value(s[0].as_ref().expect("component f0 of Ts5dommme0 must be present")),
            f1: s[1].as_ref().map(FromValue::from_value),
            f2: s[2].as_ref().map(FromValue::from_value),
            f3: s[3].as_ref().map(FromValue::from_value),
            f4: s[4].as_ref().map(FromValue::from_value),
        }
    }
}
impl ToValue for Ts5dommme0 {
    fn to_value(&self) -> Value {
        Value::Seq(vec![
            Some(self.f0.to_value()),
            self.f1.as_ref().map(|x| x.to_value()),
            self.f2.as_ref().map(|x| x.to_value()),
            self.f3.as_ref().map(|x| x.to_value()),
            self.f4.as_ref().map(|x| x.to_value()),
        ])
    }
}
impl FromValue for Ts5dommme1 {
    fn from_value(v: &Value) -> Self {
        let s = match v { Value::Seq(s) => s, other => panic!("Ts5dommme1: expected Seq, got {other:?}") };
        assert_eq!(s.len(), 5, "Ts5dommme1: component count");
        let _ = s;
        Ts5dommme1 {
            f0: FromValue::from_value(s[0].as_ref().expect("component f0 of Ts5dommme1 must be present")),
            f1: s[1].as_ref().map(FromValue::from_value),
            f2: s[2].as_ref().map(FromValue::from_value),
            f3: s[3].as_ref().map(FromValue::from_value),
            f4: s[4].as_ref().map(FromValue::from_value),
        }
    }
}
impl ToValue for Ts5dommme1 {
    fn to_value(&self) -> Value {
        Value::Seq(vec![
            Some(self.f0.to_value()),
            self.f1.as_ref().map(|x| x.to_value()),
            self.f2.as_ref().map(|x| x.to_value()),
            self.f3.as_ref().map(|x| x.to_value()),
            self.f4.as_ref().map(|x| x.to_value()),
        ])
    }
}
impl FromValue for Ts5dommme2 {
    fn from_value(v: &Value) -> Self {
        let s = match v { Value::Seq(s) => s, other => panic!("Ts5dommme2: expected Seq, got {other:?}") };
        assert_eq!(s.len(), 5, "Ts5dommme2: component count");
        let _ = s;
        Ts5dommme2 {
            f0: FromValue::from_value(s[0].as_ref().expect("component f0 of Ts5dommme2 must be present")),
            f1: s[1].as_ref().map(FromValue::from_value),
            f2: s[2].as_ref().map(FromValue::from_value),
            f3: s[3].as_ref().map(FromValue::from_value),
            f4: s[4].as_ref().map(FromValue::from_value),
        }
    }
}
impl ToValue for Ts5dommme2 {
    fn to_value(&self) -> Value {
        Value::Seq(vec![
            Some(self.f0.to_value()),
            self.f1.as_ref().map(|x| x.to_value()),
            self.f2.as_ref().map(|x| x.to_value()),
            self.f3.as_ref().map(|x| x.to_value()),
            self.f4.as_ref().map(|x| x.to_value()),
        ])
    }
}
impl FromValue for Ts5dommme3 {
    fn from_value(v: &Value) -> Self {
        let s = match v { Value::Seq(s) => s, other => panic!("Ts5dommme3: expected Seq, got {other:?}") };
        assert_eq!(s.len(), 5, "Ts5dommme3: component count");
        let _ = s;
        Ts5dommme3 {
            f0: FromValue::from_value(s[0].as_ref().expect("component f0 of Ts5dommme3 must be present")),
            f1: s[1].as_ref().map(FromValue::from_value),
            f2: FromValue::from_value(s[2].as_ref().expect("component f2 of Ts5dommme3 must be present")),
            f3: s[3].as_ref().map(FromValue::from_value),
            f4: s[4].as_ref().map(FromValue::from_value),
        }
    }
}
impl ToValue for Ts5dommme3 {
    fn to_value(&self) -> Value {
        Value::Seq(vec![
            Some(self.f0.to_value()),
            self.f1.as_ref().map(|x| x.to_value()),
            Some(self.f2.to_value()),
            self.f3.as_ref().map(|x| x.to_value()),
            self.f4.as_ref().map(|x| x.to_value()),
        ])
    }
}
impl FromValue for Ts5dommme4 {
    fn from_value(v: &Value) -> Self {
        let s = match v { Value::Seq(s) => s, other => panic!("Ts5dommme4: expected Seq, got {other:?}") };
        assert_eq!(s.len(), 5, "Ts5dommme4: component count");
        let _ = s;
        Ts5dommme4 {
            f0: FromValue::from_value(s[0].as_ref().expect("component f0 of Ts5dommme4 must be present")),
            f1: s[1].as_ref().map(FromValue::from_value),
            f2: FromValue::from_value(s[2].as_ref().expect("component f2 of Ts5dommme4 must be present")),
            f3: FromValue::from_value(s[3].as_ref().expect("component f3 of Ts5dommme4 must be present")),
            f4: s[4].as_ref().map(FromValue::from_value),
        }
    }
}
impl ToValue for Ts5dommme4 {
    fn to_value(&self) -> Value {
        Value::Seq(vec![
            Some(self.f0.to_value()),
            self.f1.as_ref().map(|x| x.to_value()),
            Some(self.f2.to_value()),
            Some(self.f3.to_value()),
            self.f4.as_ref().map(|x| x.to_value()),
        ])
    }
}
impl FromValue for Ts5dommme5 {
    fn from_value(v: &Value) -> Self {
        let s = match v { Value::Seq(s) => s, other => panic!("Ts5dommme5: expected Seq, got {other:?}") };
        assert_eq!(s.len(), 5, "Ts5dommme5: component count");
        let _ = s;
        Ts5dommme5 {
            f0: FromValue::from_value(s[0].as_ref().expect("component f0 of Ts5dommme5 must be present")),
            f1: s[1].as_ref().map(FromValue::from_value),
            f2: FromValue::from_value(s[2].as_ref().expect("component f2 of Ts5dommme5 must be present")),
            f3: FromValue::from_value(s[3].as_ref().expect("component f3 of Ts5dommme5 must be present")),
            f4: FromValue::from_value(s[4].as_ref().expect("component f4 of Ts5dommme5 must be present")),
        }
    }
}
impl ToValue for Ts5dommme5 {
    fn to_value(&self) -> Value {
        Value::Seq(vec![
            Some(self.f0.to_value()),
            self.f1.as_ref().map(|x| x.to_value()),
            Some(self.f2.to_value()),
            Some(self.f3.to_value()),
            Some(self.f4.to_value()),
        ])
    }
}
impl FromValue for Ts5mdmmmn {
    fn from_value(v: &Value) -> Self {
        let s = match v { Value::Seq(s) => s, other => panic!("Ts5mdmmmn: expected Seq, got {other:?}") };
        assert_eq!(s.len(), 5, "Ts5mdmmmn: component count");
        let _ = s;
        Ts5mdmmmn {
            f0: FromValue::from_value(s[0].as_ref().expect("component f0 of Ts5mdmmmn must be present")),
            f1: FromValue::from_value(s[1].as_ref().expect("component f1 of Ts5mdmmmn must be present")),
            f2: FromValue::from_value(s[2].as_ref().expect("component f2 of Ts5mdmmmn must be present")),
            f3: FromValue::from_value(s[3].as_ref().expect("component f3 of Ts5mdmmmn must be present")),
            f4: FromValue::from_value(s[4].as_ref().expect("component f4 of Ts5mdmmmn must be present")),
        }
    }
}
impl ToValue for Ts5mdmmmn {
    fn to_value(&self) -> Value {
        Value::Seq(vec![
            Some(self.f0.to_value()),
            Some(self.f1.to_value()),
            Some(self.f2.to_value()),
            Some(self.f3.to_value()),
            Some(self.f4.to_value()),
        ])
    }
}
impl FromValue for Ts5mdmmme0 {
    fn from_value(v: &Value) -> Self {
        let s = match v { Value::Seq(s) => s, other => panic!("Ts5mdmmme0: expected Seq, got {other:?}") };
        assert_eq!(s.len(), 5, "Ts5mdmmme0: component count");
        let _ = s;
        Ts5mdmmme0 {
            f0: FromValue::from_value(s[0].as_ref().expect("component f0 of Ts5mdmmme0 must be present")),
            f1: FromValue::from_value(s[1].as_ref().expect("component f1 of Ts5mdmmme0 must be present")),
            f2: s[2].as_ref().map(FromValue::from_value),
            f3: s[3].as_ref().map(FromValue::from_value),
            f4: s[4].as_ref().map(FromValue::from_value),
        }
    }
}
impl ToValue for Ts5mdmmme0 {
    fn to_value(&self) -> Value {
        Value::Seq(vec![
            Some(self.f0.to_value()),
            Some(self.f1.to_value()),
            self.f2.as_ref().map(|x| x.to_value()),
            self.f3.as_ref().map(|x| x.to_value()),
            self.f4.as_ref().map(|x| x.to_value()),
        ])
    }
}
impl FromValue for Ts5mdmmme1 {
    fn from_value(v: &Value) -> Self {
        let s = match v { Value::Seq(s) => s, other => panic!("Ts5mdmmme1: expected Seq, got {other:?}") };
        assert_eq!(s.len(), 5, "Ts5mdmmme1: component count");
        let _ = s;
        Ts5mdmmme1 {
            f0: FromValue::from_value(s[0].as_ref().expect("component f0 of Ts5mdmmme1 must be present")),
            f1: FromValue::from_value(s[1].as_ref().expect("component f1 of Ts5mdmmme1 must be present")),
            f2: s[2].as_ref().map(FromValue::from_value),
            f3: s[3].as_ref().map(FromValue::from_value),
            f4: s[4].as_ref().map(FromValue::from_value),
        }
    }
}
impl ToValue for Ts5mdmmme1 {
    fn to_value(&self) -> Value {
        Value::Seq(vec![
            Some(self.f0.to_value()),
            Some(self.f1.to_value()),
            self.f2.as_ref().map(|x| x.to_value()),
            self.f3.as_ref().map(|x| x.to_value()),
            self.f4.as_ref().map(|x| x.to_value()),
        ])
    }
}
impl FromValue for Ts5mdmmme2 {
    fn from_value(v: &Value) -> Self {
        let s = match v { Value::Seq(s) => s, other => panic!("Ts5mdmmme2: expected Seq, got {other:?}") };
        assert_eq!(s.len(), 5, "Ts5mdmmme2: component count");
        let _ = s;
        Ts5mdmmme2 {
            f0: FromValue::from_value(s[0].as_ref().expect("component f0 of Ts5mdmmme2 must be present")),
            f1: FromValue::from_value(s[1].as_ref().expect("component f1 of Ts5mdmmme2 must be present")),
            f2: s[2].as_ref().map(FromValue::from_value),
            f3: s[3].as_ref().map(FromValue::from_value),
            f4: s[4].as_ref().map(FromValue::from_value),
        }
    }
}
impl ToValue for Ts5mdmmme2 {
    fn to_value(&self) -> Value {
        Value::Seq(vec![
            Some(self.f0.to_value()),
            Some(self.f1.to_value()),
            self.f2.as_ref().map(|x| x.to_value()),
            self.f3.as_ref().map(|x| x.to_value()),
            self.f4.as_ref().map(|x| x.to_value()),
        ])
    }
}
impl FromValue for Ts5mdmmme3 {
    fn from_value(v: &Value) -> Self {
        let s = match v { Value::Seq(s) => s, other => panic!("Ts5mdmmme3: expected Seq, got {other:?}") };
        assert_eq!(s.len(), 5, "Ts5mdmmme3: component count");
        let _ = s;
        Ts5mdmmme3 {
            f0: FromValue::from_value(s[0].as_ref().expect("component f0 of Ts5mdmmme3 must be present")),
            f1: FromValue::from_value(s[1].as_ref().expect("component f1 of Ts5mdmmme3 must be present")),
            f2: FromValue::from_value(s[2].as_ref().expect("component f2 of Ts5mdmmme3 must be present")),
            f3: s[3].as_ref().map(FromValue::from_value),
            f4: s[4].as_ref().map(FromValue::from_value),
        }
    }
}
impl ToValue for Ts5mdmmme3 {
    fn to_value(&self) -> Value {
        Value::Seq(vec![
            Some(self.f0.to_value()),
            Some(self.f1.to_value()),
            Some(self.f2.to_value()),
            self.f3.as_ref().map(|x| x.to_value()),
            self.f4.as_ref().map(|x| x.to_value()),
        ])
    }
}
impl FromValue for Ts5mdmmme4 {
    fn from_value(v: &Value) -> Self {
        let s = match v { Value::Seq(s) => s, other => panic!("Ts5mdmmme4: expected Seq, got {other:?}") };
        assert_eq!(s.len(), 5, "Ts5mdmmme4: component count");
        let _ = s;
        Ts5mdmmme4 {
            f0: FromValue::from_value(s[0].as_ref().expect("component f0 of Ts5mdmmme4 must be present")),
            f1: FromValue::from_value(s[1].as_ref().expect("component f1 of Ts5mdmmme4 must be present")),
            f2: FromValue::from_value(s[2].as_ref().expect("component f2 of Ts5mdmmme4 must be present")),
            f3: FromValue::from_value(s[3].as_ref().expect("component f3 of Ts5mdmmme4 must be present")),
            f4: s[4].as_ref().map(FromValue::from_value),
        }
    }
}
impl ToValue for Ts5mdmmme4 {
    fn to_value(&self) -> Value {
        Value::Seq(vec![
            Some(self.f0.to_value()),
            Some(self.f1.to_value()),
            Some(self.f2.to_value()),
            Some(self.f3.to_value()),
            self.f4.as_ref().map(|x| x.to_value()),
        ])
    }
}
impl FromValue for Ts5mdmmme5 {
    fn from_value(v: &Value) -> Self {
        let s = match v { Value::Seq(s) => s, other => panic!("Ts5mdmmme5: expected Seq, got {other:?}") };
        assert_eq!(s.len(), 5, "Ts5mdmmme5: component count");
        let _ = s;
        Ts5mdmmme5 {
            f0: FromValue::from_value(s[0].as_ref().expect("component f0 of Ts5mdmmme5 must be present")),
            f1: FromValue::from_value(s[1].as_ref().expect("component f1 of Ts5mdmmme5 must be present")),
            f2: FromValue::from_value(s[2].as_ref().expect("component f2 of Ts5mdmmme5 must be present")),
            f3: FromValue::from_value(s[3].as_ref().expect("component f3 of Ts5mdmmme5 must be present")),
            f4: FromValue::from_value(s[4].as_ref().expect("component f4 of Ts5mdmmme5 must be present")),
        }
    }
}
impl ToValue for Ts5mdmmme5 {
    fn to_value(&self) -> Value {
        Value::Seq(vec![
            Some(self.f0.to_value()),
            Some(self.f1.to_value()),
            Some(self.f2.to_value()),
            Some(self.f3.to_value()),
            Some(self.f4.to_value()),
        ])
    }
}
impl FromValue for Ts5odmmmn {
    fn from_value(v: &Value) -> Self {
        let s = match v { Value::Seq(s) => s, other => panic!("Ts5odmmmn: expected Seq, got {other:?}") };
        assert_eq!(s.len(), 5, "Ts5odmmmn: component count");
        let _ = s;
        Ts5odmmmn {
            f0: s[0].as_ref().map(FromValue::from_value),
            f1: FromValue::from_value(s[1].as_ref().expect("component f1 of Ts5odmmmn must be present")),
            f2: FromValue::from_value(s[2].as_ref().expect("component f2 of Ts5odmmmn must be present")),
            f3: FromValue::from_value(s[3].as_ref().expect("component f3 of Ts5odmmmn must be present")),
            f4: FromValue::from_value(s[4].as_ref().expect("component f4 of Ts5odmmmn must be present")),
        }
    }
}
impl ToValue for Ts5odmmmn {
    fn to_value(&self) -> Value {
        Value::Seq(vec![
            self.f0.as_ref().map(|x| x.to_value()),
            Some(self.f1.to_value()),
            Some(self.f2.to_value()),
            Some(self.f3.to_value()),
            Some(self.f4.to_value()),
        ])
    }
}
impl FromValue for Ts5odmmme0 {
    fn from_value(v: &Value) -> Self {
        let s = match v { Value::Seq(s) => s, other => panic!("Ts5odmmme0: expected Seq, got {other:?}") };
        assert_eq!(s.len(), 5, "Ts5odmmme0: component count");
        let _ = s;
        Ts5odmmme0 {
            f0: s[0].as_ref().map(FromValue::from_value),
            f1: FromValue::from_value(s[1].as_ref().expect("component f1 of Ts5odmmme0 must be present")),
            f2: s[2].as_ref().map(FromValue::from_value),
            f3: s[3].as_ref().map(FromValue::from_value),
            f4: s[4].as_ref().map(FromValue::from_value),
        }
    }
}
impl ToValue for Ts5odmmme0 {
    fn to_value(&self) -> Value {
        Value::Seq(vec![
            self.f0.as_ref().map(|x| x.to_value()),
            Some(self.f1.to_value()),
            self.f2.as_ref().map(|x| x.to_value()),
            self.f3.as_ref().map(|x| x.to_value()),
            self.f4.as_ref().map(|x| x.to_value()),
        ])
    }
}
impl FromValue for Ts5odmmme1 {
    fn from_value(v: &Value) -> Self {
        let s = match v { Value::Seq(s) => s, other => panic!("Ts5odmmme1: expected Seq, got {other:?}") };
        assert_eq!(s.len(), 5, "Ts5odmmme1: component count");
        let _ = s;
        Ts5odmmme1 {
            f0: s[0].as_ref().map(FromValue::from_value),
            f1: FromValue::from_value(s[1].as_ref().expect("component f1 of Ts5odmmme1 must be present")),
            f2: s[2].as_ref().map(FromValue::from_value),
            f3: s[3].as_ref().map(FromValue::from_value),
            f4: s[4].as_ref().map(FromValue::from_value),
        }
    }
}
impl ToValue for Ts5odmmme1 {
    fn to_value(&self) -> Value {
        Value::Seq(vec![
            self.f0.as_ref().map(|x| x.to_value()),
            Some(self.f1.to_value()),
            self.f2.as_ref().map(|x| x.to_value()),
            self.f3.as_ref().map(|x| x.to_value()),
            self.f4.as_ref().map(|x| x.to_value()),
        ])
    }
}
impl FromValue for Ts5odmmme2 {
    fn from_value(v: &Value) -> Self {
        let s = match v { Value::Seq(s) => s, other => panic!("Ts5odmmme2: expected Seq, got {other:?}") };
        assert_eq!(s.len(), 5, "Ts5odmmme2: component count");
        let _ = s;
        Ts5odmmme2 {
            f0: s[0].as_ref().map(FromValue::from_value),
            f1: FromValue::from_value(s[1].as_ref().expect("component f1 of Ts5odmmme2 must be present")),
            f2: s[2].as_ref().map(FromValue::from_value),
            f3: s[3].as_ref().map(FromValue::from_value),
            f4: s[4].as_ref().map(FromValue::from_value),
        }
    }
}
impl ToValue for Ts5odmmme2 {
    fn to_value(&self) -> Value {
        Value::Seq(vec![
            self.f0.as_ref().map(|x| x.to_value()),
            Some(self.f1.to_value()),
            self.f2.as_ref().map(|x| x.to_value()),
            self.f3.as_ref().map(|x| x.to_value()),
            self.f4.as_ref().map(|x| x.to_value()),
        ])
    }
}
impl FromValue for Ts5odmmme3 {
    fn from_value(v: &Value) -> Self {
        let s = match v { Value::Seq(s) => s, other => panic!("Ts5odmmme3: expected Seq, got {other:?}") };
        assert_eq!(s.len(), 5, "Ts5odmmme3: component count");
        let _ = s;
        Ts5odmmme3 {
            f0: s[0].as_ref().map(FromValue::from_value),
            f1: FromValue::from_value(s[1].as_ref().expect("component f1 of Ts5odmmme3 must be present")),
            f2: FromValue::from_value(s[2].as_ref().expect("component f2 of Ts5odmmme3 must be present")),
            f3: s[3].as_ref().map(FromValue::from_value),
            f4: s[4].as_ref().map(FromValue::from_value),
        }
    }
}
impl ToValue for Ts5odmmme3 {
    fn to_value(&self) -> Value {
        Value::Seq(vec![
            self.f0.as_ref().map(|x| x.to_value()),
            Some(self.f1.to_value()),
            Some(self.f2.to_value()),
            self.f3.as_ref().map(|x| x.to_value()),
            self.f4.as_ref().map(|x| x.to_value()),
        ])
    }
}
impl FromValue for Ts5odmmme4 {
    fn from_value(v: &Value) -> Self {
        let s = match v { Value::Seq(s) => s, other => panic!("Ts5odmmme4: expected Seq, got {other:?}") };
        assert_eq!(s.len(), 5, "Ts5odmmme4: component count");
        let _ = s;
        Ts5odmmme4 {
            f0: s[0].as_ref().map(FromValue::from_value),
            f1: FromValue::from_value(s[1].as_ref().expect("component f1 of Ts5odmmme4 must be present")),
            f2: FromValue::from_value(s[2].as_ref().expect("component f2 of Ts5odmmme4 must be present")),
            f3: FromValue::from_value(s[3].as_ref().expect("component f3 of Ts5odmmme4 must be present")),
            f4: s[4].as_ref().map(FromValue::from_value),
        }
    }
}
impl ToValue for Ts5odmmme4 {
    fn to_value(&self) -> Value {
        Value::Seq(vec![
            self.f0.as_ref().map(|x| x.to_value()),
            Some(self.f1.to_value()),
            Some(self.f2.to_value()),
            Some(self.f3.to_value()),
            self.f4.as_ref().map(|x| x.to_value()),
        ])
    }
}
impl FromValue for Ts5odmmme5 {
    fn from_value(v: &Value) -> Self {
        let s = match v { Value::Seq(s) => s, other => panic!("Ts5odmmme5: expected Seq, got {other:?}") };
        assert_eq!(s.len(), 5, "Ts5odmmme5: component count");
        let _ = s;
        Ts5odmmme5 {
            f0: s[0].as_ref().map(FromValue::from_value),
            f1: FromValue::from_value(s[1].as_ref().expect("component f1 of Ts5odmmme5 must be present")),
            f2: FromValue::from_value(s[2].as_ref().expect("component f2 of Ts5odmmme5 must be present")),
            f3: FromValue::from_value(s[3].as_ref().expect("component f3 of Ts5odmmme5 must be present")),
            f4: FromValue::from_value(s[4].as_ref().expect("component f4 of Ts5odmmme5 must be present")),
        }
    }
}
impl ToValue for Ts5odmmme5 {
    fn to_value(&self) -> Value {
        Value::Seq(vec![
            self.f0.as_ref().map(|x| x.to_value()),
            Some(self.f1.to_value()),
            Some(self.f2.to_value()),
            Some(self.f3.to_value()),
            Some(self.f4.to_value()),
        ])
    }
}
impl FromValue for Ts5ddmmmn {
    fn from_value(v: &Value) -> Self {
        let s = match v { Value::Seq(s) => s, other => panic!("Ts5ddmmmn: expected Seq, got {other:?}") };
        assert_eq!(s.len(), 5, "Ts5ddmmmn: component count");
        let _ = s;
        Ts5ddmmmn {
            f0: FromValue::from_value(s[0].as_ref().expect("component f0 of Ts5ddmmmn must be present")),
            f1: FromValue::from_value(s[1].as_ref().expect("component f1 of Ts5ddmmmn must be present")),
            f2: FromValue::from_value(s[2].as_ref().expect("component f2 of Ts5ddmmmn must be present")),
            f3: FromValue::from_value(s[3].as_ref().expect("component f3 of Ts5ddmmmn must be present")),
            f4: FromValue::from_value(s[4].as_ref().expect("component f4 of Ts5ddmmmn must be present")),
        }
    }
}
impl ToValue for Ts5ddmmmn {
    fn to_value(&self) -> Value {
        Value::Seq(vec![
            Some(self.f0.to_value()),
            Some(self.f1.to_value()),
            Some(self.f2.to_value()),
            Some(self.f3.to_value()),
            Some(self.f4.to_value()),
        ])
    }
}
impl FromValue for Ts5ddmmme0 {
    fn from_value(v: &Value) -> Self {
        let s = match v { Value::Seq(s) => s, other => panic!("Ts5ddmmme0: expected Seq, got {other:?}") };
        assert_eq!(s.len(), 5, "Ts5ddmmme0: component count");
        let _ = s;
        Ts5ddmmme0 {
            f0: FromValue::from_value(s[0].as_ref().expect("component f0 of Ts5ddmmme0 must be present")),
            f1: FromValue::from_value(s[1].as_ref().expect("component f1 of Ts5ddmmme0 must be present")),
            f2: s[2].as_ref().map(FromValue::from_value),
            f3: s[3].as_ref().map(FromValue::from_value),
            f4: s[4].as_ref().map(FromValue::from_value),
        }
    }
}
impl ToValue for Ts5ddmmme0 {
    fn to_value(&self) -> Value {
        Value::Seq(vec![
            Some(self.f0.to_value()),
            Some(self.f1.to_value()),
            self.f2.as_ref().map(|x| x.to_value()),
            self.f3.as_ref().map(|x| x.to_value()),
            self.f4.as_ref().map(|x| x.to_value()),
        ])
    }
}
impl FromValue for Ts5ddmmme1 {
    fn from_value(v: &Value) -> Self {
        let s = match v { Value::Seq(s) => s, other => panic!("Ts5ddmmme1: expected Seq, got {other:?}") };
        assert_eq!(s.len(), 5, "Ts5ddmmme1: component count");
        let _ = s;
        Ts5ddmmme1 {
            f0: FromValue::from_value(s[0].as_ref().expect("component f0 of Ts5ddmmme1 must be present")),
            f1: FromValue::from_value(s[1].as_ref().expect("component f1 of Ts5ddmmme1 must be present")),
            f2: s[2].as_ref().map(FromValue::from_value),
            f3: s[3].as_ref().map(FromValue::from_value),
            f4: s[4].as_ref().map(FromValue::from_value),
        }
    }
}
impl ToValue for Ts5ddmmme1 {
    fn to_value(&self) -> Value {
        Value::Seq(vec![
            Some(self.f0.to_value()),
            Some(self.f1.to_value()),
            self.f2.as_ref().map(|x| x.to_value()),
            self.f3.as_ref().map(|x| x.to_value()),
            self.f4.as_ref().map(|x| x.to_value()),
        ])
    }
}
impl FromValue for Ts5ddmmme2 {
    fn from_value(v: &Value) -> Self {
        let s = match v { Value::Seq(s) => s, other => panic!("Ts5ddmmme2: expected Seq, got {other:?}") };
        assert_eq!(s.len(), 5, "Ts5ddmmme2: component count");
        let _ = s;
        Ts5ddmmme2 {
            f0: FromValue::from_value(s[0].as_ref().expect("component f0 of Ts5ddmmme2 must be present")),
            f1: FromValue::from_value(s[1].as_ref().expect("component f1 of Ts5ddmmme2 must be present")),
            f2: s[2].as_ref().map(FromValue::from_value),
            f3: s[3].as_ref().map(FromValue::from_value),
            f4: s[4].as_ref().map(FromValue::from_value),
        }
    }
}
impl ToValue for Ts5ddmmme2 {
    fn to_value(&self) -> Value {
        Value::Seq(vec![
            Some(self.f0.to_value()),
            Some(self.f1.to_value()),
            self.f2.as_ref().map(|x| x.to_value()),
            self.f3.as_ref().map(|x| x.to_value()),
            self.f4.as_ref().map(|x| x.to_value()),
        ])
    }
}
impl FromValue for Ts5ddmmme3 {
    fn from_value(v: &Value) -> Self {
        let s = match v { Value::Seq(s) => s, other => panic!("Ts5ddmmme3: expected Seq, got {other:?}") };
        assert_eq!(s.len(), 5, "Ts5ddmmme3: component count");
        let _ = s;
        Ts5ddmmme3 {
            f0: FromValue::from_value(s[0].as_ref().expect("component f0 of Ts5ddmmme3 must be present")),
            f1: FromValue::from_value(s[1].as_ref().expect("component f1 of Ts5ddmmme3 must be present")),
            f2: FromValue::from_value(s[2].as_ref().expect("component f2 of Ts5ddmmme3 must be present")),
            f3: s[3].as_ref().map(FromValue::from_value),
            f4: s[4].as_ref().map(FromValue::from_value),
        }
    }
}
impl ToValue for Ts5ddmmme3 {
    fn to_value(&self) -> Value {
        Value::Seq(vec![
            Some(self.f0.to_value()),
            Some(self.f1.to_value()),
            Some(self.f2.to_value()),
            self.f3.as_ref().map(|x| x.to_value()),
            self.f4.as_ref().map(|x| x.to_value()),
        ])
    }
}
impl FromValue for Ts5ddmmme4 {
    fn from_value(v: &Value) -> Self {
        let s = match v { Value::Seq(s) => s, other => panic!("Ts5ddmmme4: expected Seq, got {other:?}") };
        assert_eq!(s.len(), 5, "Ts5ddmmme4: component count");
        let _ = s;
        Ts5ddmmme4 {
            f0: FromValue::from_value(s[0].as_ref().expect("component f0 of Ts5ddmmme4 must be present")),
            f1: FromValue::from_value(s[1].as_ref().expect("component f1 of Ts5ddmmme4 must be present")),
            f2: FromValue::from_value(s[2].as_ref().expect("component f2 of Ts5ddmmme4 must be present")),
            f3: FromValue::from_value(s[3].as_ref().expect("component f3 of Ts5ddmmme4 must be present")),
            f4: s[4].as_ref().map(FromValue::from_value),
        }
    }
}
impl ToValue for Ts5ddmmme4 {
    fn to_value(&self) -> Value {
        Value::Seq(vec![
            Some(self.f0.to_value()),
            Some(self.f1.to_value()),
            Some(self.f2.to_value()),
            Some(self.f3.to_value()),
            self.f4.as_ref().map(|x| x.to_value()),
        ])
    }
}
impl FromValue for Ts5ddmmme5 {
    fn from_value(v: &Value) -> Self {
        let s = match v { Value::Seq(s) => s, other => panic!("Ts5ddmmme5: expected Seq, got {other:?}") };
        assert_eq!(s.len(), 5, "Ts5ddmmme5: component count");
        let _ = s;
        Ts5ddmmme5 {
            f0: FromValue::from_value(s[0].as_ref().expect("component f0 of Ts5ddmmme5 must be present")),
            f1: FromValue::from_value(s[1].as_ref().expect("component f1 of Ts5ddmmme5 must be present")),
            f2: FromValue::from_value(s[2].as_ref().expect("component f2 of Ts5ddmmme5 must be present")),
            f3: FromValue::from_value(s[3].as_ref().expect("component f3 of Ts5ddmmme5 must be present")),
            f4: FromValue::from_value(s[4].as_ref().expect("component f4 of Ts5ddmmme5 must be present")),
        }
    }
}
impl ToValue for Ts5ddmmme5 {
    fn to_value(&self) -> Value {
        Value::Seq(vec![
            Some(self.f0.to_value()),
            Some(self.f1.to_value()),
            Some(self.f2.to_value()),
            Some(self.f3.to_value()),
            Some(self.f4.to_value()),
        ])
    }
}
impl FromValue for Ts5mmommn {
    fn from_value(v: &Value) -> Self {
        let s = match v { Value::Seq(s) => s, other => panic!("Ts5mmommn: expected Seq, got {other:?}") };
        assert_eq!(s.len(), 5, "Ts5mmommn: component count");
        let _ = s;
        Ts5mmommn {
            f0: FromValue::from_value(s[0].as_ref().expect("component f0 of Ts5mmommn must be present")),
            f1: FromValue::from_value(s[1].as_ref().expect("component f1 of Ts5mmommn must be present")),
            f2: s[2].as_ref().map(FromValue::from_value),
            f3: FromValue::from_value(s[3].as_ref().expect("component f3 of Ts5mmommn must be present")),
            f4: FromValue::from_value(s[4].as_ref().expect("component f4 of Ts5mmommn must be present")),
        }
    }
}
impl ToValue for Ts5mmommn {
    fn to_value(&self) -> Value {
        Value::Seq(vec![
            Some(self.f0.to_value()),
            Some(self.f1.to_value()),
            self.f2.as_ref().map(|x| x.to_value()),
            Some(self.f3.to_value()),
            Some(self.f4.to_value()),
        ])
    }
}
impl FromValue for Ts5mmomme0 {
    fn from_value(v: &Value) -> Self {
        let s = match v { Value::Seq(s) => s, other => panic!("Ts5mmomme0: expected Seq, got {other:?}") };
        assert_eq!(s.len(), 5, "Ts5mmomme0: component count");
        let _ = s;
        Ts5mmomme0 {
            f0: FromValue::from_value(s[0].as_ref().expect("component f0 of Ts5mmomme0 must be present")),
            f1: s[1].as_ref().map(FromValue::from_value),
            f2: s[2].as_ref().map(FromValue::from_value),
            f3: s[3].as_ref().map(FromValue::from_value),
            f4: s[4].as_ref().map(FromValue::from_value),
        }
    }
}
impl ToValue for Ts5mmomme0 {
    fn to_value(&self) -> Value {
        Value::Seq(vec![
            Some(self.f0.to_value()),
            self.f1.as_ref().map(|x| x.to_value()),
            self.f2.as_ref().map(|x| x.to_value()),
            self.f3.as_ref().map(|x| x.to_value()),
            self.f4.as_ref().map(|x| x.to_value()),
        ])
    }
}
impl FromValue for Ts5mmomme1 {
    fn from_value(v: &Value) -> Self {
        let s = match v { Value::Seq(s) => s, other => panic!("Ts5mmomme1: expected Seq, got {other:?}") };
        assert_eq!(s.len(), 5, "Ts5mmomme1: component count");
        let _ = s;
        Ts5mmomme1 {
            f0: FromValue::from_value(s[0].as_ref().expect("component f0 of Ts5mmomme1 must be present")),
            f1: s[1].as_ref().map(FromValue::from_value),
            f2: s[2].as_ref().map(FromValue::from_value),
            f3: s[3].as_ref().map(FromValue::from_value),
            f4: s[4].as_ref().map(FromValue::from_value),
        }
    }
}
impl ToValue for Ts5mmomme1 {
    fn to_value(&self) -> Value {
        Value::Seq(vec![
            Some(self.f0.to_value()),
            self.f1.as_ref().map(|x| x.to_value()),
            self.f2.as_ref().map(|x| x.to_value()),
            self.f3.as_ref().map(|x| x.to_value()),
            self.f4.as_ref().map(|x| x.to_value()),
        ])
    }
}
impl FromValue for Ts5mmomme2 {
    fn from_value(v: &Value) -> Self {
        let s = match v { Value::Seq(s) => s, other => panic!("Ts5mmomme2: expected Seq, got {other:?}") };
        assert_eq!(s.len(), 5, "Ts5mmomme2: component count");
        let _ = s;
        Ts5mmomme2 {
            f0: FromValue::from_value(s[0].as_ref().expect("component f0 of Ts5mmomme2 must be present")),
            f1: FromValue::from_value(s[1].as_ref().expect("component f1 of Ts5mmomme2 must be present")),
            f2: s[2].as_ref().map(FromValue::from_value),
            f3: s[3].as_ref().map(FromValue::from_value),
            f4: s[4].as_ref().map(FromValue::from_value),
        }
    }
}
impl ToValue for Ts5mmomme2 {
    fn to_value(&self) -> Value {
        Value::Seq(vec![
            Some(self.f0.to_value()),
            Some(self.f1.to_value()),
            self.f2.as_ref().map(|x| x.to_value()),
            self.f3.as_ref().map(|x| x.to_value()),
            self.f4.as_ref().map(|x| x.to_value()),
        ])
    }
}
impl FromValue for Ts5mmomme3 {
    fn from_value(v: &Value) -> Self {
        let s = match v { Value::Seq(s) => s, other => panic!("Ts5mmomme3: expected Seq, got {other:?}") };
        assert_eq!(s.len(), 5, "Ts5mmomme3: component count");
        let _ = s;
        Ts5mmomme3 {
            f0: FromValue::from_value(s[0].as_ref().expect("component f0 of Ts5mmomme3 must be present")),
            f1: FromValue::from_value(s[1].as_ref().expect("component f1 of Ts5mmomme3 must be present")),
            f2: s[2].as_ref().map(FromValue::from_value),
            f3: s[3].as_ref().map(FromValue::from_value),
            f4: s[4].as_ref().map(FromValue::from_value),
        }
    }
}
impl ToValue for Ts5mmomme3 {
    fn to_value(&self) -> Value {
        Value::Seq(vec![
            Some(self.f0.to_value()),
            Some(self.f1.to_value()),
            self.f2.as_ref().map(|x| x.to_value()),
            self.f3.as_ref().map(|x| x.to_value()),
            self.f4.as_ref().map(|x| x.to_value()),
        ])
    }
}
impl FromValue for Ts5mmomme4 {
    fn from_value(v: &Value) -> Self {
        let s = match v { Value::Seq(s) => s, other => panic!("Ts5mmomme4: expected Seq, got {other:?}") };
        assert_eq!(s.len(), 5, "Ts5mmomme4: component count");
        let _ = s;
        Ts5mmomme4 {
            f0: FromValue::from_value(s[0].as_ref().expect("component f0 of Ts5mmomme4 must be present")),
            f1: FromValue::from_value(s[1].as_ref().expect("component f1 of Ts5mmomme4 must be present")),
            f2: s[2].as_ref().map(FromValue::from_value),
            f3: FromValue::from_value(s[3].as_ref().expect("component f3 of Ts5mmomme4 must be present")),
            f4: s[4].as_ref().map(FromValue::from_value),
        }
    }
}
impl ToValue for Ts5mmomme4 {
    fn to_value(&self) -> Value {
        Value::Seq(vec![
            Some(self.f0.to_value()),
            Some(self.f1.to_value()),
            self.f2.as_ref().map(|x| x.to_value()),
            Some(self.f3.to_value()),
            self.f4.as_ref().map(|x| x.to_value()),
        ])
    }
}
impl FromValue for Ts5mmomme5 {
    fn from_value(v: &Value) -> Self {
        let s = match v { Value::Seq(s) => s, other => panic!("Ts5mmomme5: expected Seq, got {other:?}") };
        assert_eq!(s.len(), 5, "Ts5mmomme5: component count");
        let _ = s;
        Ts5mmomme5 {
            f0: FromValue::from_value(s[0].as_ref().expect("component f0 of Ts5mmomme5 must be present")),
            f1: FromValue::from_value(s[1].as_ref().expect("component f1 of Ts5mmomme5 must be present")),
            f2: s[2].as_ref().map(FromValue::from_value),
            f3: FromValue::from_value(s[3].as_ref().expect("component f3 of Ts5mmomme5 must be present")),
            f4: FromValue::from_value(s[4].as_ref().expect("component f4 of Ts5mmomme5 must be present")),
        }
    }
}
impl ToValue for Ts5mmomme5 {
    fn to_value(&self) -> Value {
        Value::Seq(vec![
            Some(self.f0.to_value()),
            Some(self.f1.to_value()),
            self.f2.as_ref().map(|x| x.to_value()),
            Some(self.f3.to_value()),
            Some(self.f4.to_value()),
        ])
    }
}
impl FromValue for Ts5omommn {
    fn from_value(v: &Value) -> Self {
        let s = match v { Value::Seq(s) => s, other => panic!("Ts5omommn: expected Seq, got {other:?}") };
        assert_eq!(s.len(), 5, "Ts5omommn: component count");
        let _ = s;
        Ts5omommn {
            f0: s[0].as_ref().map(FromValue::from_value),
            f1: FromValue::from_value(s[1].as_ref().expect("component f1 of Ts5omommn must be present")),
            f2: s[2].as_ref().map(FromValue::from_value),
            f3: FromValue::from_value(s[3].as_ref().expect("component f3 of Ts5omommn must be present")),
            f4: FromValue::from_value(s[4].as_ref().expect("component f4 of Ts5omommn must be present")),
        }
    }
}
impl ToValue for Ts5omommn {
    fn to_value(&self) -> Value {
        Value::Seq(vec![
            self.f0.as_ref().map(|x| x.to_value()),
            Some(self.f1.to_value()),
            self.f2.as_ref().map(|x| x.to_value()),
            Some(self.f3.to_value()),
            Some(self.f4.to_value()),
        ])
    }
}
impl FromValue for Ts5omomme0 {
    fn from_value(v: &Value) -> Self {
        let s = match v { Value::Seq(s) => s, other => panic!("Ts5omomme0: expected Seq, got {other:?}") };
        assert_eq!(s.len(), 5, "Ts5omomme0: component count");
        let _ = s;
        Ts5omomme0 {
            f0: s[0].as_ref().map(FromValue::from_value),
            f1: s[1].as_ref().map(FromValue::from_value),
            f2: s[2].as_ref().map(FromValue::from_value),
            f3: s[3].as_ref().map(FromValue::from_value),
            f4: s[4].as_ref().map(FromValue::from_value),
        }
    }
}
impl ToValue for Ts5omomme0 {
    fn to_value(&self) -> Value {
        Value::Seq(vec![
            self.f0.as_ref().map(|x| x.to_value()),
            self.f1.as_ref().map(|x| x.to_value()),
            self.f2.as_ref().map(|x| x.to_value()),
            self.f3.as_ref().map(|x| x.to_value()),
            self.f4.as_ref().map(|x| x.to_value()),
        ])
    }
}
impl FromValue for Ts5omomme1 {
    fn from_value(v: &Value) -> Self {
        let s = match v { Value::Seq(s) => s, other => panic!("Ts5omomme1: expected Seq, got {other:?}") };
        assert_eq!(s.len(), 5, "Ts5omomme1: component count");
        let _ = s;
        Ts5omomme1 {
            f0: s[0].as_ref().map(FromValue::from_value),
            f1: s[1].as_ref().map(FromValue::from_value),
            f2: s[2].as_ref().map(FromValue::from_value),
            f3: s[3].as_ref().map(FromValue::from_value),
            f4: s[4].as_ref().map(FromValue::from_value),
        }
    }
}
impl ToValue for Ts5omomme1 {
    fn to_value(&self) -> Value {
        Value::Seq(vec![
            self.f0.as_ref().map(|x| x.to_value()),
            self.f1.as_ref().map(|x| x.to_value()),
            self.f2.as_ref().map(|x| x.to_value()),
            self.f3.as_ref().map(|x| x.to_value()),
            self.f4.as_ref().map(|x| x.to_value()),
        ])
    }
}
impl FromValue for Ts5omomme2 {
    fn from_value(v: &Value) -> Self {
        let s = match v { Value::Seq(s) => s, other => panic!("Ts5omomme2: expected Seq, got {other:?}") };
        assert_eq!(s.len(), 5, "Ts5omomme2: component count");
        let _ = s;
        Ts5omomme2 {
            f0: s[0].as_ref().map(FromValue::from_value),
            f1: FromValue::from_value(s[1].as_ref().expect("component f1 of Ts5omomme2 must be present")),
            f2: s[2].as_ref().map(FromValue::from_value),
            f3: s[3].as_ref().map(FromValue::from_value),
            f4: s[4].as_ref().map(FromValue::from_value),
        }
    }
}
impl ToValue for Ts5omomme2 {
    fn to_value(&self) -> Value {
        Value::Seq(vec![
            self.f0.as_ref().map(|x| x.to_value()),
            Some(self.f1.to_value()),
            self.f2.as_ref().map(|x| x.to_value()),
            self.f3.as_ref().map(|x| x.to_value()),
            self.f4.as_ref().map(|x| x.to_value()),
        ])
    }
}
impl FromValue for Ts5omomme3 {
    fn from_value(v: &Value) -> Self {
        let s = match v { Value::Seq(s) => s, other => panic!("Ts5omomme3: expected Seq, got {other:?}") };
        assert_eq!(s.len(), 5, "Ts5omomme3: component count");
        let _ = s;
        Ts5omomme3 {
            f0: s[0].as_ref().map(FromValue::from_value),
            f1: FromValue::from_value(s[1].as_ref().expect("component f1 of Ts5omomme3 must be present")),
            f2: s[2].as_ref().map(FromValue::from_value),
            f3: s[3].as_ref().map(FromValue::from_value),
            f4: s[4].as_ref().map(FromValue::from_value),
        }
    }
}
impl ToValue for Ts5omomme3 {
    fn to_value(&self) -> Value {
        Value::Seq(vec![
            self.f0.as_ref().map(|x| x.to_value()),
            Some(self.f1.to_value()),
            self.f2.as_ref().map(|x| x.to_value()),
            self.f3.as_ref().map(|x| x.to_value()),
            self.f4.as_ref().map(|x| x.to_value()),
        ])
    }
}
impl FromValue for Ts5omomme4 {
    fn from_value(v: &Value) -> Self {
        let s = match v { Value::Seq(s) => s, other => panic!("Ts5omomme4: expected Seq, got {other:?}") };
        assert_eq!(s.len(), 5, "Ts5omomme4: component count");
        let _ = s;
        Ts5omomme4 {
            f0: s[0].as_ref().map(FromValue::from_value),
            f1: FromValue::from_value(s[1].as_ref().expect("component f1 of Ts5omomme4 must be present")),
            f2: s[2].as_ref().map(FromValue::from_value),
            f3: FromValue::from_value(s[3].as_ref().expect("component f3 of Ts5omomme4 must be present")),
            f4: s[4].as_ref().map(FromValue::from_value),
        }
    }
}
impl ToValue for Ts5omomme4 {
    fn to_value(&self) -> Value {
        Value::Seq(vec![
            self.f0.as_ref().map(|x| x.to_value()),
            Some(self.f1.to_value()),
            self.f2.as_ref().map(|x| x.to_value()),
            Some(self.f3.to_value()),
            self.f4.as_ref().map(|x| x.to_value()),
        ])
    }
}
impl FromValue for Ts5omomme5 {
    fn from_value(v: &Value) -> Self {
        let s = match v { Value::Seq(s) => s, other => panic!("Ts5omomme5: expected Seq, got {other:?}") };
        assert_eq!(s.len(), 5, "Ts5omomme5: component count");
        let _ = s;
        Ts5omomme5 {
            f0: s[0].as_ref().map(FromValue::from_value),
            f1: FromValue::from_value(s[1].as_ref().expect("component f1 of Ts5omomme5 must be present")),
            f2: s[2].as_ref().map(FromValue::from_value),
            f3: FromValue::from_value(s[3].as_ref().expect("component f3 of Ts5omomme5 must be present")),
            f4: FromValue::from_value(s[4].as_ref().expect("component f4 of Ts5omomme5 must be present")),
        }
    }
}
impl ToValue for Ts5omomme5 {
    fn to_value(&self) -> Value {
        Value::Seq(vec![
            self.f0.as_ref().map(|x| x.to_value()),
            Some(self.f1.to_value()),
            self.f2.as_ref().map(|x| x.to_value()),
            Some(self.f3.to_value()),
            Some(self.f4.to_value()),
        ])
    }
}
impl FromValue for Ts5dmommn {
    fn from_value(v: &Value) -> Self {
        let s = match v { Value::Seq(s) => s, other => panic!("Ts5dmommn: expected Seq, got {other:?}") };
        assert_eq!(s.len(), 5, "Ts5dmommn: component count");
        let _ = s;
        Ts5dmommn {
            f0: FromValue::from_value(s[0].as_ref().expect("component f0 of Ts5dmommn must be present")),
            f1: FromValue::from_value(s[1].as_ref().expect("component f1 of Ts5dmommn must be present")),
            f2: s[2].as_ref().map(FromValue::from_value),
            f3: FromValue::from_value(s[3].as_ref().expect("component f3 of Ts5dmommn must be present")),
            f4: FromValue::from_value(s[4].as_ref().expect("component f4 of Ts5dmommn must be present")),
        }
    }
}
impl ToValue for Ts5dmommn {
    fn to_value(&self) -> Value {
        Value::Seq(vec![
            Some(self.f0.to_value()),
            Some(self.f1.to_value()),
            self.f2.as_ref().map(|x| x.to_value()),
            Some(self.f3.to_value()),
            Some(self.f4.to_value()),
        ])
    }
}
impl FromValue for Ts5dmomme0 {
    fn from_value(v: &Value) -> Self {
        let s = match v { Value::Seq(s) => s, other => panic!("Ts5dmomme0: expected Seq, got {other:?}") };
        assert_eq!(s.len(), 5, "Ts5dmomme0: component count");
        let _ = s;
        Ts5dmomme0 {
            f0: FromValue::from_value(s[0].as_ref().expect("component f0 of Ts5dmomme0 must be present")),
            f1: s[1].as_ref().map(FromValue::from_value),
            f2: s[2].as_ref().map(FromValue::from_value),
            f3: s[3].as_ref().map(FromValue::from_value),
            f4: s[4].as_ref().map(FromValue::from_value),
        }
    }
}
impl ToValue for Ts5dmomme0 {
    fn to_value(&self) -> Value {
        Value::Seq(vec![
            Some(self.f0.to_value()),
            self.f1.as_ref().map(|x| x.to_value()),
            self.f2.as_ref().map(|x| x.to_value()),
            self.f3.as_ref().map(|x| x.to_value()),
            self.f4.as_ref().map(|x| x.to_value()),
        ])
    }
}
impl FromValue for Ts5dmomme1 {
    fn from_value(v: &Value) -> Self {
        let s = match v { Value::Seq(s) => s, other => panic!("Ts5dmomme1: expected Seq, got {other:?}") };
        assert_eq!(s.len(), 5, "Ts5dmomme1: component count");
        let _ = s;
        Ts5dmomme1 {
            f0: FromValue::from_value(s[0].as_ref().expect("component f0 of Ts5dmomme1 must be present")),
            f1: s[1].as_ref().map(FromValue::from_value),
            f2: s[2].as_ref().map(FromValue::from_value),
            f3: s[3].as_ref().map(FromValue::from_value),
            f4: s[4].as_ref().map(FromValue::from_value),
        }
    }
}
impl ToValue for Ts5dmomme1 {
    fn to_value(&self) -> Value {
        Value::Seq(vec![
            Some(self.f0.to_value()),
            self.f1.as_ref().map(|x| x.to_value()),
            self.f2.as_ref().map(|x| x.to_value()),
            self.f3.as_ref().map(|x| x.to_value()),
            self.f4.as_ref().map(|x| x.to_value()),
        ])
    }
}
impl FromValue for Ts5dmomme2 {
    fn from_value(v: &Value) -> Self {
        let s = match v { Value::Seq(s) => s, other => panic!("Ts5dmomme2: expected Seq, got {other:?}") };
        assert_eq!(s.len(), 5, "Ts5dmomme2: component count");
        let _ = s;
        Ts5dmomme2 {
            f0: FromValue::from_value(s[0].as_ref().expect("component f0 of Ts5dmomme2 must be present")),
            f1: FromValue::from_value(s[1].as_ref().expect("component f1 of Ts5dmomme2 must be present")),
            f2: s[2].as_ref().map(FromValue::from_value),
            f3: s[3].as_ref().map(FromValue::from_value),
            f4: s[4].as_ref().map(FromValue::from_value),
        }
    }
}
impl ToValue for Ts5dmomme2 {
    fn to_value(&self) -> Value {
        Value::Seq(vec![
            Some(self.f0.to_value()),
            Some(self.f1.to_value()),
            self.f2.as_ref().map(|x| x.to_value()),
            self.f3.as_ref().map(|x| x.to_value()),
            self.f4.as_ref().map(|x| x.to_value()),
        ])
    }
}
impl FromValue for Ts5dmomme3 {
    fn from_value(v: &Value) -> Self {
        let s = match v { Value::Seq(s) => s, other => panic!("Ts5dmomme3: expected Seq, got {other:?}") };
        assert_eq!(s.len(), 5, "Ts5dmomme3: component count");
        let _ = s;
        Ts5dmomme3 {
            f0: FromValue::from_value(s[0].as_ref().expect("component f0 of Ts5dmomme3 must be present")),
            f1: FromValue::from_value(s[1].as_ref().expect("component f1 of Ts5dmomme3 must be present")),
            f2: s[2].as_ref().map(FromValue::from_value),
            f3: s[3].as_ref().map(FromValue::from_value),
            f4: s[4].as_ref().map(FromValue::from_value),
        }
    }
}
impl ToValue for Ts5dmomme3 {
    fn to_value(&self) -> Value {
        Value::Seq(vec![
            Some(self.f0.to_value()),
            Some(self.f1.to_value()),
            self.f2.as_ref().map(|x| x.to_value()),
            self.f3.as_ref().map(|x| x.to_value()),
            self.f4.as_ref().map(|x| x.to_value()),
        ])
    }
}
impl FromValue for Ts5dmomme4 {
    fn from_value(v: &Value) -> Self {
        let s = match v { Value::Seq(s) => s, other => panic!("Ts5dmomme4: expected Seq, got {other:?}") };
        assert_eq!(s.len(), 5, "Ts5dmomme4: component count");
        let _ = s;
        Ts5dmomme4 {
            f0: FromValue::from_value(s[0].as_ref().expect("component f0 of Ts5dmomme4 must be present")),
            f1: FromValue::from_value(s[1].as_ref().expect("component f1 of Ts5dmomme4 must be present")),
            f2: s[2].as_ref().map(FromValue::from_value),
            f3: FromValue::from_value(s[3].as_ref().expect("component f3 of Ts5dmomme4 must be present")),
            f4: s[4].as_ref().map(FromValue::from_value),
        }
    }
}
impl ToValue for Ts5dmomme4 {
    fn to_value(&self) -> Value {
        Value::Seq(vec![
            Some(self.f0.to_value()),
            Some(self.f1.to_value()),
            self.f2.as_ref().map(|x| x.to_value()),
            Some(self.f3.to_value()),
            self.f4.as_ref().map(|x| x.to_value()),
        ])
    }
}
impl FromValue for Ts5dmomme5 {
    fn from_value(v: &Value) -> Self {
        let s = match v { Value::Seq(s) => s, other => panic!("Ts5dmomme5: expected Seq, got {other:?}") };
        assert_eq!(s.len(), 5, "Ts5dmomme5: component count");
        let _ = s;
        Ts5dmomme5 {
            f0: FromValue::from_value(s[0].as_ref().expect("component f0 of Ts5dmomme5 must be present")),
            f1: FromValue::from_value(s[1].as_ref().expect("component f1 of Ts5dmomme5 must be present")),
            f2: s[2].as_ref().map(FromValue::from_value),
            f3: FromValue::from_value(s[3].as_ref().expect("component f3 of Ts5dmomme5 must be present")),
            f4: FromValue::from_value(s[4].as_ref().expect("component f4 of Ts5dmomme5 must be present")),
        }
    }
}
impl ToValue for Ts5dmomme5 {
    fn to_value(&self) -> Value {
        Value::Seq(vec![
            Some(self.f0.to_value()),
            Some(self.f1.to_value()),
            self.f2.as_ref().map(|x| x.to_value()),
            Some(self.f3.to_value()),
            Some(self.f4.to_value()),
        ])
    }
}
impl FromValue for Ts5moommn {
    fn from_value(v: &Value) -> Self {
        let s = match v { Value::Seq(s) => s, other => panic!("Ts5moommn: expected Seq, got {other:?}") };
        assert_eq!(s.len(), 5, "Ts5moommn: component count");
        let _ = s;
        Ts5moommn {
            f0: FromValue::from_value(s[0].as_ref().expect("component f0 of Ts5moommn must be present")),
            f1: s[1].as_ref().map(FromValue::from_value),
            f2: s[2].as_ref().map(FromValue::from_value),
            f3: FromValue::from_value(s[3].as_ref().expect("component f3 of Ts5moommn must be present")),
            f4: FromValue::from_value(s[4].as_ref().expect("component f4 of Ts5moommn must be present")),
        }
    }
}
impl ToValue for Ts5moommn {
    fn to_value(&self) -> Value {
        Value::Seq(vec![
            Some(self.f0.to_value()),
            self.f1.as_ref().map(|x| x.to_value()),
            self.f2.as_ref().map(|x| x.to_value()),
            Some(self.f3.to_value()),
            Some(self.f4.to_value()),
        ])
    }
}
impl FromValue for Ts5moomme0 {
    fn from_value(v: &Value) -> Self {
        let s = match v { Value::Seq(s) => s, other => panic!("Ts5moomme0: expected Seq, got {other:?}") };
        assert_eq!(s.len(), 5, "Ts5moomme0: component count");
        let _ = s;
        Ts5moomme0 {
            f0: FromValue::from_value(s[0].as_ref().expect("component f0 of Ts5moomme0 must be present")),
            f1: s[1].as_ref().map(FromValue::from_value),
            f2: s[2].as_ref().map(FromValue::from_value),
            f3: s[3].as_ref().map(FromValue::from_value),
            f4: s[4].as_ref().map(FromValue::from_value),
        }
    }
}
impl ToValue for Ts5moomme0 {
    fn to_value(&self) -> Value {
        Value::Seq(vec![
            Some(self.f0.to_value()),
            self.f1.as_ref().map(|x| x.to_value()),
            self.f2.as_ref().map(|x| x.to_value()),
            self.f3.as_ref().map(|x| x.to_value()),
            self.f4.as_ref().map(|x| x.to_value()),
        ])
    }
}
impl FromValue for Ts5moomme1 {
    fn from_value(v: &Value) -> Self {
        let s = match v { Value::Seq(s) => s, other => panic!("Ts5moomme1: expected Seq, got {other:?}") };
        assert_eq!(s.len(), 5, "Ts5moomme1: component count");
        let _ = s;
        Ts5moomme1 {
            f0: FromValue::from_value(s[0].as_ref().expect("component f0 of Ts5moomme1 must be present")),
            f1: s[1].as_ref().map(FromValue::from_value),
            f2: s[2].as_ref().map(FromValue::from_value),
            f3: s[3].as_ref().map(FromValue::from_value),
            f4: s[4].as_ref().map(FromValue::from_value),
        }
    }
}
impl ToValue for Ts5moomme1 {
    fn to_value(&self) -> Value {
        Value::Seq(vec![
            Some(self.f0.to_value()),
            self.f1.as_ref().map(|x| x.to_value()),
            self.f2.as_ref().map(|x| x.to_value()),
            self.f3.as_ref().map(|x| x.to_value()),
            self.f4.as_ref().map(|x| x.to_value()),
        ])
    }
}
impl FromValue for Ts5moomme2 {
    fn from_value(v: &Value) -> Self {
        let s = match v { Value::Seq(s) => s, other => panic!("Ts5moomme2: expected Seq, got {other:?}") };
        assert_eq!(s.len(), 5, "Ts5moomme2: component count");
        let _ = s;
        Ts5moomme2 {
            f0: FromValue::from_value(s[0].as_ref().expect("component f0 of Ts5moomme2 must be present")),
            f1: s[1].as_ref().map(FromValue::from_value),
            f2: s[2].as_ref().map(FromValue::from_value),
            f3: s[3].as_ref().map(FromValue::from_value),
            f4: s[4].as_ref().map(FromValue::from_value),
        }
    }
}
impl ToValue for Ts5moomme2 {
    fn to_value(&self) -> Value {
        Value::Seq(vec![
            Some(self.f0.to_value()),
            self.f1.as_ref().map(|x| x.to_value()),
            self.f2.as_ref().map(|x| x.to_value()),
            self.f3.as_ref().map(|x| x.to_value()),
            self.f4.as_ref().map(|x| x.to_value()),
        ])
    }
}
impl FromValue for Ts5moomme3 {
    fn from_value(v: &Value) -> Self {
        let s = match v { Value::Seq(s) => s, other => panic!("Ts5moomme3: expected Seq, got {other:?}") };
        assert_eq!(s.len(), 5, "Ts5moomme3: component count");
        let _ = s;
        Ts5moomme3 {
            f0: FromValue::from_value(s[0].as_ref().expect("component f0 of Ts5moomme3 must be present")),
            f1: s[1].as_ref().map(FromValue::from_value),
            f2: s[2].as_ref().map(FromValue::from_value),
            f3: s[3].as_ref().map(FromValue::from_value),
            f4: s[4].as_ref().map(FromValue::from_value),
        }
    }
}
impl ToValue for Ts5moomme3 {
    fn to_value(&self) -> Value {
        Value::Seq(vec![
            Some(self.f0.to_value()),
            self.f1.as_ref().map(|x| x.to_value()),
            self.f2.as_ref().map(|x| x.to_value()),
            self.f3.as_ref().map(|x| x.to_value()),
            self.f4.as_ref().map(|x| x.to_value()),
        ])
    }
}
impl FromValue for Ts5moomme4 {
    fn from_value(v: &Value) -> Self {
        let s = match v { Value::Seq(s) => s, other => panic!("Ts5moomme4: expected Seq, got {other:?}") };
        assert_eq!(s.len(), 5, "Ts5moomme4: component count");
        let _ = s;
        Ts5moomme4 {
            f0: FromValue::from_value(s[0].as_ref().expect("component f0 of Ts5moomme4 must be present")),
            f1: s[1].as_ref().map(FromValue::from_value),
            f2: s[2].as_ref().map(FromValue::from_value),
            f3: FromValue::from_value(s[3].as_ref().expect("component f3 of Ts5moomme4 must be present")),
            f4: s[4].as_ref().map(FromValue::from_value),
        }
    }
}
impl ToValue for Ts5moomme4 {
    fn to_value(&self) -> Value {
        Value::Seq(vec![
            Some(self.f0.to_value()),
            self.f1.as_ref().map(|x| x.to_value()),
            self.f2.as_ref().map(|x| x.to_value()),
            Some(self.f3.to_value()),
            self.f4.as_ref().map(|x| x.to_value()),
        ])
    }
}
impl FromValue for Ts5moomme5 {
    fn from_value(v: &Value) -> Self {
        let s = match v { Value::Seq(s) => s, other => panic!("Ts5moomme5: expected Seq, got {other:?}") };
        assert_eq!(s.len(), 5, "Ts5moomme5: component count");
        let _ = s;
        Ts5moomme5 {
            f0: FromValue::from_value(s[0].as_ref().expect("component f0 of Ts5moomme5 must be present")),
            f1: s[1].as_ref().map(FromValue::from_value),
            f2: s[2].as_ref().map(FromValue::from_value),
            f3: FromValue::from_value(s[3].as_ref().expect("component f3 of Ts5moomme5 must be present")),
            f4: FromValue::from_value(s[4].as_ref().expect("component f4 of Ts5moomme5 must be present")),
        }
    }
}
impl ToValue for Ts5moomme5 {
    fn to_value(&self) -> Value {
        Value::Seq(vec![
            Some(self.f0.to_value()),
            self.f1.as_ref().map(|x| x.to_value()),
            self.f2.as_ref().map(|x| x.to_value()),
            Some(self.f3.to_value()),
            Some(self.f4.to_value()),
        ])
    }
}
impl FromValue for Ts5ooommn {
    fn from_value(v: &Value) -> Self {
        let s = match v { Value::Seq(s) => s, other => panic!("Ts5ooommn: expected Seq, got {other:?}") };
        assert_eq!(s.len(), 5, "Ts5ooommn: component count");
        let _ = s;
        Ts5ooommn {
            f0: s[0].as_ref().map(FromValue::from_value),
            f1: s[1].as_ref().map(FromValue::from_value),
            f2: s[2].as_ref().map(FromValue::from_value),
            f3: FromValue::from_value(s[3].as_ref().expect("component f3 of Ts5ooommn must be present")),
            f4: FromValue::from_value(s[4].as_ref().expect("component f4 of Ts5ooommn must be present")),
        }
    }
}
impl ToValue for Ts5ooommn {
    fn to_value(&self) -> Value {
        Value::Seq(vec![
            self.f0.as_ref().map(|x| x.to_value()),
            self.f1.as_ref().map(|x| x.to_value()),
            self.f2.as_ref().map(|x| x.to_value()),
            Some(self.f3.to_value()),
            Some(self.f4.to_value()),
        ])
    }
}
impl FromValue for Ts5ooomme0 {
    fn from_value(v: &Value) -> Self {
        let s = match v { Value::Seq(s) => s, other => panic!("Ts5ooomme0: expected Seq, got {other:?}") };
        assert_eq!(s.len(), 5, "Ts5ooomme0: component count");
        let _ = s;
        Ts5ooomme0 {
            f0: s[0].as_ref().map(FromValue::from_value),
            f1: s[1].as_ref().map(FromValue::from_value),
            f2: s[2].as_ref().map(FromValue::from_value),
            f3: s[3].as_ref().map(FromValue::from_value),
            f4: s[4].as_ref().map(FromValue::from_value),
        }
    }
}
impl ToValue for Ts5ooomme0 {
    fn to_value(&self) -> Value {
        Value::Seq(vec![
            self.f0.as_ref().map(|x| x.to_value()),
            self.f1.as_ref().map(|x| x.to_value()),
            self.f2.as_ref().map(|x| x.to_value()),
            self.f3.as_ref().map(|x| x.to_value()),
            self.f4.as_ref().map(|x| x.to_value()),
        ])
    }
}
impl FromValue for Ts5ooomme1 {
    fn from_value(v: &Value) -> Self {
        let s = match v { Value::Seq(s) => s, other => panic!("Ts5ooomme1: expected Seq, got {other:?}") };
        assert_eq!(s.len(), 5, "Ts5ooomme1: component count");
        let _ = s;
        Ts5ooomme1 {
            f0: s[0].as_ref().map(FromValue::from_value),
            f1: s[1].as_ref().map(FromValue::from_value),
            f2: s[2].as_ref().map(FromValue::from_value),
            f3: s[3].as_ref().map(FromValue::from_value),
            f4: s[4].as_ref().map(FromValue::from_value),
        }
    }
}
impl ToValue for Ts5ooomme1 {
    fn to_value(&self) -> Value {
        Value::Seq(vec![
            self.f0.as_ref().map(|x| x.to_value()),
            self.f1.as_ref().map(|x| x.to_value()),
            self.f2.as_ref().map(|x| x.to_value()),
            self.f3.as_ref().map(|x| x.to_value()),
            self.f4.as_ref().map(|x| x.to_value()),
        ])
    }
}
impl FromValue for Ts5ooomme2 {
    fn from_value(v: &Value) -> Self {
        let s = match v { Value::Seq(s) => s, other => panic!("Ts5ooomme2: expected Seq, got {other:?}") };
        assert_eq!(s.len(), 5, "Ts5ooomme2: component count");
        let _ = s;
        Ts5ooomme2 {
            f0: s[0].as_ref().map(FromValue::from_value),
            f1: s[1].as_ref().map(FromValue::from_value),
            f2: s[2].as_ref().map(FromValue::from_value),
            f3: s[3].as_ref().map(FromValue::from_value),
            f4: s[4].as_ref().map(FromValue::from_value),
        }
    }
}
impl ToValue for Ts5ooomme2 {
    fn to_value(&self) -> Value {
        Value::Seq(vec![
            self.f0.as_ref().map(|x| x.to_value()),
            self.f1.as_ref().map(|x| x.to_value()),
            self.f2.as_ref().map(|x| x.to_value()),
            self.f3.as_ref().map(|x| x.to_value()),
            self.f4.as_ref().map(|x| x.to_value()),
        ])
    }
}
impl FromValue for Ts5ooomme3 {
    fn from_value(v: &Value) -> Self {
        let s = match v { Value::Seq(s) => s, other => panic!("Ts5ooomme3: expected Seq, got {other:?}") };
        assert_eq!(s.len(), 5, "Ts5ooomme3: component count");
        let _ = s;
        Ts5ooomme3 {
            f0: s[0].as_ref().map(FromValue::from_value),
            f1: s[1].as_ref().map(FromValue::from_value),
            f2: s[2].as_ref().map(FromValue::from_value),
            f3: s[3].as_ref().map(FromValue::from_value),
            f4: s[4].as_ref().map(FromValue::from_value),
        }
    }
}
impl ToValue for Ts5ooomme3 {
    fn to_value(&self) -> Value {
        Value::Seq(vec![
            self.f0.as_ref().map(|x| x.to_value()),
            self.f1.as_ref().map(|x| x.to_value()),
            self.f2.as_ref().map(|x| x.to_value()),
            self.f3.as_ref().map(|x| x.to_value()),
            self.f4.as_ref().map(|x| x.to_value()),
        ])
    }
}
impl FromValue for Ts5ooomme4 {
    fn from_value(v: &Value) -> Self {
        let s = match v { Value::Seq(s) => s, other => panic!("Ts5ooomme4: expected Seq, got {other:?}") };
        assert_eq!(s.len(), 5, "Ts5ooomme4: component count");
        let _ = s;
        Ts5ooomme4 {
            f0: s[0].as_ref().map(FromValue::from_value),
            f1: s[1].as_ref().map(FromValue::from_value),
            f2: s[2].as_ref().map(FromValue::from_value),
            f3: FromValue::from_value(s[3].as_ref().expect("component f3 of Ts5ooomme4 must be present")),
            f4: s[4].as_ref().map(FromValue::from_value),
        }
    }
}
impl ToValue for Ts5ooomme4 {
    fn to_value(&self) -> Value {
        Value::Seq(vec![
            self.f0.as_ref().map(|x| x.to_value()),
            self.f1.as_ref().map(|x| x.to_value()),
            self.f2.as_ref().map(|x| x.to_value()),
            Some(self.f3.to_value()),
            self.f4.as_ref().map(|x| x.to_value()),
        ])
    }
}
impl FromValue for Ts5ooomme5 {
    fn from_value(v: &Value) -> Self {
        let s = match v { Value::Seq(s) => s, other => panic!("Ts5ooomme5: expected Seq, got {other:?}") };
        assert_eq!(s.len(), 5, "Ts5ooomme5: component count");
        let _ = s;
        Ts5ooomme5 {
            f0: s[0].as_ref().map(FromValue::from_value),
            f1: s[1].as_ref().map(FromValue::from_value),
            f2: s[2].as_ref().map(FromValue::from_value),
            f3: FromValue::from_value(s[3].as_ref().expect("component f3 of Ts5ooomme5 must be present")),
            f4: FromValue::from_value(s[4].as_ref().expect("component f4 of Ts5ooomme5 must be present")),
        }
    }
}
impl ToValue for Ts5ooomme5 {
    fn to_value(&self) -> Value {
        Value::Seq(vec![
            self.f0.as_ref().map(|x| x.to_value()),
            self.f1.as_ref().map(|x| x.to_value()),
            self.f2.as_ref().map(|x| x.to_value()),
            Some(self.f3.to_value()),
            Some(self.f4.to_value()),
        ])
    }
}
impl FromValue for Ts5doommn {
    fn from_value(v: &Value) -> Self {
        let s = match v { Value::Seq(s) => s, other => panic!("Ts5doommn: expected Seq, got {other:?}") };
        assert_eq!(s.len(), 5, "Ts5doommn: component count");
        let _ = s;
        Ts5doommn {
            f0: FromValue::from_value(s[0].as_ref().expect("component f0 of Ts5doommn must be present")),
            f1: s[1].as_ref().map(FromValue::from_value),
            f2: s[2].as_ref().map(FromValue::from_value),
            f3: FromValue::from_value(s[3].as_ref().expect("component f3 of Ts5doommn must be present")),
            f4: FromValue::from_value(s[4].as_ref().expect("component f4 of Ts5doommn must be present")),
        }
    }
}
impl ToValue for Ts5doommn {
    fn to_value(&self) -> Value {
        Value::Seq(vec![
            Some(self.f0.to_value()),
            self.f1.as_ref().map(|x| x.to_value()),
            self.f2.as_ref().map(|x| x.to_value()),
            Some(self.f3.to_value()),
            Some(self.f4.to_value()),
        ])
    }
}
impl FromValue for Ts5doomme0 {
    fn from_value(v: &Value) -> Self {
        let s = match v { Value::Seq(s) => s, other => panic!("Ts5doomme0: expected Seq, got {other:?}") };
        assert_eq!(s.len(), 5, "Ts5doomme0: component count");
        let _ = s;
        Ts5doomme0 {
            f0: FromValue::from_value(s[0].as_ref().expect("component f0 of Ts5doomme0 must be present")),
            f1: s[1].as_ref().map(FromValue::from_value),
            f2: s[2].as_ref().map(FromValue::from_value),
            f3: s[3].as_ref().map(FromValue::from_value),
            f4: s[4].as_ref().map(FromValue::from_value),
        }
    }
}
impl ToValue for Ts5doomme0 {
    fn to_value(&self) -> Value {
        Value::Seq(vec![
            Some(self.f0.to_value()),
            self.f1.as_ref().map(|x| x.to_value()),
            self.f2.as_ref().map(|x| x.to_value()),
            self.f3.as_ref().map(|x| x.to_value()),
            self.f4.as_ref().map(|x| x.to_value()),
        ])
    }
}
impl FromValue for Ts5doomme1 {
    fn from_value(v: &Value) -> Self {
        let s = match v { Value::Seq(s) => s, other => panic!("Ts5doomme1: expected Seq, got {other:?}") };
        assert_eq!(s.len(), 5, "Ts5doomme1: component count");
        let _ = s;
        Ts5doomme1 {
            f0: FromValue::from_value(s[0].as_ref().expect("component f0 of Ts5doomme1 must be present")),
            f1: s[1].as_ref().map(FromValue::from_value),
            f2: s[2].as_ref().map(FromValue::from_value),
            f3: s[3].as_ref().map(FromValue::from_value),
            f4: s[4].as_ref().map(FromValue::from_value),
        }
    }
}
impl ToValue for Ts5doomme1 {
    fn to_value(&self) -> Value {
        Value::Seq(vec![
            Some(self.f0.to_value()),
            self.f1.as_ref().map(|x| x.to_value()),
            self.f2.as_ref().map(|x| x.to_value()),
            self.f3.as_ref().map(|x| x.to_value()),
            self.f4.as_ref().map(|x| x.to_value()),
        ])
    }
}
impl FromValue for Ts5doomme2 {
    fn from_value(v: &Value) -> Self {
        let s = match v { Value::Seq(s) => s, other => panic!("Ts5doomme2: expected Seq, got {other:?}") };
        assert_eq!(s.len(), 5, "Ts5doomme2: component count");
        let _ = s;
        Ts5doomme2 {
            f0: FromValue::from_value(s[0].as_ref().expect("component f0 of Ts5doomme2 must be present")),
            f1: s[1].as_ref().map(FromValue::from_value),
            f2: s[2].as_ref().map(FromValue::from_value),
            f3: s[3].as_ref().map(FromValue::from_value),
            f4: s[4].as_ref().map(FromValue::from_value),
        }
    }
}
impl ToValue for Ts5doomme2 {
    fn to_value(&self) -> Value {
        Value::Seq(vec![
            Some(self.f0.to_value()),
            self.f1.as_ref().map(|x| x.to_value()),
            self.f2.as_ref().map(|x| x.to_value()),
            self.f3.as_ref().map(|x| x.to_value()),
            self.f4.as_ref().map(|x| x.to_value()),
        ])
    }
}
impl FromValue for Ts5doomme3 {
    fn from_value(v: &Value) -> Self {
        let s = match v { Value::Seq(s) => s, other => panic!("Ts5doomme3: expected Seq, got {other:?}") };
        assert_eq!(s.len(), 5, "Ts5doomme3: component count");
        let _ = s;
        Ts5doomme3 {
            f0: FromValue::from_value(s[0].as_ref().expect("component f0 of Ts5doomme3 must be present")),
            f1: s[1].as_ref().map(FromValue::from_value),
            f2: s[2].as_ref().map(FromValue::from_value),
            f3: s[3].as_ref().map(FromValue::from_value),
            f4: s[4].as_ref().map(FromValue::from_value),
        }
    }
}
impl ToValue for Ts5doomme3 {
    fn to_value(&self) -> Value {
        Value::Seq(vec![
            Some(self.f0.to_value()),
            self.f1.as_ref().map(|x| x.to_value()),
            self.f2.as_ref().map(|x| x.to_value()),
            self.f3.as_ref().map(|x| x.to_value()),
            self.f4.as_ref().map(|x| x.to_value()),
        ])
    }
}
impl FromValue for Ts5doomme4 {
    fn from_value(v: &Value) -> Self {
        let s = match v { Value::Seq(s) => s, other => panic!("Ts5doomme4: expected Seq, got {other:?}") };
        assert_eq!(s.len(), 5, "Ts5doomme4: component count");
        let _ = s;
        Ts5doomme4 {
            f0: FromValue::from_value(s[0].as_ref().expect("component f0 of Ts5doomme4 must be present")),
            f1: s[1].as_ref().map(FromValue::from_value),
            f2: s[2].as_ref().map(FromValue::from_value),
            f3: FromValue::from_value(s[3].as_ref().expect("component f3 of Ts5doomme4 must be present")),
            f4: s[4].as_ref().map(FromValue::from_value),
        }
    }
}
impl ToValue for Ts5doomme4 {
    fn to_value(&self) -> Value {
        Value::Seq(vec![
            Some(self.f0.to_value()),
            self.f1.as_ref().map(|x| x.to_value()),
            self.f2.as_ref().map(|x| x.to_value()),
            Some(self.f3.to_value()),
            self.f4.as_ref().map(|x| x.to_value()),
        ])
    }
}
impl FromValue for Ts5doomme5 {
    fn from_value(v: &Value) -> Self {
        let s = match v { Value::Seq(s) => s, other => panic!("Ts5doomme5: expected Seq, got {other:?}") };
        assert_eq!(s.len(), 5, "Ts5doomme5: component count");
        let _ = s;
        Ts5doomme5 {
            f0: FromValue::from_value(s[0].as_ref().expect("component f0 of Ts5doomme5 must be present")),
            f1: s[1].as_ref().map(FromValue::from_value),
            f2: s[2].as_ref().map(FromValue::from_value),
            f3: FromValue::from_value(s[3].as_ref().expect("component f3 of Ts5doomme5 must be present")),
            f4: FromValue::from_value(s[4].as_ref().expect("component f4 of Ts5doomme5 must be present")),
        }
    }
}
impl ToValue for Ts5doomme5 {
    fn to_value(&self) -> Value {
        Value::Seq(vec![
            Some(self.f0.to_value()),
            self.f1.as_ref().map(|x| x.to_value()),
            self.f2.as_ref().map(|x| x.to_value()),
            Some(self.f3.to_value()),
            Some(self.f4.to_value()),
        ])
    }
}
impl FromValue for Ts5mdommn {
    fn from_value(v: &Value) -> Self {
        let s = match v { Value::Seq(s) => s, other => panic!("Ts5mdommn: expected Seq, got {other:?}") };
        assert_eq!(s.len(), 5, "Ts5mdommn: component count");
        let _ = s;
        Ts5mdommn {
            f0: FromValue::from_value(s[0].as_ref().expect("component f0 of Ts5mdommn must be present")),
            f1: FromValue::from_value(s[1].as_ref().expect("component f1 of Ts5mdommn must be present")),
            f2: s[2].as_ref().map(FromValue::from_value),
            f3: FromValue::from_value(s[3].as_ref().expect("component f3 of Ts5mdommn must be present")),
            f4: FromValue::from_value(s[4].as_ref().expect("component f4 of Ts5mdommn must be present")),
        }
    }
}
impl ToValue for Ts5mdommn {
    fn to_value(&self) -> Value {
        Value::Seq(vec![
            Some(self.f0.to_value()),
            Some(self.f1.to_value()),
            self.f2.as_ref().map(|x| x.to_value()),
            Some(self.f3.to_value()),
            Some(self.f4.to_value()),
        ])
    }
}
impl FromValue for Ts5mdomme0 {
    fn from_value(v: &Value) -> Self {
        let s = match v { Value::Seq(s) => s, other => panic!("Ts5mdomme0: expected Seq, got {other:?}") };
        assert_eq!(s.len(), 5, "Ts5mdomme0: component count");
        let _ = s;
        Ts5mdomme0 {
            f0: FromValue::from_value(s[0].as_ref().expect("component f0 of Ts5mdomme0 must be present")),
            f1: FromValue::from_value(s[1].as_ref().expect("component f1 of Ts5mdomme0 must be present")),
            f2: s[2].as_ref().map(FromValue::from_value),
            f3: s[3].as_ref().map(FromValue::from_value),
            f4: s[4].as_ref().map(FromValue::from_value),
        }
    }
}
impl ToValue for Ts5mdomme0 {
    fn to_value(&self) -> Value {
        Value::Seq(vec![
            Some(self.f0.to_value()),
            Some(self.f1.to_value()),
            self.f2.as_ref().map(|x| x.to_value()),
            self.f3.as_ref().map(|x| x.to_value()),
            self.f4.as_ref().map(|x| x.to_value()),
        ])
    }
}
impl FromValue for Ts5mdomme1 {
    fn from_value(v: &Value) -> Self {
        let s = match v { Value::Seq(s) => s, other => panic!("Ts5mdomme1: expected Seq, got {other:?}") };
        assert_eq!(s.len(), 5, "Ts5mdomme1: component count");
        let _ = s;
        Ts5mdomme1 {
            f0: FromValue::from_value(s[0].as_ref().expect("component f0 of Ts5mdomme1 must be present")),
            f1: FromValue::from_value(s[1].as_ref().expect("component f1 of Ts5mdomme1 must be present")),
            f2: s[2].as_ref().map(FromValue::from_value),
            f3: s[3].as_ref().map(FromValue::from_value),
            f4: s[4].as_ref().map(FromValue::from_value),
        }
    }
}
impl ToValue for Ts5mdomme1 {
    fn to_value(&self) -> Value {
        Value::Seq(vec![
            Some(self.f0.to_value()),
            Some(self.f1.to_value()),
            self.f2.as_ref().map(|x| x.to_value()),
            self.f3.as_ref().map(|x| x.to_value()),
            self.f4.as_ref().map(|x| x.to_value()),
        ])
    }
}
impl FromValue for Ts5mdomme2 {
    fn from_value(v: &Value) -> Self {
        let s = match v { Value::Seq(s) => s, other => panic!("Ts5mdomme2: expected Seq, got {other:?}") };
        assert_eq!(s.len(), 5, "Ts5mdomme2: component count");
        let _ = s;
        Ts5mdomme2 {
            f0: FromValue::from_value(s[0].as_ref().expect("component f0 of Ts5mdomme2 must be present")),
            f1: FromValue::from_value(s[1].as_ref().expect("component f1 of Ts5mdomme2 must be present")),
            f2: s[2].as_ref().map(FromValue::from_value),
            f3: s[3].as_ref().map(FromValue::from_value),
            f4: s[4].as_ref().map(FromValue::from_value),
        }
    }
}
impl ToValue for Ts5mdomme2 {
    fn to_value(&self) -> Value {
        Value::Seq(vec![
            Some(self.f0.to_value()),
            Some(self.f1.to_value()),
            self.f2.as_ref().map(|x| x.to_value()),
            self.f3.as_ref().map(|x| x.to_value()),
            self.f4.as_ref().map(|x| x.to_value()),
        ])
    }
}
impl FromValue for Ts5mdomme3 {
    fn from_value(v: &Value) -> Self {
        let s = match v { Value::Seq(s) => s, other => panic!("Ts5mdomme3: expected Seq, got {other:?}") };
        assert_eq!(s.len(), 5, "Ts5mdomme3: component count");
        let _ = s;
        Ts5mdomme3 {
            f0: FromValue::from_value(s[0].as_ref().expect("component f0 of Ts5mdomme3 must be present")),
            f1: FromValue::from_value(s[1].as_ref().expect("component f1 of Ts5mdomme3 must be present")),
            f2: s[2].as_ref().map(FromValue::from_value),
            f3: s[3].as_ref().map(FromValue::from_value),
            f4: s[4].as_ref().map(FromValue::from_value),
        }
    }
}
impl ToValue for Ts5mdomme3 {
    fn to_value(&self) -> Value {
        Value::Seq(vec![
            Some(self.f0.to_value()),
            Some(self.f1.to_value()),
            self.f2.as_ref().map(|x| x.to_value()),
            self.f3.as_ref().map(|x| x.to_value()),
            self.f4.as_ref().map(|x| x.to_value()),
        ])
    }
}
impl FromValue for Ts5mdomme4 {
    fn from_value(v: &Value) -> Self {
        let s = match v { Value::Seq(s) => s, other => panic!("Ts5mdomme4: expected Seq, got {other:?}") };
        assert_eq!(s.len(), 5, "Ts5mdomme4: component count");
        let _ = s;
        Ts5mdomme4 {
            f0: FromValue::from_value(s[0].as_ref().expect("component f0 of Ts5mdomme4 must be present")),
            f1: FromValue::from_value(s[1].as_ref().expect("component f1 of Ts5mdomme4 must be present")),
            f2: s[2].as_ref().map(FromValue::from_value),
            f3: FromValue::from_value(s[3].as_ref().expect("component f3 of Ts5mdomme4 must be present")),
            f4: s[4].as_ref().map(FromValue::from_value),
        }
    }
}
impl ToValue for Ts5mdomme4 {
    fn to_value(&self) -> Value {
        Value::Seq(vec![
            Some(self.f0.to_value()),
            Some(self.f1.to_value()),
            self.f2.as_ref().map(|x| x.to_value()),
            Some(self.f3.to_value()),
            self.f4.as_ref().map(|x| x.to_value()),
        ])
    }
}
impl FromValue for Ts5mdomme5 {
    fn from_value(v: &Value) -> Self {
        let s = match v { Value::Seq(s) => s, other => panic!("Ts5mdomme5: expected Seq, got {other:?}") };
        assert_eq!(s.len(), 5, "Ts5mdomme5: component count");
        let _ = s;
        Ts5mdomme5 {
            f0: FromValue::from_value(s[0].as_ref().expect("component f0 of Ts5mdomme5 must be present")),
            f1: FromValue::from_value(s[1].as_ref().expect("component f1 of Ts5mdomme5 must be present")),
            f2: s[2].as_ref().map(FromValue::from_value),
            f3: FromValue::from_value(s[3].as_ref().expect("component f3 of Ts5mdomme5 must be present")),
            f4: FromValue::from_value(s[4].as_ref().expect("component f4 of Ts5mdomme5 must be present")),
        }
    }
}
impl ToValue for Ts5mdomme5 {
    fn to_value(&self) -> Value {
        Value::Seq(vec![
            Some(self.f0.to_value()),
            Some(self.f1.to_value()),
            self.f2.as_ref().map(|x| x.to_value()),
            Some(self.f3.to_value()),
            Some(self.f4.to_value()),
        ])
    }
}
impl FromValue for Ts5odommn {
    fn from_value(v: &Value) -> Self {
        let s = match v { Value::Seq(s) => s, other => panic!("Ts5odommn: expected Seq, got {other:?}") };
        assert_eq!(s.len(), 5, "Ts5odommn: component count");
        let _ = s;
        Ts5odommn {
            f0: s[0].as_ref().map(FromValue::from_value),
            f1: FromValue::from_value(s[1].as_ref().expect("component f1 of Ts5odommn must be present")),
            f2: s[2].as_ref().map(FromValue::from_value),
            f3: FromValue::from_value(s[3].as_ref().expect("component f3 of Ts5odommn must be present")),
            f4: FromValue::from_value(s[4].as_ref().expect("component f4 of Ts5odommn must be present")),
        }
    }
}
impl ToValue for Ts5odommn {
    fn to_value(&self) -> Value {
        Value::Seq(vec![
            self.f0.as_ref().map(|x| x.to_value()),
            Some(self.f1.to_value()),
            self.f2.as_ref().map(|x| x.to_value()),
            Some(self.f3.to_value()),
            Some(self.f4.to_value()),
        ])
    }
}
impl FromValue for Ts5odomme0 {
    fn from_value(v: &Value) -> Self {
        let s = match v { Value::Seq(s) => s, other => panic!("Ts5odomme0: expected Seq, got {other:?}") };
        assert_eq!(s.len(), 5, "Ts5odomme0: component count");
        let _ = s;
        Ts5odomme0 {
            f0: s[0].as_ref().map(FromValue::from_value),
            f1: FromValue::from_value(s[1].as_ref().expect("component f1 of Ts5odomme0 must be present")),
            f2: s[2].as_ref().map(FromValue::from_value),
            f3: s[3].as_ref().map(FromValue::from_value),
            f4: s[4].as_ref().map(FromValue::from_value),
        }
    }
}
impl ToValue for Ts5odomme0 {
    fn to_value(&self) -> Value {
        Value::Seq(vec![
            self.f0.as_ref().map(|x| x.to_value()),
            Some(self.f1.to_value()),
            self.f2.as_ref().map(|x| x.to_value()),
            self.f3.as_ref().map(|x| x.to_value()),
            self.f4.as_ref().map(|x| x.to_value()),
        ])
    }
}
impl FromValue for Ts5odomme1 {
    fn from_value(v: &Value) -> Self {
        let s = match v { Value::Seq(s) => s, other => panic!("Ts5odomme1: expected Seq, got {other:?}") };
        assert_eq!(s.len(), 5, "Ts5odomme1: component count");
        let _ = s;
        Ts5odomme1 {
            f0: s[0].as_ref().map(FromValue::from_value),
            f1: FromValue::from_value(s[1].as_ref().expect("component f1 of Ts5odomme1 must be present")),
            f2: s[2].as_ref().map(FromValue::from_value),
            f3: s[3].as_ref().map(FromValue::from_value),
            f4: s[4].as_ref().map(FromValue::from_value),
        }
    }
}
impl ToValue for Ts5odomme1 {
    fn to_value(&self) -> Value {
        Value::Seq(vec![
            self.f0.as_ref().map(|x| x.to_value()),
            Some(self.f1.to_value()),
            self.f2.as_ref().map(|x| x.to_value()),
            self.f3.as_ref().map(|x| x.to_value()),
            self.f4.as_ref().map(|x| x.to_value()),
        ])
    }
}
impl FromValue for Ts5odomme2 {
    fn from_value(v: &Value) -> Self {
        let s = match v { Value::Seq(s) => s, other => panic!("Ts5odomme2: expected Seq, got {other:?}") };
        assert_eq!(s.len(), 5, "Ts5odomme2: component count");
        let _ = s;
        Ts5odomme2 {
            f0: s[0].as_ref().map(FromValue::from_value),
            f1: FromValue::from_value(s[1].as_ref().expect("component f1 of Ts5odomme2 must be present")),
            f2: s[2].as_ref().map(FromValue::from_value),
            f3: s[3].as_ref().map(FromValue::from_value),
            f4: s[4].as_ref().map(FromValue::from_value),
        }
    }
}
impl ToValue for Ts5odomme2 {
    fn to_value(&self) -> Value {
        Value::Seq(vec![
            self.f0.as_ref().map(|x| x.to_value()),
            Some(self.f1.to_value()),
            self.f2.as_ref().map(|x| x.to_value()),
            self.f3.as_ref().map(|x| x.to_value()),
            self.f4.as_ref().map(|x| x.to_value()),
        ])
    }
}
impl FromValue for Ts5odomme3 {
    fn from_value(v: &Value) -> Self {
        let s = match v { Value::Seq(s) => s, other => panic!("Ts5odomme3: expected Seq, got {other:?}") };
        assert_eq!(s.len(), 5, "Ts5odomme3: component count");
        let _ = s;
        Ts5odomme3 {
            f0: s[0].as_ref().map(FromValue::from_value),
            f1: FromValue::from_value(s[1].as_ref().expect("component f1 of Ts5odomme3 must be present")),
            f2: s[2].as_ref().map(FromValue::from_value),
            f3: s[3].as_ref().map(FromValue::from_value),
            f4: s[4].as_ref().map(FromValue::from_value),
        }
    }
}
impl ToValue for Ts5odomme3 {
    fn to_value(&self) -> Value {
        Value::Seq(vec![
            self.f0.as_ref().map(|x| x.to_value()),
            Some(self.f1.to_value()),
            self.f2.as_ref().map(|x| x.to_value()),
            self.f3.as_ref().map(|x| x.to_value()),
            self.f4.as_ref().map(|x| x.to_value()),
        ])
    }
}
impl FromValue for Ts5odomme4 {
    fn from_value(v: &Value) -> Self {
        let s = match v { Value::Seq(s) => s, other => panic!("Ts5odomme4: expected Seq, got {other:?}") };
        assert_eq!(s.len(), 5, "Ts5odomme4: component count");
        let _ = s;
        Ts5odomme4 {
            f0: s[0].as_ref().map(FromValue::from_value),
            f1: FromValue::from_value(s[1].as_ref().expect("component f1 of Ts5odomme4 must be present")),
            f2: s[2].as_ref().map(FromValue::from_value),
            f3: FromValue::from_value(s[3].as_ref().expect("component f3 of Ts5odomme4 must be present")),
            f4: s[4].as_ref().map(FromValue::from_value),
        }
    }
}
impl ToValue for Ts5odomme4 {
    fn to_value(&self) -> Value {
        Value::Seq(vec![
            self.f0.as_ref().map(|x| x.to_value()),
            Some(self.f1.to_value()),
            self.f2.as_ref().map(|x| x.to_value()),
            Some(self.f3.to_value()),
            self.f4.as_ref().map(|x| x.to_value()),
        ])
    }
}
impl FromValue for Ts5odomme5 {
    fn from_value(v: &Value) -> Self {
        let s = match v { Value::Seq(s) => s, other => panic!("Ts5odomme5: expected Seq, got {other:?}") };
        assert_eq!(s.len(), 5, "Ts5odomme5: component count");
        let _ = s;
        Ts5odomme5 {
            f0: s[0].as_ref().map(FromValue::from_value),
            f1: FromValue::from_value(s[1].as_ref().expect("component f1 of Ts5odomme5 must be present")),
            f2: s[2].as_ref().map(FromValue::from_value),
            f3: FromValue::from_value(s[3].as_ref().expect("component f3 of Ts5odomme5 must be present")),
            f4: FromValue::from_value(s[4].as_ref().expect("component f4 of Ts5odomme5 must be present")),
        }
    }
}
impl ToValue for Ts5odomme5 {
    fn to_value(&self) -> Value {
        Value::Seq(vec![
            self.f0.as_ref().map(|x| x.to_value()),
            Some(self.f1.to_value()),
            self.f2.as_ref().map(|x| x.to_value()),
            Some(self.f3.to_value()),
            Some(self.f4.to_value()),
        ])
    }
}
impl FromValue for Ts5ddommn {
    fn from_value(v: &Value) -> Self {
        let s = match v { Value::Seq(s) => s, other => panic!("Ts5ddommn: expected Seq, got {other:?}") };
        assert_eq!(s.len(), 5, "Ts5ddommn: component count");
        let _ = s;
        Ts5ddommn {
            f0: FromValue::from_value(s[0].as_ref().expect("component f0 of Ts5ddommn must be present")),
            f1: FromValue::from_value(s[1].as_ref().expect("component f1 of Ts5ddommn must be present")),
            f2: s[2].as_ref().map(FromValue::from_value),
            f3: FromValue::from_value(s[3].as_ref().expect("component f3 of Ts5ddommn must be present")),
            f4: FromValue::from_value(s[4].as_ref().expect("component f4 of Ts5ddommn must be present")),
        }
    }
}
impl ToValue for Ts5ddommn {
    fn to_value(&self) -> Value {
        Value::Seq(vec![
            Some(self.f0.to_value()),
            Some(self.f1.to_value()),
            self.f2.as_ref().map(|x| x.to_value()),
            Some(self.f3.to_value()),
            Some(self.f4.to_value()),
        ])
    }
}

use asn1rs::prelude::*;

#[asn(sequence, extensible_after(f0))]

#[derive(Default, Debug, Clone, PartialEq, Hash)]
pub struct Ts5dmmdoe0 {
    #[asn(default(integer(0..7), 5))] pub f0: u8,
    #[asn(optional(integer(0..7)))] pub f1: Option<u8>,
    #[asn(optional(integer(0..7)))] pub f2: Option<u8>,
    #[asn(default(integer(0..7), 5))] pub f3: u8,
    #[asn(optional(integer(0..7)))] pub f4: Option<u8>,
}

impl Ts5dmmdoe0 {
    pub const fn f0_min() -> u8 {
        0
    }

    pub const fn f0_max() -> u8 {
        7
    }

    pub const fn f1_min() -> u8 {
        0
    }

    pub const fn f1_max() -> u8 {
        7
    }

    pub const fn f2_min() -> u8 {
        0
    }

    pub const fn f2_max() -> u8 {
        7
    }

    pub const fn f3_min() -> u8 {
        0
    }

    pub const fn f3_max() -> u8 {
        7
    }

    pub const fn f4_min() -> u8 {
        0
    }

    pub const fn f4_max() -> u8 {
        7
    }
}

#[asn(sequence, extensible_after(f0))]

#[derive(Default, Debug, Clone, PartialEq, Hash)]
pub struct Ts5dmmdoe1 {
    #[asn(default(integer(0..7), 5))] pub f0: u8,
    #[asn(optional(integer(0..7)))] pub f1: Option<u8>,
    #[asn(optional(integer(0..7)))] pub f2: Option<u8>,
    #[asn(default(integer(0..7), 5))] pub f3: u8,
    #[asn(optional(integer(0..7)))] pub f4: Option<u8>,
}

impl Ts5dmmdoe1 {
    pub const fn f0_min() -> u8 {
        0
    }

    pub const fn f0_max() -> u8 {
        7
    }

    pub const fn f1_min() -> u8 {
        0
    }

    pub const fn f1_max() -> u8 {
        7
    }

    pub const fn f2_min() -> u8 {
        0
    }

    pub const fn f2_max() -> u8 {
        7
    }

    pub const fn f3_min() -> u8 {
        0
    }

    pub const fn f3_max() -> u8 {
        7
    }

    pub const fn f4_min() -> u8 {
        0
    }

    pub const fn f4_max() -> u8 {
        7
    }
}

#[asn(sequence, extensible_after(f1))]

#[derive(Default, Debug, Clone, PartialEq, Hash)]
pub struct Ts5dmmdoe2 {
    #[asn(default(integer(0..7), 5))] pub f0: u8,
    #[asn(integer(0..7))] pub f1: u8,
    #[asn(optional(integer(0..7)))] pub f2: Option<u8>,
    #[asn(default(integer(0..7), 5))] pub f3: u8,
    #[asn(optional(integer(0..7)))] pub f4: Option<u8>,
}

impl Ts5dmmdoe2 {
    pub const fn f0_min() -> u8 {
        0
    }

    pub const fn f0_max() -> u8 {
        7
    }

    pub const fn f1_min() -> u8 {
        0
    }

    pub const fn f1_max() -> u8 {
        7
    }

    pub const fn f2_min() -> u8 {
        0
    }

    pub const fn f2_max() -> u8 {
        7
    }

    pub const fn f3_min() -> u8 {
        0
    }

    pub const fn f3_max() -> u8 {
        7
    }

    pub const fn f4_min() -> u8 {
        0
    }

    pub const fn f4_max() -> u8 {
        7
    }
}

#[asn(sequence, extensible_after(f2))]

#[derive(Default, Debug, Clone, PartialEq, Hash)]
pub struct Ts5dmmdoe3 {
    #[asn(default(integer(0..7), 5))] pub f0: u8,
    #[asn(integer(0..7))] pub f1: u8,
    #[asn(integer(0..7))] pub f2: u8,
    #[asn(default(integer(0..7), 5))] pub f3: u8,
    #[asn(optional(integer(0..7)))] pub f4: Option<u8>,
}

impl Ts5dmmdoe3 {
    pub const fn f0_min() -> u8 {
        0
    }

    pub const fn f0_max() -> u8 {
        7
    }

    pub const fn f1_min() -> u8 {
        0
    }

    pub const fn f1_max() -> u8 {
        7
    }

    pub const fn f2_min() -> u8 {
        0
    }

    pub const fn f2_max() -> u8 {
        7
    }

    pub const fn f3_min() -> u8 {
        0
    }

    pub const fn f3_max() -> u8 {
        7
    }

    pub const fn f4_min() -> u8 {
        0
    }

    pub const fn f4_max() -> u8 {
        7
    }
}

#[asn(sequence, extensible_after(f3))]

#[derive(Default, Debug, Clone, PartialEq, Hash)]
pub struct Ts5dmmdoe4 {
    #[asn(default(integer(0..7), 5))] pub f0: u8,
    #[asn(integer(0..7))] pub f1: u8,
    #[asn(integer(0..7))] pub f2: u8,
    #[asn(default(integer(0..7), 5))] pub f3: u8,
    #[asn(optional(integer(0..7)))] pub f4: Option<u8>,
}

impl Ts5dmmdoe4 {
    pub const fn f0_min() -> u8 {
        0
    }

    pub const fn f0_max() -> u8 {
        7
    }

    pub const fn f1_min() -> u8 {
        0
    }

    pub const fn f1_max() -> u8 {
        7
    }

    pub const fn f2_min() -> u8 {
        0
    }

    pub const fn f2_max() -> u8 {
        7
    }

    pub const fn f3_min() -> u8 {
        0
    }

    pub const fn f3_max() -> u8 {
        7
    }

    pub const fn f4_min() -> u8 {
        0
    }

    pub const fn f4_max() -> u8 {
        7
    }
}

#[asn(sequence, extensible_after(f4))]

#[derive(Default, Debug, Clone, PartialEq, Hash)]
pub struct Ts5dmmdoe5 {
    #[asn(default(integer(0..7), 5))] pub f0: u8,
    #[asn(integer(0..7))] pub f1: u8,
    #[asn(integer(0..7))] pub f2: u8,
    #[asn(default(integer(0..7), 5))] pub f3: u8,
    #[asn(optional(integer(0..7)))] pub f4: Option<u8>,
}

impl Ts5dmmdoe5 {
    pub const fn f0_min() -> u8 {
        0
    }

    pub const fn f0_max() -> u8 {
        7
    }

    pub const fn f1_min() -> u8 {
        0
    }

    pub const fn f1_max() -> u8 {
        7
    }

    pub const fn f2_min() -> u8 {
        0
    }

    pub const fn f2_max() -> u8 {
        7
    }

    pub const fn f3_min() -> u8 {
        0
    }

    pub const fn f3_max() -> u8 {
        7
    }

    pub const fn f4_min() -> u8 {
        0
    }

    pub const fn f4_max() -> u8 {
        7
    }
}

#[asn(sequence)]

#[derive(Default, Debug, Clone, PartialEq, Hash)]
pub struct Ts5momdon {
    #[asn(integer(0..7))] pub f0: u8,
    #[asn(optional(integer(0..7)))] pub f1: Option<u8>,
    #[asn(integer(0..7))] pub f2: u8,
    #[asn(default(integer(0..7), 5))] pub f3: u8,
    #[asn(optional(integer(0..7)))] pub f4: Option<u8>,
}

impl Ts5momdon {
    pub const fn f0_min() -> u8 {
        0
    }

    pub const fn f0_max() -> u8 {
        7
    }

    pub const fn f1_min() -> u8 {
        0
    }

    pub const fn f1_max() -> u8 {
        7
    }

    pub const fn f2_min() -> u8 {
        0
    }

    pub const fn f2_max() -> u8 {
        7
    }

    pub const fn f3_min() -> u8 {
        0
    }

    pub const fn f3_max() -> u8 {
        7
    }

    pub const fn f4_min() -> u8 {
        0
    }

    pub const fn f4_max() -> u8 {
        7
    }
}

#[asn(sequence, extensible_after(f0))]

#[derive(Default, Debug, Clone, PartialEq, Hash)]
pub struct Ts5momdoe0 {
    #[asn(integer(0..7))] pub f0: u8,
    #[asn(optional(integer(0..7)))] pub f1: Option<u8>,
    #[asn(optional(integer(0..7)))] pub f2: Option<u8>,
    #[asn(default(integer(0..7), 5))] pub f3: u8,
    #[asn(optional(integer(0..7)))] pub f4: Option<u8>,
}

impl Ts5momdoe0 {
    pub const fn f0_min() -> u8 {
        0
    }

    pub const fn f0_max() -> u8 {
        7
    }

    pub const fn f1_min() -> u8 {
        0
    }

    pub const fn f1_max() -> u8 {
        7
    }

    pub const fn f2_min() -> u8 {
        0
    }

    pub const fn f2_max() -> u8 {
        7
    }

    pub const fn f3_min() -> u8 {
        0
    }

    pub const fn f3_max() -> u8 {
        7
    }

    pub const fn f4_min() -> u8 {
        0
    }

    pub const fn f4_max() -> u8 {
        7
    }
}

#[asn(sequence, extensible_after(f0))]

#[derive(Default, Debug, Clone, PartialEq, Hash)]
pub struct Ts5momdoe1 {
    #[asn(integer(0..7))] pub f0: u8,
    #[asn(optional(integer(0..7)))] pub f1: Option<u8>,
    #[asn(optional(integer(0..7)))] pub f2: Option<u8>,
    #[asn(default(integer(0..7), 5))] pub f3: u8,
    #[asn(optional(integer(0..7)))] pub f4: Option<u8>,
}

impl Ts5momdoe1 {
    pub const fn f0_min() -> u8 {
        0
    }

    pub const fn f0_max() -> u8 {
        7
    }

    pub const fn f1_min() -> u8 {
        0
    }

    pub const fn f1_max() -> u8 {
        7
    }

    pub const fn f2_min() -> u8 {
        0
    }

    pub const fn f2_max() -> u8 {
        7
    }

    pub const fn f3_min() -> u8 {
        0
    }

    pub const fn f3_max() -> u8 {
        7
    }

    pub const fn f4_min() -> u8 {
        0
    }

    pub const fn f4_max() -> u8 {
        7
    }
}

#[asn(sequence, extensible_after(f1))]

#[derive(Default, Debug, Clone, PartialEq, Hash)]
pub struct Ts5momdoe2 {
    #[asn(integer(0..7))] pub f0: u8,
    #[asn(optional(integer(0..7)))] pub f1: Option<u8>,
    #[asn(optional(integer(0..7)))] pub f2: Option<u8>,
    #[asn(default(integer(0..7), 5))] pub f3: u8,
    #[asn(optional(integer(0..7)))] pub f4: Option<u8>,
}

impl Ts5momdoe2 {
    pub const fn f0_min() -> u8 {
        0
    }

    pub const fn f0_max() -> u8 {
        7
    }

    pub const fn f1_min() -> u8 {
        0
    }

    pub const fn f1_max() -> u8 {
        7
    }

    pub const fn f2_min() -> u8 {
        0
    }

    pub const fn f2_max() -> u8 {
        7
    }

    pub const fn f3_min() -> u8 {
        0
    }

    pub const fn f3_max() -> u8 {
        7
    }

    pub const fn f4_min() -> u8 {
        0
    }

    pub const fn f4_max() -> u8 {
        7
    }
}

#[asn(sequence, extensible_after(f2))]

#[derive(Default, Debug, Clone, PartialEq, Hash)]
pub struct Ts5momdoe3 {
    #[asn(integer(0..7))] pub f0: u8,
    #[asn(optional(integer(0..7)))] pub f1: Option<u8>,
    #[asn(integer(0..7))] pub f2: u8,
    #[asn(default(integer(0..7), 5))] pub f3: u8,
    #[asn(optional(integer(0..7)))] pub f4: Option<u8>,
}

impl Ts5momdoe3 {
    pub const fn f0_min() -> u8 {
        0
    }

    pub const fn f0_max() -> u8 {
        7
    }

    pub const fn f1_min() -> u8 {
        0
    }

    pub const fn f1_max() -> u8 {
        7
    }

    pub const fn f2_min() -> u8 {
        0
    }

    pub const fn f2_max() -> u8 {
        7
    }

    pub const fn f3_min() -> u8 {
        0
    }

    pub const fn f3_max() -> u8 {
        7
    }

    pub const fn f4_min() -> u8 {
        0
    }

    pub const fn f4_max() -> u8 {
        7
    }
}

#[asn(sequence, extensible_after(f3))]

#[derive(Default, Debug, Clone, PartialEq, Hash)]
pub struct Ts5momdoe4 {
    #[asn(integer(0..7))] pub f0: u8,
    #[asn(optional(integer(0..7)))] pub f1: Option<u8>,
    #[asn(integer(0..7))] pub f2: u8,
    #[asn(default(integer(0..7), 5))] pub f3: u8,
    #[asn(optional(integer(0..7)))] pub f4: Option<u8>,
}

impl Ts5momdoe4 {
    pub const fn f0_min() -> u8 {
        0
    }

    pub const fn f0_max() -> u8 {
        7
    }

    pub const fn f1_min() -> u8 {
        0
    }

    pub const fn f1_max() -> u8 {
        7
    }

    pub const fn f2_min() -> u8 {
        0
    }

    pub const fn f2_max() -> u8 {
        7
    }

    pub const fn f3_min() -> u8 {
        0
    }

    pub const fn f3_max() -> u8 {
        7
    }

    pub const fn f4_min() -> u8 {
        0
    }

    pub const fn f4_max() -> u8 {
        7
    }
}

#[asn(sequence, extensible_after(f4))]

#[derive(Default, Debug, Clone, PartialEq, Hash)]
pub struct Ts5momdoe5 {
    #[asn(integer(0..7))] pub f0: u8,
    #[asn(optional(integer(0..7)))] pub f1: Option<u8>,
    #[asn(integer(0..7))] pub f2: u8,
    #[asn(default(integer(0..7), 5))] pub f3: u8,
    #[asn(optional(integer(0..7)))] pub f4: Option<u8>,
}

impl Ts5momdoe5 {
    pub const fn f0_min() -> u8 {
        0
    }

    pub const fn f0_max() -> u8 {
        7
    }

    pub const fn f1_min() -> u8 {
        0
    }

    pub const fn f1_max() -> u8 {
        7
    }

    pub const fn f2_min() -> u8 {
        0
    }

    pub const fn f2_max() -> u8 {
        7
    }

    pub const fn f3_min() -> u8 {
        0
    }

    pub const fn f3_max() -> u8 {
        7
    }

    pub const fn f4_min() -> u8 {
        0
    }

    pub const fn f4_max() -> u8 {
        7
    }
}

#[asn(sequence)]

#[derive(Default, Debug, Clone, PartialEq, Hash)]
pub struct Ts5oomdon {
    #[asn(optional(integer(0..7)))] pub f0: Option<u8>,
    #[asn(optional(integer(0..7)))] pub f1: Option<u8>,
    #[asn(integer(0..7))] pub f2: u8,
    #[asn(default(integer(0..7), 5))] pub f3: u8,
    #[asn(optional(integer(0..7)))] pub f4: Option<u8>,
}

impl Ts5oomdon {
    pub const fn f0_min() -> u8 {
        0
    }

    pub const fn f0_max() -> u8 {
        7
    }

    pub const fn f1_min() -> u8 {
        0
    }

    pub const fn f1_max() -> u8 {
        7
    }

    pub const fn f2_min() -> u8 {
        0
    }

    pub const fn f2_max() -> u8 {
        7
    }

    pub const fn f3_min() -> u8 {
        0
    }

    pub const fn f3_max() -> u8 {
        7
    }

    pub const fn f4_min() -> u8 {
        0
    }

    pub const fn f4_max() -> u8 {
        7
    }
}

#[asn(sequence, extensible_after(f0))]

#[derive(Default, Debug, Clone, PartialEq, Hash)]
pub struct Ts5oomdoe0 {
    #[asn(optional(integer(0..7)))] pub f0: Option<u8>,
    #[asn(optional(integer(0..7)))] pub f1: Option<u8>,
    #[asn(optional(integer(0..7)))] pub f2: Option<u8>,
    #[asn(default(integer(0..7), 5))] pub f3: u8,
    #[asn(optional(integer(0..7)))] pub f4: Option<u8>,
}

impl Ts5oomdoe0 {
    pub const fn f0_min() -> u8 {
        0
    }

    pub const fn f0_max() -> u8 {
        7
    }

    pub const fn f1_min() -> u8 {
        0
    }

    pub const fn f1_max() -> u8 {
        7
    }

    pub const fn f2_min() -> u8 {
        0
    }

    pub const fn f2_max() -> u8 {
        7
    }

    pub const fn f3_min() -> u8 {
        0
    }

    pub const fn f3_max() -> u8 {
        7
    }

    pub const fn f4_min() -> u8 {
        0
    }

    pub const fn f4_max() -> u8 {
        7
    }
}

#[asn(sequence, extensible_after(f0))]

#[derive(Default, Debug, Clone, PartialEq, Hash)]
pub struct Ts5oomdoe1 {
    #[asn(optional(integer(0..7)))] pub f0: Option<u8>,
    #[asn(optional(integer(0..7)))] pub f1: Option<u8>,
    #[asn(optional(integer(0..7)))] pub f2: Option<u8>,
    #[asn(default(integer(0..7), 5))] pub f3: u8,
    #[asn(optional(integer(0..7)))] pub f4: Option<u8>,
}

impl Ts5oomdoe1 {
    pub const fn f0_min() -> u8 {
        0
    }

    pub const fn f0_max() -> u8 {
        7
    }

    pub const fn f1_min() -> u8 {
        0
    }

    pub const fn f1_max() -> u8 {
        7
    }

    pub const fn f2_min() -> u8 {
        0
    }

    pub const fn f2_max() -> u8 {
        7
    }

    pub const fn f3_min() -> u8 {
        0
    }

    pub const fn f3_max() -> u8 {
        7
    }

    pub const fn f4_min() -> u8 {
        0
    }

    pub const fn f4_max() -> u8 {
        7
    }
}

#[asn(sequence, extensible_after(f1))]

#[derive(Default, Debug, Clone, PartialEq, Hash)]
pub struct Ts5oomdoe2 {
    #[asn(optional(integer(0..7)))] pub f0: Option<u8>,
    #[asn(optional(integer(0..7)))] pub f1: Option<u8>,
    #[asn(optional(integer(0..7)))] pub f2: Option<u8>,
    #[asn(default(integer(0..7), 5))] pub f3: u8,
    #[asn(optional(integer(0..7)))] pub f4: Option<u8>,
}

impl Ts5oomdoe2 {
    pub const fn f0_min() -> u8 {
        0
    }

    pub const fn f0_max() -> u8 {
        7
    }

    pub const fn f1_min() -> u8 {
        0
    }

    pub const fn f1_max() -> u8 {
        7
    }

    pub const fn f2_min() -> u8 {
        0
    }

    pub const fn f2_max() -> u8 {
        7
    }

    pub const fn f3_min() -> u8 {
        0
    }

    pub const fn f3_max() -> u8 {
        7
    }

    pub const fn f4_min() -> u8 {
        0
    }

    pub const fn f4_max() -> u8 {
        7
    }
}

#[asn(sequence, extensible_after(f2))]

#[derive(Default, Debug, Clone, PartialEq, Hash)]
pub struct Ts5oomdoe3 {
    #[asn(optional(integer(0..7)))] pub f0: Option<u8>,
    #[asn(optional(integer(0..7)))] pub f1: Option<u8>,
    #[asn(integer(0..7))] pub f2: u8,
    #[asn(default(integer(0..7), 5))] pub f3: u8,
    #[asn(optional(integer(0..7)))] pub f4: Option<u8>,
}

impl Ts5oomdoe3 {
    pub const fn f0_min() -> u8 {
        0
    }

    pub const fn f0_max() -> u8 {
        7
    }

    pub const fn f1_min() -> u8 {
        0
    }

    pub const fn f1_max() -> u8 {
        7
    }

    pub const fn f2_min() -> u8 {
        0
    }

    pub const fn f2_max() -> u8 {
        7
    }

    pub const fn f3_min() -> u8 {
        0
    }

    pub const fn f3_max() -> u8 {
        7
    }

    pub const fn f4_min() -> u8 {
        0
    }

    pub const fn f4_max() -> u8 {
        7
    }
}

#[asn(sequence, extensible_after(f3))]

#[derive(Default, Debug, Clone, PartialEq, Hash)]
pub struct Ts5oomdoe4 {
    #[asn(optional(integer(0..7)))] pub f0: Option<u8>,
    #[asn(optional(integer(0..7)))] pub f1: Option<u8>,
    #[asn(integer(0..7))] pub f2: u8,
    #[asn(default(integer(0..7), 5))] pub f3: u8,
    #[asn(optional(integer(0..7)))] pub f4: Option<u8>,
}

impl Ts5oomdoe4 {
    pub const fn f0_min() -> u8 {
        0
    }

    pub const fn f0_max() -> u8 {
        7
    }

    pub const fn f1_min() -> u8 {
        0
    }

    pub const fn f1_max() -> u8 {
        7
    }

    pub const fn f2_min() -> u8 {
        0
    }

    pub const fn f2_max() -> u8 {
        7
    }

    pub const fn f3_min() -> u8 {
        0
    }

    pub const fn f3_max() -> u8 {
        7
    }

    pub const fn f4_min() -> u8 {
        0
    }

    pub const fn f4_max() -> u8 {
        7
    }
}

#[asn(sequence, extensible_after(f4))]

#[derive(Default, Debug, Clone, PartialEq, Hash)]
pub struct Ts5oomdoe5 {
    #[asn(optional(integer(0..7)))] pub f0: Option<u8>,
    #[asn(optional(integer(0..7)))] pub f1: Option<u8>,
    #[asn(integer(0..7))] pub f2: u8,
    #[asn(default(integer(0..7), 5))] pub f3: u8,
    #[asn(optional(integer(0..7)))] pub f4: Option<u8>,
}

impl Ts5oomdoe5 {
    pub const fn f0_min() -> u8 {
        0
    }

    pub const fn f0_max() -> u8 {
        7
    }

    pub const fn f1_min() -> u8 {
        0
    }

    pub const fn f1_max() -> u8 {
        7
    }

    pub const fn f2_min() -> u8 {
        0
    }

    pub const fn f2_max() -> u8 {
        7
    }

    pub const fn f3_min() -> u8 {
        0
    }

    pub const fn f3_max() -> u8 {
        7
    }

    pub const fn f4_min() -> u8 {
        0
    }

    pub const fn f4_max() -> u8 {
        7
    }
}

#[asn(sequence)]

#[derive(Default, Debug, Clone, PartialEq, Hash)]
pub struct Ts5domdon {
    #[asn(default(integer(0..7), 5))] pub f0: u8,
    #[asn(optional(integer(0..7)))] pub f1: Option<u8>,
    #[asn(integer(0..7))] pub f2: u8,
    #[asn(default(integer(0..7), 5))] pub f3: u8,
    #[asn(optional(integer(0..7)))] pub f4: Option<u8>,
}

impl Ts5domdon {
    pub const fn f0_min() -> u8 {
        0
    }

    pub const fn f0_max() -> u8 {
        7
    }

    pub const fn f1_min() -> u8 {
        0
    }

    pub const fn f1_max() -> u8 {
        7
    }

    pub const fn f2_min() -> u8 {
        0
    }

    pub const fn f2_max() -> u8 {
        7
    }

    pub const fn f3_min() -> u8 {
        0
    }

    pub const fn f3_max() -> u8 {
        7
    }

    pub const fn f4_min() -> u8 {
        0
    }

    pub const fn f4_max() -> u8 {
        7
    }
}

#[asn(sequence, extensible_after(f0))]

#[derive(Default, Debug, Clone, PartialEq, Hash)]
pub struct Ts5domdoe0 {
    #[asn(default(integer(0..7), 5))] pub f0: u8,
    #[asn(optional(integer(0..7)))] pub f1: Option<u8>,
    #[asn(optional(integer(0..7)))] pub f2: Option<u8>,
    #[asn(default(integer(0..7), 5))] pub f3: u8,
    #[asn(optional(integer(0..7)))] pub f4: Option<u8>,
}

impl Ts5domdoe0 {
    pub const fn f0_min() -> u8 {
        0
    }

    pub const fn f0_max() -> u8 {
        7
    }

    pub const fn f1_min() -> u8 {
        0
    }

    pub const fn f1_max() -> u8 {
        7
    }

    pub const fn f2_min() -> u8 {
        0
    }

    pub const fn f2_max() -> u8 {
        7
    }

    pub const fn f3_min() -> u8 {
        0
    }

    pub const fn f3_max() -> u8 {
        7
    }

    pub const fn f4_min() -> u8 {
        0
    }

    pub const fn f4_max() -> u8 {
        7
    }
}

#[asn(sequence, extensible_after(f0))]

#[derive(Default, Debug, Clone, PartialEq, Hash)]
pub struct Ts5domdoe1 {
    #[asn(default(integer(0..7), 5))] pub f0: u8,
    #[asn(optional(integer(0..7)))] pub f1: Option<u8>,
    #[asn(optional(integer(0..7)))] pub f2: Option<u8>,
    #[asn(default(integer(0..7), 5))] pub f3: u8,
    #[asn(optional(integer(0..7)))] pub f4: Option<u8>,
}

impl Ts5domdoe1 {
    pub const fn f0_min() -> u8 {
        0
    }

    pub const fn f0_max() -> u8 {
        7
    }

    pub const fn f1_min() -> u8 {
        0
    }

    pub const fn f1_max() -> u8 {
        7
    }

    pub const fn f2_min() -> u8 {
        0
    }

    pub const fn f2_max() -> u8 {
        7
    }

    pub const fn f3_min() -> u8 {
        0
    }

    pub const fn f3_max() -> u8 {
        7
    }

    pub const fn f4_min() -> u8 {
        0
    }

    pub const fn f4_max() -> u8 {
        7
    }
}

#[asn(sequence, extensible_after(f1))]

#[derive(Default, Debug, Clone, PartialEq, Hash)]
pub struct Ts5domdoe2 {
    #[asn(default(integer(0..7), 5))] pub f0: u8,
    #[asn(optional(integer(0..7)))] pub f1: Option<u8>,
    #[asn(optional(integer(0..7)))] pub f2: Option<u8>,
    #[asn(default(integer(0..7), 5))] pub f3: u8,
    #[asn(optional(integer(0..7)))] pub f4: Option<u8>,
}

impl Ts5domdoe2 {
    pub const fn f0_min() -> u8 {
        0
    }

    pub const fn f0_max() -> u8 {
        7
    }

    pub const fn f1_min() -> u8 {
        0
    }

    pub const fn f1_max() -> u8 {
        7
    }

    pub const fn f2_min() -> u8 {
        0
    }

    pub const fn f2_max() -> u8 {
        7
    }

    pub const fn f3_min() -> u8 {
        0
    }

    pub const fn f3_max() -> u8 {
        7
    }

    pub const fn f4_min() -> u8 {
        0
    }

    pub const fn f4_max() -> u8 {
        7
    }
}

#[asn(sequence, extensible_after(f2))]

#[derive(Default, Debug, Clone, PartialEq, Hash)]
pub struct Ts5domdoe3 {
    #[asn(default(integer(0..7), 5))] pub f0: u8,
    #[asn(optional(integer(0..7)))] pub f1: Option<u8>,
    #[asn(integer(0..7))] pub f2: u8,
    #[asn(default(integer(0..7), 5))] pub f3: u8,
    #[asn(optional(integer(0..7)))] pub f4: Option<u8>,
}

impl Ts5domdoe3 {
    pub const fn f0_min() -> u8 {
        0
    }

    pub const fn f0_max() -> u8 {
        7
    }

    pub const fn f1_min() -> u8 {
        0
    }

    pub const fn f1_max() -> u8 {
        7
    }

    pub const fn f2_min() -> u8 {
        0
    }

    pub const fn f2_max() -> u8 {
        7
    }

    pub const fn f3_min() -> u8 {
        0
    }

    pub const fn f3_max() -> u8 {
        7
    }

    pub const fn f4_min() -> u8 {
        0
    }

    pub const fn f4_max() -> u8 {
        7
    }
}

#[asn(sequence, extensible_after(f3))]

#[derive(Default, Debug, Clone, PartialEq, Hash)]
pub struct Ts5domdoe4 {
    #[asn(default(integer(0..7), 5))] pub f0: u8,
    #[asn(optional(integer(0..7)))] pub f1: Option<u8>,
    #[asn(integer(0..7))] pub f2: u8,
    #[asn(default(integer(0..7), 5))] pub f3: u8,
    #[asn(optional(integer(0..7)))] pub f4: Option<u8>,
}

impl Ts5domdoe4 {
    pub const fn f0_min() -> u8 {
        0
    }

    pub const fn f0_max() -> u8 {
        7
    }

    pub const fn f1_min() -> u8 {
        0
    }

    pub const fn f1_max() -> u8 {
        7
    }

    pub const fn f2_min() -> u8 {
        0
    }

    pub const fn f2_max() -> u8 {
        7
    }

    pub const fn f3_min() -> u8 {
        0
    }

    pub const fn f3_max() -> u8 {
        7
    }

    pub const fn f4_min() -> u8 {
        0
    }

    pub const fn f4_max() -> u8 {
        7
    }
}

#[asn(sequence, extensible_after(f4))]

#[derive(Default, Debug, Clone, PartialEq, Hash)]
pub struct Ts5domdoe5 {
    #[asn(default(integer(0..7), 5))] pub f0: u8,
    #[asn(optional(integer(0..7)))] pub f1: Option<u8>,
    #[asn(integer(0..7))] pub f2: u8,
    #[asn(default(integer(0..7), 5))] pub f3: u8,
    #[asn(optional(integer(0..7)))] pub f4: Option<u8>,
}

impl Ts5domdoe5 {
    pub const fn f0_min() -> u8 {
        0
    }

    pub const fn f0_max() -> u8 {
        7
    }

    pub const fn f1_min() -> u8 {
        0
    }

    pub const fn f1_max() -> u8 {
        7
    }

    pub const fn f2_min() -> u8 {
        0
    }

    pub const fn f2_max() -> u8 {
        7
    }

    pub const fn f3_min() -> u8 {
        0
    }

    pub const fn f3_max() -> u8 {
        7
    }

    pub const fn f4_min() -> u8 {
        0
    }

    pub const fn f4_max() -> u8 {
        7
    }
}

#[asn(sequence)]

#[derive(Default, Debug, Clone, PartialEq, Hash)]
pub struct Ts5mdmdon {
    #[asn(integer(0..7))] pub f0: u8,
    #[asn(default(integer(0..7), 5))] pub f1: u8,
    #[asn(integer(0..7))] pub f2: u8,
    #[asn(default(integer(0..7), 5))] pub f3: u8,
    #[asn(optional(integer(0..7)))] pub f4: Option<u8>,
}

impl Ts5mdmdon {
    pub const fn f0_min() -> u8 {
        0
    }

    pub const fn f0_max() -> u8 {
        7
    }

    pub const fn f1_min() -> u8 {
        0
    }

    pub const fn f1_max() -> u8 {
        7
    }

    pub const fn f2_min() -> u8 {
        0
    }

    pub const fn f2_max() -> u8 {
        7
    }

    pub const fn f3_min() -> u8 {
        0
    }

    pub const fn f3_max() -> u8 {
        7
    }

    pub const fn f4_min() -> u8 {
        0
    }

    pub const fn f4_max() -> u8 {
        7
    }
}

#[asn(sequence, extensible_after(f0))]

#[derive(Default, Debug, Clone, PartialEq, Hash)]
pub struct Ts5mdmdoe0 {
    #[asn(integer(0..7))] pub f0: u8,
    #[asn(default(integer(0..7), 5))] pub f1: u8,
    #[asn(optional(integer(0..7)))] pub f2: Option<u8>,
    #[asn(default(integer(0..7), 5))] pub f3: u8,
    #[asn(optional(integer(0..7)))] pub f4: Option<u8>,
}

impl Ts5mdmdoe0 {
    pub const fn f0_min() -> u8 {
        0
    }

    pub const fn f0_max() -> u8 {
        7
    }

    pub const fn f1_min() -> u8 {
        0
    }

    pub const fn f1_max() -> u8 {
        7
    }

    pub const fn f2_min() -> u8 {
        0
    }

    pub const fn f2_max() -> u8 {
        7
    }

    pub const fn f3_min() -> u8 {
        0
    }

    pub const fn f3_max() -> u8 {
        7
    }

    pub const fn f4_min() -> u8 {
        0
    }

    pub const fn f4_max() -> u8 {
        7
    }
}

#[asn(sequence, extensible_after(f0))]

#[derive(Default, Debug, Clone, PartialEq, Hash)]
pub struct Ts5mdmdoe1 {
    #[asn(integer(0..7))] pub f0: u8,
    #[asn(default(integer(0..7), 5))] pub f1: u8,
    #[asn(optional(integer(0..7)))] pub f2: Option<u8>,
    #[asn(default(integer(0..7), 5))] pub f3: u8,
    #[asn(optional(integer(0..7)))] pub f4: Option<u8>,
}

impl Ts5mdmdoe1 {
    pub const fn f0_min() -> u8 {
        0
    }

    pub const fn f0_max() -> u8 {
        7
    }

    pub const fn f1_min() -> u8 {
        0
    }

    pub const fn f1_max() -> u8 {
        7
    }

    pub const fn f2_min() -> u8 {
        0
    }

    pub const fn f2_max() -> u8 {
        7
    }

    pub const fn f3_min() -> u8 {
        0
    }

    pub const fn f3_max() -> u8 {
        7
    }

    pub const fn f4_min() -> u8 {
        0
    }

    pub const fn f4_max() -> u8 {
        7
    }
}

#[asn(sequence, extensible_after(f1))]

#[derive(Default, Debug, Clone, PartialEq, Hash)]
pub struct Ts5mdmdoe2 {
    #[asn(integer(0..7))] pub f0: u8,
    #[asn(default(integer(0..7), 5))] pub f1: u8,
    #[asn(optional(integer(0..7)))] pub f2: Option<u8>,
    #[asn(default(integer(0..7), 5))] pub f3: u8,
    #[asn(optional(integer(0..7)))] pub f4: Option<u8>,
}

impl Ts5mdmdoe2 {
    pub const fn f0_min() -> u8 {
        0
    }

    pub const fn f0_max() -> u8 {
        7
    }

    pub const fn f1_min() -> u8 {
        0
    }

    pub const fn f1_max() -> u8 {
        7
    }

    pub const fn f2_min() -> u8 {
        0
    }

    pub const fn f2_max() -> u8 {
        7
    }

    pub const fn f3_min() -> u8 {
        0
    }

    pub const fn f3_max() -> u8 {
        7
    }

    pub const fn f4_min() -> u8 {
        0
    }

    pub const fn f4_max() -> u8 {
        7
    }
}

#[asn(sequence, extensible_after(f2))]

#[derive(Default, Debug, Clone, PartialEq, Hash)]
pub struct Ts5mdmdoe3 {
    #[asn(integer(0..7))] pub f0: u8,
    #[asn(default(integer(0..7), 5))] pub f1: u8,
    #[asn(integer(0..7))] pub f2: u8,
    #[asn(default(integer(0..7), 5))] pub f3: u8,
    #[asn(optional(integer(0..7)))] pub f4: Option<u8>,
}

impl Ts5mdmdoe3 {
    pub const fn f0_min() -> u8 {
        0
    }

    pub const fn f0_max() -> u8 {
        7
    }

    pub const fn f1_min() -> u8 {
        0
    }

    pub const fn f1_max() -> u8 {
        7
    }

    pub const fn f2_min() -> u8 {
        0
    }

    pub const fn f2_max() -> u8 {
        7
    }

    pub const fn f3_min() -> u8 {
        0
    }

    pub const fn f3_max() -> u8 {
        7
    }

    pub const fn f4_min() -> u8 {
        0
    }

    pub const fn f4_max() -> u8 {
        7
    }
}

#[asn(sequence, extensible_after(f3))]

#[derive(Default, Debug, Clone, PartialEq, Hash)]
pub struct Ts5mdmdoe4 {
    #[asn(integer(0..7))] pub f0: u8,
    #[asn(default(integer(0..7), 5))] pub f1: u8,
    #[asn(integer(0..7))] pub f2: u8,
    #[asn(default(integer(0..7), 5))] pub f3: u8,
    #[asn(optional(integer(0..7)))] pub f4: Option<u8>,
}

impl Ts5mdmdoe4 {
    pub const fn f0_min() -> u8 {
        0
    }

    pub const fn f0_max() -> u8 {
        7
    }

    pub const fn f1_min() -> u8 {
        0
    }

    pub const fn f1_max() -> u8 {
        7
    }

    pub const fn f2_min() -> u8 {
        0
    }

    pub const fn f2_max() -> u8 {
        7
    }

    pub const fn f3_min() -> u8 {
        0
    }

    pub const fn f3_max() -> u8 {
        7
    }

    pub const fn f4_min() -> u8 {
        0
    }

    pub const fn f4_max() -> u8 {
        7
    }
}

#[asn(sequence, extensible_after(f4))]

#[derive(Default, Debug, Clone, PartialEq, Hash)]
pub struct Ts5mdmdoe5 {
    #[asn(integer(0..7))] pub f0: u8,
    #[asn(default(integer(0..7), 5))] pub f1: u8,
    #[asn(integer(0..7))] pub f2: u8,
    #[asn(default(integer(0..7), 5))] pub f3: u8,
    #[asn(optional(integer(0..7)))] pub f4: Option<u8>,
}

impl Ts5mdmdoe5 {
    pub const fn f0_min() -> u8 {
        0
    }

    pub const fn f0_max() -> u8 {
        7
    }

    pub const fn f1_min() -> u8 {
        0
    }

    pub const fn f1_max() -> u8 {
        7
    }

    pub const fn f2_min() -> u8 {
        0
    }

    pub const fn f2_max() -> u8 {
        7
    }

    pub const fn f3_min() -> u8 {
        0
    }

    pub const fn f3_max() -> u8 {
        7
    }

    pub const fn f4_min() -> u8 {
        0
    }

    pub const fn f4_max() -> u8 {
        7
    }
}

#[asn(sequence)]

#[derive(Default, Debug, Clone, PartialEq, Hash)]
pub struct Ts5odmdon {
    #[asn(optional(integer(0..7)))] pub f0: Option<u8>,
    #[asn(default(integer(0..7), 5))] pub f1: u8,
    #[asn(integer(0..7))] pub f2: u8,
    #[asn(default(integer(0..7), 5))] pub f3: u8,
    #[asn(optional(integer(0..7)))] pub f4: Option<u8>,
}

impl Ts5odmdon {
    pub const fn f0_min() -> u8 {
        0
    }

    pub const fn f0_max() -> u8 {
        7
    }

    pub const fn f1_min() -> u8 {
        0
    }

    pub const fn f1_max() -> u8 {
        7
    }

    pub const fn f2_min() -> u8 {
        0
    }

    pub const fn f2_max() -> u8 {
        7
    }

    pub const fn f3_min() -> u8 {
        0
    }

    pub const fn f3_max() -> u8 {
        7
    }

    pub const fn f4_min() -> u8 {
        0
    }

    pub const fn f4_max() -> u8 {
        7
    }
}

#[asn(sequence, extensible_after(f0))]

#[derive(Default, Debug, Clone, PartialEq, Hash)]
pub struct Ts5odmdoe0 {
    #[asn(optional(integer(0..7)))] pub f0: Option<u8>,
    #[asn(default(integer(0..7), 5))] pub f1: u8,
    #[asn(optional(integer(0..7)))] pub f2: Option<u8>,
    #[asn(default(integer(0..7), 5))] pub f3: u8,
    #[asn(optional(integer(0..7)))] pub f4: Option<u8>,
}

impl Ts5odmdoe0 {
    pub const fn f0_min() -> u8 {
        0
    }

    pub const fn f0_max() -> u8 {
        7
    }

    pub const fn f1_min() -> u8 {
        0
    }

    pub const fn f1_max() -> u8 {
        7
    }

    pub const fn f2_min() -> u8 {
        0
    }

    pub const fn f2_max() -> u8 {
        7
    }

    pub const fn f3_min() -> u8 {
        0
    }

    pub const fn f3_max() -> u8 {
        7
    }

    pub const fn f4_min() -> u8 {
        0
    }

    pub const fn f4_max() -> u8 {
        7
    }
}

#[asn(sequence, extensible_after(f0))]

#[derive(Default, Debug, Clone, PartialEq, Hash)]
pub struct Ts5odmdoe1 {
    #[asn(optional(integer(0..7)))] pub f0: Option<u8>,
    #[asn(default(integer(0..7), 5))] pub f1: u8,
    #[asn(optional(integer(0..7)))] pub f2: Option<u8>,
    #[asn(default(integer(0..7), 5))] pub f3: u8,
    #[asn(optional(integer(0..7)))] pub f4: Option<u8>,
}

impl Ts5odmdoe1 {
    pub const fn f0_min() -> u8 {
        0
    }

    pub const fn f0_max() -> u8 {
        7
    }

    pub const fn f1_min() -> u8 {
        0
    }

    pub const fn f1_max() -> u8 {
        7
    }

    pub const fn f2_min() -> u8 {
        0
    }

    pub const fn f2_max() -> u8 {
        7
    }

    pub const fn f3_min() -> u8 {
        0
    }

    pub const fn f3_max() -> u8 {
        7
    }

    pub const fn f4_min() -> u8 {
        0
    }

    pub const fn f4_max() -> u8 {
        7
    }
}

#[asn(sequence, extensible_after(f1))]

#[derive(Default, Debug, Clone, PartialEq, Hash)]
pub struct Ts5odmdoe2 {
    #[asn(optional(integer(0..7)))] pub f0: Option<u8>,
    #[asn(default(integer(0..7), 5))] pub f1: u8,
    #[asn(optional(integer(0..7)))] pub f2: Option<u8>,
    #[asn(default(integer(0..7), 5))] pub f3: u8,
    #[asn(optional(integer(0..7)))] pub f4: Option<u8>,
}

impl Ts5odmdoe2 {
    pub const fn f0_min() -> u8 {
        0
    }

    pub const fn f0_max() -> u8 {
        7
    }

    pub const fn f1_min() -> u8 {
        0
    }

    pub const fn f1_max() -> u8 {
        7
    }

    pub const fn f2_min() -> u8 {
        0
    }

    pub const fn f2_max() -> u8 {
        7
    }

    pub const fn f3_min() -> u8 {
        0
    }

    pub const fn f3_max() -> u8 {
        7
    }

    pub const fn f4_min() -> u8 {
        0
    }

    pub const fn f4_max() -> u8 {
        7
    }
}

#[asn(sequence, extensible_after(f2))]

#[derive(Default, Debug, Clone, PartialEq, Hash)]
pub struct Ts5odmdoe3 {
    #[asn(optional(integer(0..7)))] pub f0: Option<u8>,
    #[asn(default(integer(0..7), 5))] pub f1: u8,
    #[asn(integer(0..7))] pub f2: u8,
    #[asn(default(integer(0..7), 5))] pub f3: u8,
    #[asn(optional(integer(0..7)))] pub f4: Option<u8>,
}

impl Ts5odmdoe3 {
    pub const fn f0_min() -> u8 {
        0
    }

    pub const fn f0_max() -> u8 {
        7
    }

    pub const fn f1_min() -> u8 {
        0
    }

    pub const fn f1_max() -> u8 {
        7
    }

    pub const fn f2_min() -> u8 {
        0
    }

    pub const fn f2_max() -> u8 {
        7
    }

    pub const fn f3_min() -> u8 {
        0
    }

    pub const fn f3_max() -> u8 {
        7
    }

    pub const fn f4_min() -> u8 {
        0
    }

    pub const fn f4_max() -> u8 {
        7
    }
}

#[asn(sequence, extensible_after(f3))]

#[derive(Default, Debug, Clone, PartialEq, Hash)]
pub struct Ts5odmdoe4 {
    #[asn(optional(integer(0..7)))] pub f0: Option<u8>,
    #[asn(default(integer(0..7), 5))] pub f1: u8,
    #[asn(integer(0..7))] pub f2: u8,
    #[asn(default(integer(0..7), 5))] pub f3: u8,
    #[asn(optional(integer(0..7)))] pub f4: Option<u8>,
}

impl Ts5odmdoe4 {
    pub const fn f0_min() -> u8 {
        0
    }

    pub const fn f0_max() -> u8 {
        7
    }

    pub const fn f1_min() -> u8 {
        0
    }

    pub const fn f1_max() -> u8 {
        7
    }

    pub const fn f2_min() -> u8 {
        0
    }

    pub const fn f2_max() -> u8 {
        7
    }

    pub const fn f3_min() -> u8 {
        0
    }

    pub const fn f3_max() -> u8 {
        7
    }

    pub const fn f4_min() -> u8 {
        0
    }

    pub const fn f4_max() -> u8 {
        7
    }
}

#[asn(sequence, extensible_after(f4))]

#[derive(Default, Debug, Clone, PartialEq, Hash)]
pub struct Ts5odmdoe5 {
    #[asn(optional(integer(0..7)))] pub f0: Option<u8>,
    #[asn(default(integer(0..7), 5))] pub f1: u8,
    #[asn(integer(0..7))] pub f2: u8,
    #[asn(default(integer(0..7), 5))] pub f3: u8,
    #[asn(optional(integer(0..7)))] pub f4: Option<u8>,
}

impl Ts5odmdoe5 {
    pub const fn f0_min() -> u8 {
        0
    }

    pub const fn f0_max() -> u8 {
        7
    }

    pub const fn f1_min() -> u8 {
        0
    }

    pub const fn f1_max() -> u8 {
        7
    }

    pub const fn f2_min() -> u8 {
        0
    }

    pub const fn f2_max() -> u8 {
        7
    }

    pub const fn f3_min() -> u8 {
        0
    }

    pub const fn f3_max() -> u8 {
        7
    }

    pub const fn f4_min() -> u8 {
        0
    }

    pub const fn f4_max() -> u8 {
        7
    }
}

#[asn(sequence)]

#[derive(Default, Debug, Clone, PartialEq, Hash)]
pub struct Ts5ddmdon {
    #[asn(default(integer(0..7), 5))] pub f0: u8,
    #[asn(default(integer(0..7), 5))] pub f1: u8,
    #[asn(integer(0..7))] pub f2: u8,
    #[asn(default(integer(0..7), 5))] pub f3: u8,
    #[asn(optional(integer(0..7)))] pub f4: Option<u8>,
}

impl Ts5ddmdon {
    pub const fn f0_min() -> u8 {
        0
    }

    pub const fn f0_max() -> u8 {
        7
    }

    pub const fn f1_min() -> u8 {
        0
    }

    pub const fn f1_max() -> u8 {
        7
    }

    pub const fn f2_min() -> u8 {
        0
    }

    pub const fn f2_max() -> u8 {
        7
    }

    pub const fn f3_min() -> u8 {
        0
    }

    pub const fn f3_max() -> u8 {
        7
    }

    pub const fn f4_min() -> u8 {
        0
    }

    pub const fn f4_max() -> u8 {
        7
    }
}

#[asn(sequence, extensible_after(f0))]

#[derive(Default, Debug, Clone, PartialEq, Hash)]
pub struct Ts5ddmdoe0 {
    #[asn(default(integer(0..7), 5))] pub f0: u8,
    #[asn(default(integer(0..7), 5))] pub f1: u8,
    #[asn(optional(integer(0..7)))] pub f2: Option<u8>,
    #[asn(default(integer(0..7), 5))] pub f3: u8,
    #[asn(optional(integer(0..7)))] pub f4: Option<u8>,
}

impl Ts5ddmdoe0 {
    pub const fn f0_min() -> u8 {
        0
    }

    pub const fn f0_max() -> u8 {
        7
    }

    pub const fn f1_min() -> u8 {
        0
    }

    pub const fn f1_max() -> u8 {
        7
    }

    pub const fn f2_min() -> u8 {
        0
    }

    pub const fn f2_max() -> u8 {
        7
    }

    pub const fn f3_min() -> u8 {
        0
    }

    pub const fn f3_max() -> u8 {
        7
    }

    pub const fn f4_min() -> u8 {
        0
    }

    pub const fn f4_max() -> u8 {
        7
    }
}

#[asn(sequence, extensible_after(f0))]

#[derive(Default, Debug, Clone, PartialEq, Hash)]
pub struct Ts5ddmdoe1 {
    #[asn(default(integer(0..7), 5))] pub f0: u8,
    #[asn(default(integer(0..7), 5))] pub f1: u8,
    #[asn(optional(integer(0..7)))] pub f2: Option<u8>,
    #[asn(default(integer(0..7), 5))] pub f3: u8,
    #[asn(optional(integer(0..7)))] pub f4: Option<u8>,
}

impl Ts5ddmdoe1 {
    pub const fn f0_min() -> u8 {
        0
    }

    pub const fn f0_max() -> u8 {
        7
    }

    pub const fn f1_min() -> u8 {
        0
    }

    pub const fn f1_max() -> u8 {
        7
    }

    pub const fn f2_min() -> u8 {
        0
    }

    pub const fn f2_max() -> u8 {
        7
    }

    pub const fn f3_min() -> u8 {
        0
    }

    pub const fn f3_max() -> u8 {
        7
    }

    pub const fn f4_min() -> u8 {
        0
    }

    pub const fn f4_max() -> u8 {
        7
    }
}

#[asn(sequence, extensible_after(f1))]

#[derive(Default, Debug, Clone, PartialEq, Hash)]
pub struct Ts5ddmdoe2 {
    #[asn(default(integer(0..7), 5))] pub f0: u8,
    #[asn(default(integer(0..7), 5))] pub f1: u8,
    #[asn(optional(integer(0..7)))] pub f2: Option<u8>,
    #[asn(default(integer(0..7), 5))] pub f3: u8,
    #[asn(optional(integer(0..7)))] pub f4: Option<u8>,
}

impl Ts5ddmdoe2 {
    pub const fn f0_min() -> u8 {
        0
    }

    pub const fn f0_max() -> u8 {
        7
    }

    pub const fn f1_min() -> u8 {
        0
    }

    pub const fn f1_max() -> u8 {
        7
    }

    pub const fn f2_min() -> u8 {
        0
    }

    pub const fn f2_max() -> u8 {
        7
    }

    pub const fn f3_min() -> u8 {
        0
    }

    pub const fn f3_max() -> u8 {
        7
    }

    pub const fn f4_min() -> u8 {
        0
    }

    pub const fn f4_max() -> u8 {
        7
    }
}

#[asn(sequence, extensible_after(f2))]

#[derive(Default, Debug, Clone, PartialEq, Hash)]
pub struct Ts5ddmdoe3 {
    #[asn(default(integer(0..7), 5))] pub f0: u8,
    #[asn(default(integer(0..7), 5))] pub f1: u8,
    #[asn(integer(0..7))] pub f2: u8,
    #[asn(default(integer(0..7), 5))] pub f3: u8,
    #[asn(optional(integer(0..7)))] pub f4: Option<u8>,
}

impl Ts5ddmdoe3 {
    pub const fn f0_min() -> u8 {
        0
    }

    pub const fn f0_max() -> u8 {
        7
    }

    pub const fn f1_min() -> u8 {
        0
    }

    pub const fn f1_max() -> u8 {
        7
    }

    pub const fn f2_min() -> u8 {
        0
    }

    pub const fn f2_max() -> u8 {
        7
    }

    pub const fn f3_min() -> u8 {
        0
    }

    pub const fn f3_max() -> u8 {
        7
    }

    pub const fn f4_min() -> u8 {
        0
    }

    pub const fn f4_max() -> u8 {
        7
    }
}

#[asn(sequence, extensible_after(f3))]

#[derive(Default, Debug, Clone, PartialEq, Hash)]
pub struct Ts5ddmdoe4 {
    #[asn(default(integer(0..7), 5))] pub f0: u8,
    #[asn(default(integer(0..7), 5))] pub f1: u8,
    #[asn(integer(0..7))] pub f2: u8,
    #[asn(default(integer(0..7), 5))] pub f3: u8,
    #[asn(optional(integer(0..7)))] pub f4: Option<u8>,
}

impl Ts5ddmdoe4 {
    pub const fn f0_min() -> u8 {
        0
    }

    pub const fn f0_max() -> u8 {
        7
    }

    pub const fn f1_min() -> u8 {
        0
    }

    pub const fn f1_max() -> u8 {
        7
    }

    pub const fn f2_min() -> u8 {
        0
    }

    pub const fn f2_max() -> u8 {
        7
    }

    pub const fn f3_min() -> u8 {
        0
    }

    pub const fn f3_max() -> u8 {
        7
    }

    pub const fn f4_min() -> u8 {
        0
    }

    pub const fn f4_max() -> u8 {
        7
    }
}

#[asn(sequence, extensible_after(f4))]

#[derive(Default, Debug, Clone, PartialEq, Hash)]
pub struct Ts5ddmdoe5 {
    #[asn(default(integer(0..7), 5))] pub f0: u8,
    #[asn(default(integer(0..7), 5))] pub f1: u8,
    #[asn(integer(0..7))] pub f2: u8,
    #[asn(default(integer(0..7), 5))] pub f3: u8,
    #[asn(optional(integer(0..7)))] pub f4: Option<u8>,
}

impl Ts5ddmdoe5 {
    pub const fn f0_min() -> u8 {
        0
    }

    pub const fn f0_max() -> u8 {
        7
    }

    pub const fn f1_min() -> u8 {
        0
    }

    pub const fn f1_max() -> u8 {
        7
    }

    pub const fn f2_min() -> u8 {
        0
    }

    pub const fn f2_max() -> u8 {
        7
    }

    pub const fn f3_min() -> u8 {
        0
    }

    pub const fn f3_max() -> u8 {
        7
    }

    pub const fn f4_min() -> u8 {
        0
    }

    pub const fn f4_max() -> u8 {
        7
    }
}

#[asn(sequence)]

#[derive(Default, Debug, Clone, PartialEq, Hash)]
pub struct Ts5mmodon {
    #[asn(integer(0..7))] pub f0: u8,
    #[asn(integer(0..7))] pub f1: u8,
    #[asn(optional(integer(0..7)))] pub f2: Option<u8>,
    #[asn(default(integer(0..7), 5))] pub f3: u8,
    #[asn(optional(integer(0..7)))] pub f4: Option<u8>,
}

impl Ts5mmodon {
    pub const fn f0_min() -> u8 {
        0
    }

    pub const fn f0_max() -> u8 {
        7
    }

    pub const fn f1_min() -> u8 {
        0
    }

    pub const fn f1_max() -> u8 {
        7
    }

    pub const fn f2_min() -> u8 {
        0
    }

    pub const fn f2_max() -> u8 {
        7
    }

    pub const fn f3_min() -> u8 {
        0
    }

    pub const fn f3_max() -> u8 {
        7
    }

    pub const fn f4_min() -> u8 {
        0
    }

    pub const fn f4_max() -> u8 {
        7
    }
}

#[asn(sequence, extensible_after(f0))]

#[derive(Default, Debug, Clone, PartialEq, Hash)]
pub struct Ts5mmodoe0 {
    #[asn(integer(0..7))] pub f0: u8,
    #[asn(optional(integer(0..7)))] pub f1: Option<u8>,
    #[asn(optional(integer(0..7)))] pub f2: Option<u8>,
    #[asn(default(integer(0..7), 5))] pub f3: u8,
    #[asn(optional(integer(0..7)))] pub f4: Option<u8>,
}

impl Ts5mmodoe0 {
    pub const fn f0_min() -> u8 {
        0
    }

    pub const fn f0_max() -> u8 {
        7
    }

    pub const fn f1_min() -> u8 {
        0
    }

    pub const fn f1_max() -> u8 {
        7
    }

    pub const fn f2_min() -> u8 {
        0
    }

    pub const fn f2_max() -> u8 {
        7
    }

    pub const fn f3_min() -> u8 {
        0
    }

    pub const fn f3_max() -> u8 {
        7
    }

    pub const fn f4_min() -> u8 {
        0
    }

    pub const fn f4_max() -> u8 {
        7
    }
}

#[asn(sequence, extensible_after(f0))]

#[derive(Default, Debug, Clone, PartialEq, Hash)]
pub struct Ts5mmodoe1 {
    #[asn(integer(0..7))] pub f0: u8,
    #[asn(optional(integer(0..7)))] pub f1: Option<u8>,
    #[asn(optional(integer(0..7)))] pub f2: Option<u8>,
    #[asn(default(integer(0..7), 5))] pub f3: u8,
    #[asn(optional(integer(0..7)))] pub f4: Option<u8>,
}

impl Ts5mmodoe1 {
    pub const fn f0_min() -> u8 {
        0
    }

    pub const fn f0_max() -> u8 {
        7
    }

    pub const fn f1_min() -> u8 {
        0
    }

    pub const fn f1_max() -> u8 {
        7
    }

    pub const fn f2_min() -> u8 {
        0
    }

    pub const fn f2_max() -> u8 {
        7
    }

    pub const fn f3_min() -> u8 {
        0
    }

    pub const fn f3_max() -> u8 {
        7
    }

    pub const fn f4_min() -> u8 {
        0
    }

    pub const fn f4_max() -> u8 {
        7
    }
}

#[asn(sequence, extensible_after(f1))]

#[derive(Default, Debug, Clone, PartialEq, Hash)]
pub struct Ts5mmodoe2 {
    #[asn(integer(0..7))] pub f0: u8,
    #[asn(integer(0..7))] pub f1: u8,
    #[asn(optional(integer(0..7)))] pub f2: Option<u8>,
    #[asn(default(integer(0..7), 5))] pub f3: u8,
    #[asn(optional(integer(0..7)))] pub f4: Option<u8>,
}

impl Ts5mmodoe2 {
    pub const fn f0_min() -> u8 {
        0
    }

    pub const fn f0_max() -> u8 {
        7
    }

    pub const fn f1_min() -> u8 {
        0
    }

    pub const fn f1_max() -> u8 {
        7
    }

    pub const fn f2_min() -> u8 {
        0
    }

    pub const fn f2_max() -> u8 {
        7
    }

    pub const fn f3_min() -> u8 {
        0
    }

    pub const fn f3_max() -> u8 {
        7
    }

    pub const fn f4_min() -> u8 {
        0
    }

    pub const fn f4_max() -> u8 {
        7
    }
}

#[asn(sequence, extensible_after(f2))]

#[derive(Default, Debug, Clone, PartialEq, Hash)]
pub struct Ts5mmodoe3 {
    #[asn(integer(0..7))] pub f0: u8,
    #[asn(integer(0..7))] pub f1: u8,
    #[asn(optional(integer(0..7)))] pub f2: Option<u8>,
    #[asn(default(integer(0..7), 5))] pub f3: u8,
    #[asn(optional(integer(0..7)))] pub f4: Option<u8>,
}

impl Ts5mmodoe3 {
    pub const fn f0_min() -> u8 {
        0
    }

    pub const fn f0_max() -> u8 {
        7
    }

    pub const fn f1_min() -> u8 {
        0
    }

    pub const fn f1_max() -> u8 {
        7
    }

    pub const fn f2_min() -> u8 {
        0
    }

    pub const fn f2_max() -> u8 {
        7
    }

    pub const fn f3_min() -> u8 {
        0
    }

    pub const fn f3_max() -> u8 {
        7
    }

    pub const fn f4_min() -> u8 {
        0
    }

    pub const fn f4_max() -> u8 {
        7
    }
}

#[asn(sequence, extensible_after(f3))]

#[derive(Default, Debug, Clone, PartialEq, Hash)]
pub struct Ts5mmodoe4 {
    #[asn(integer(0..7))] pub f0: u8,
    #[asn(integer(0..7))] pub f1: u8,
    #[asn(optional(integer(0..7)))] pub f2: Option<u8>,
    #[asn(default(integer(0..7), 5))] pub f3: u8,
    #[asn(optional(integer(0..7)))] pub f4: Option<u8>,
}

impl Ts5mmodoe4 {
    pub const fn f0_min() -> u8 {
        0
    }

    pub const fn f0_max() -> u8 {
        7
    }

    pub const fn f1_min() -> u8 {
        0
    }

    pub const fn f1_max() -> u8 {
        7
    }

    pub const fn f2_min() -> u8 {
        0
    }

    pub const fn f2_max() -> u8 {
        7
    }

    pub const fn f3_min() -> u8 {
        0
    }

    pub const fn f3_max() -> u8 {
        7
    }

    pub const fn f4_min() -> u8 {
        0
    }

    pub const fn f4_max() -> u8 {
        7
    }
}

#[asn(sequence, extensible_after(f4))]

#[derive(Default, Debug, Clone, PartialEq, Hash)]
pub struct Ts5mmodoe5 {
    #[asn(integer(0..7))] pub f0: u8,
    #[asn(integer(0..7))] pub f1: u8,
    #[asn(optional(integer(0..7)))] pub f2: Option<u8>,
    #[asn(default(integer(0..7), 5))] pub f3: u8,
    #[asn(optional(integer(0..7)))] pub f4: Option<u8>,
}

impl Ts5mmodoe5 {
    pub const fn f0_min() -> u8 {
        0
    }

    pub const fn f0_max() -> u8 {
        7
    }

    pub const fn f1_min() -> u8 {
        0
    }

    pub const fn f1_max() -> u8 {
        7
    }

    pub const fn f2_min() -> u8 {
        0
    }

    pub const fn f2_max() -> u8 {
        7
    }

    pub const fn f3_min() -> u8 {
        0
    }

    pub const fn f3_max() -> u8 {
        7
    }

    pub const fn f4_min() -> u8 {
        0
    }

    pub const fn f4_max() -> u8 {
        7
    }
}

#[asn(sequence)]

#[derive(Default, Debug, Clone, PartialEq, Hash)]
pub struct Ts5omodon {
    #[asn(optional(integer(0..7)))] pub f0: Option<u8>,
    #[asn(integer(0..7))] pub f1: u8,
    #[asn(optional(integer(0..7)))] pub f2: Option<u8>,
    #[asn(default(integer(0..7), 5))] pub f3: u8,
    #[asn(optional(integer(0..7)))] pub f4: Option<u8>,
}

impl Ts5omodon {
    pub const fn f0_min() -> u8 {
        0
    }

    pub const fn f0_max() -> u8 {
        7
    }

    pub const fn f1_min() -> u8 {
        0
    }

    pub const fn f1_max() -> u8 {
        7
    }

    pub const fn f2_min() -> u8 {
        0
    }

    pub const fn f2_max() -> u8 {
        7
    }

    pub const fn f3_min() -> u8 {
        0
    }

    pub const fn f3_max() -> u8 {
        7
    }

    pub const fn f4_min() -> u8 {
        0
    }

    pub const fn f4_max() -> u8 {
        7
    }
}

#[asn(sequence, extensible_after(f0))]

#[derive(Default, Debug, Clone, PartialEq, Hash)]
pub struct Ts5omodoe0 {
    #[asn(optional(integer(0..7)))] pub f0: Option<u8>,
    #[asn(optional(integer(0..7)))] pub f1: Option<u8>,
    #[asn(optional(integer(0..7)))] pub f2: Option<u8>,
    #[asn(default(integer(0..7), 5))] pub f3: u8,
    #[asn(optional(integer(0..7)))] pub f4: Option<u8>,
}

impl Ts5omodoe0 {
    pub const fn f0_min() -> u8 {
        0
    }

    pub const fn f0_max() -> u8 {
        7
    }

    pub const fn f1_min() -> u8 {
        0
    }

    pub const fn f1_max() -> u8 {
        7
    }

    pub const fn f2_min() -> u8 {
        0
    }

    pub const fn f2_max() -> u8 {
        7
    }

    pub const fn f3_min() -> u8 {
        0
    }

    pub const fn f3_max() -> u8 {
        7
    }

    pub const fn f4_min() -> u8 {
        0
    }

    pub const fn f4_max() -> u8 {
        7
    }
}

#[asn(sequence, extensible_after(f0))]

#[derive(Default, Debug, Clone, PartialEq, Hash)]
pub struct Ts5omodoe1 {
    #[asn(optional(integer(0..7)))] pub f0: Option<u8>,
    #[asn(optional(integer(0..7)))] pub f1: Option<u8>,
    #[asn(optional(integer(0..7)))] pub f2: Option<u8>,
    #[asn(default(integer(0..7), 5))] pub f3: u8,
    #[asn(optional(integer(0..7)))] pub f4: Option<u8>,
}

impl Ts5omodoe1 {
    pub const fn f0_min() -> u8 {
        0
    }

    pub const fn f0_max() -> u8 {
        7
    }

    pub const fn f1_min() -> u8 {
        0
    }

    pub const fn f1_max() -> u8 {
        7
    }

    pub const fn f2_min() -> u8 {
        0
    }

    pub const fn f2_max() -> u8 {
        7
    }

    pub const fn f3_min() -> u8 {
        0
    }

    pub const fn f3_max() -> u8 {
        7
    }

    pub const fn f4_min() -> u8 {
        0
    }

    pub const fn f4_max() -> u8 {
        7
    }
}

#[asn(sequence, extensible_after(f1))]

#[derive(Default, Debug, Clone, PartialEq, Hash)]
pub struct Ts5omodoe2 {
    #[asn(optional(integer(0..7)))] pub f0: Option<u8>,
    #[asn(integer(0..7))] pub f1: u8,
    #[asn(optional(integer(0..7)))] pub f2: Option<u8>,
    #[asn(default(integer(0..7), 5))] pub f3: u8,
    #[asn(optional(integer(0..7)))] pub f4: Option<u8>,
}

impl Ts5omodoe2 {
    pub const fn f0_min() -> u8 {
        0
    }

    pub const fn f0_max() -> u8 {
        7
    }

    pub const fn f1_min() -> u8 {
        0
    }

    pub const fn f1_max() -> u8 {
        7
    }

    pub const fn f2_min() -> u8 {
        0
    }

    pub const fn f2_max() -> u8 {
        7
    }

    pub const fn f3_min() -> u8 {
        0
    }

    pub const fn f3_max() -> u8 {
        7
    }

    pub const fn f4_min() -> u8 {
        0
    }

    pub const fn f4_max() -> u8 {
        7
    }
}

#[asn(sequence, extensible_after(f2))]

#[derive(Default, Debug, Clone, PartialEq, Hash)]
pub struct Ts5omodoe3 {
    #[asn(optional(integer(0..7)))] pub f0: Option<u8>,
    #[asn(integer(0..7))] pub f1: u8,
    #[asn(optional(integer(0..7)))] pub f2: Option<u8>,
    #[asn(default(integer(0..7), 5))] pub f3: u8,
    #[asn(optional(integer(0..7)))] pub f4: Option<u8>,
}

impl Ts5omodoe3 {
    pub const fn f0_min() -> u8 {
        0
    }

    pub const fn f0_max() -> u8 {
        7
    }

    pub const fn f1_min() -> u8 {
        0
    }

    pub const fn f1_max() -> u8 {
        7
    }

    pub const fn f2_min() -> u8 {
        0
    }

    pub const fn f2_max() -> u8 {
        7
    }

    pub const fn f3_min() -> u8 {
        0
    }

    pub const fn f3_max() -> u8 {
        7
    }

    pub const fn f4_min() -> u8 {
        0
    }

    pub const fn f4_max() -> u8 {
        7
    }
}

#[asn(sequence, extensible_after(f3))]

#[derive(Default, Debug, Clone, PartialEq, Hash)]
pub struct Ts5omodoe4 {
    #[asn(optional(integer(0..7)))] pub f0: Option<u8>,
    #[asn(integer(0..7))] pub f1: u8,
    #[asn(optional(integer(0..7)))] pub f2: Option<u8>,
    #[asn(default(integer(0..7), 5))] pub f3: u8,
    #[asn(optional(integer(0..7)))] pub f4: Option<u8>,
}

impl Ts5omodoe4 {
    pub const fn f0_min() -> u8 {
        0
    }

    pub const fn f0_max() -> u8 {
        7
    }

    pub const fn f1_min() -> u8 {
        0
    }

    pub const fn f1_max() -> u8 {
        7
    }

    pub const fn f2_min() -> u8 {
        0
    }

    pub const fn f2_max() -> u8 {
        7
    }

    pub const fn f3_min() -> u8 {
        0
    }

    pub const fn f3_max() -> u8 {
        7
    }

    pub const fn f4_min() -> u8 {
        0
    }

    pub const fn f4_max() -> u8 {
        7
    }
}

#[asn(sequence, extensible_after(f4))]

#[derive(Default, Debug, Clone, PartialEq, Hash)]
pub struct Ts5omodoe5 {
    #[asn(optional(integer(0..7)))] pub f0: Option<u8>,
    #[asn(integer(0..7))] pub f1: u8,
    #[asn(optional(integer(0..7)))] pub f2: Option<u8>,
    #[asn(default(integer(0..7), 5))] pub f3: u8,
    #[asn(optional(integer(0..7)))] pub f4: Option<u8>,
}

impl Ts5omodoe5 {
    pub const fn f0_min() -> u8 {
        0
    }

    pub const fn f0_max() -> u8 {
        7
    }

    pub const fn f1_min() -> u8 {
        0
    }

    pub const fn f1_max() -> u8 {
        7
    }

    pub const fn f2_min() -> u8 {
        0
    }

    pub const fn f2_max() -> u8 {
        7
    }

    pub const fn f3_min() -> u8 {
        0
    }

    pub const fn f3_max() -> u8 {
        7
    }

    pub const fn f4_min() -> u8 {
        0
    }

    pub const fn f4_max() -> u8 {
        7
    }
}

#[asn(sequence)]

#[derive(Default, Debug, Clone, PartialEq, Hash)]
pub struct Ts5dmodon {
    #[asn(default(integer(0..7), 5))] pub f0: u8,
    #[asn(integer(0..7))] pub f1: u8,
    #[asn(optional(integer(0..7)))] pub f2: Option<u8>,
    #[asn(default(integer(0..7), 5))] pub f3: u8,
    #[asn(optional(integer(0..7)))] pub f4: Option<u8>,
}

impl Ts5dmodon {
    pub const fn f0_min() -> u8 {
        0
    }

    pub const fn f0_max() -> u8 {
        7
    }

    pub const fn f1_min() -> u8 {
        0
    }

    pub const fn f1_max() -> u8 {
        7
    }

    pub const fn f2_min() -> u8 {
        0
    }

    pub const fn f2_max() -> u8 {
        7
    }

    pub const fn f3_min() -> u8 {
        0
    }

    pub const fn f3_max() -> u8 {
        7
    }

    pub const fn f4_min() -> u8 {
        0
    }

    pub const fn f4_max() -> u8 {
        7
    }
}

#[asn(sequence, extensible_after(f0))]

#[derive(Default, Debug, Clone, PartialEq, Hash)]
pub struct Ts5dmodoe0 {
    #[asn(default(integer(0..7), 5))] pub f0: u8,
    #[asn(optional(integer(0..7)))] pub f1: Option<u8>,
    #[asn(optional(integer(0..7)))] pub f2: Option<u8>,
    #[asn(default(integer(0..7), 5))] pub f3: u8,
    #[asn(optional(integer(0..7)))] pub f4: Option<u8>,
}

impl Ts5dmodoe0 {
    pub const fn f0_min() -> u8 {
        0
    }

    pub const fn f0_max() -> u8 {
        7
    }

    pub const fn f1_min() -> u8 {
        0
    }

    pub const fn f1_max() -> u8 {
        7
    }

    pub const fn f2_min() -> u8 {
        0
    }

    pub const fn f2_max() -> u8 {
        7
    }

    pub const fn f3_min() -> u8 {
        0
    }

    pub const fn f3_max() -> u8 {
        7
    }

    pub const fn f4_min() -> u8 {
        0
    }

    pub const fn f4_max() -> u8 {
        7
    }
}

#[asn(sequence, extensible_after(f0))]

#[derive(Default, Debug, Clone, PartialEq, Hash)]
pub struct Ts5dmodoe1 {
    #[asn(default(integer(0..7), 5))] pub f0: u8,
    #[asn(optional(integer(0..7)))] pub f1: Option<u8>,
    #[asn(optional(integer(0..7)))] pub f2: Option<u8>,
    #[asn(default(integer(0..7), 5))] pub f3: u8,
    #[asn(optional(integer(0..7)))] pub f4: Option<u8>,
}

impl Ts5dmodoe1 {
    pub const fn f0_min() -> u8 {
        0
    }

    pub const fn f0_max() -> u8 {
        7
    }

    pub const fn f1_min() -> u8 {
        0
    }

    pub const fn f1_max() -> u8 {
        7
    }

    pub const fn f2_min() -> u8 {
        0
    }

    pub const fn f2_max() -> u8 {
        7
    }

    pub const fn f3_min() -> u8 {
        0
    }

    pub const fn f3_max() -> u8 {
        7
    }

    pub const fn f4_min() -> u8 {
        0
    }

    pub const fn f4_max() -> u8 {
        7
    }
}

#[asn(sequence, extensible_after(f1))]

#[derive(Default, Debug, Clone, PartialEq, Hash)]
pub struct Ts5dmodoe2 {
    #[asn(default(integer(0..7), 5))] pub f0: u8,
    #[asn(integer(0..7))] pub f1: u8,
    #[asn(optional(integer(0..7)))] pub f2: Option<u8>,
    #[asn(default(integer(0..7), 5))] pub f3: u8,
    #[asn(optional(integer(0..7)))] pub f4: Option<u8>,
}

impl Ts5dmodoe2 {
    pub const fn f0_min() -> u8 {
        0
    }

    pub const fn f0_max() -> u8 {
        7
    }

    pub const fn f1_min() -> u8 {
        0
    }

    pub const fn f1_max() -> u8 {
        7
    }

    pub const fn f2_min() -> u8 {
        0
    }

    pub const fn f2_max() -> u8 {
        7
    }

    pub const fn f3_min() -> u8 {
        0
    }

    pub const fn f3_max() -> u8 {
        7
    }

    pub const fn f4_min() -> u8 {
        0
    }

    pub const fn f4_max() -> u8 {
        7
    }
}

#[asn(sequence, extensible_after(f2))]

#[derive(Default, Debug, Clone, PartialEq, Hash)]
pub struct Ts5dmodoe3 {
    #[asn(default(integer(0..7), 5))] pub f0: u8,
    #[asn(integer(0..7))] pub f1: u8,
    #[asn(optional(integer(0..7)))] pub f2: Option<u8>,
    #[asn(default(integer(0..7), 5))] pub f3: u8,
    #[asn(optional(integer(0..7)))] pub f4: Option<u8>,
}

impl Ts5dmodoe3 {
    pub const fn f0_min() -> u8 {
        0
    }

    pub const fn f0_max() -> u8 {
        7
    }

    pub const fn f1_min() -> u8 {
        0
    }

    pub const fn f1_max() -> u8 {
        7
    }

    pub const fn f2_min() -> u8 {
        0
    }

    pub const fn f2_max() -> u8 {
        7
    }

    pub const fn f3_min() -> u8 {
        0
    }

    pub const fn f3_max() -> u8 {
        7
    }

    pub const fn f4_min() -> u8 {
        0
    }

    pub const fn f4_max() -> u8 {
        7
    }
}

#[asn(sequence, extensible_after(f3))]

#[derive(Default, Debug, Clone, PartialEq, Hash)]
pub struct Ts5dmodoe4 {
    #[asn(default(integer(0..7), 5))] pub f0: u8,
    #[asn(integer(0..7))] pub f1: u8,
    #[asn(optional(integer(0..7)))] pub f2: Option<u8>,
    #[asn(default(integer(0..7), 5))] pub f3: u8,
    #[asn(optional(integer(0..7)))] pub f4: Option<u8>,
}

impl Ts5dmodoe4 {
    pub const fn f0_min() -> u8 {
        0
    }

    pub const fn f0_max() -> u8 {
        7
    }

    pub const fn f1_min() -> u8 {
        0
    }

    pub const fn f1_max() -> u8 {
        7
    }

    pub const fn f2_min() -> u8 {
        0
    }

    pub const fn f2_max() -> u8 {
        7
    }

    pub const fn f3_min() -> u8 {
        0
    }

    pub const fn f3_max() -> u8 {
        7
    }

    pub const fn f4_min() -> u8 {
        0
    }

    pub const fn f4_max() -> u8 {
        7
    }
}

#[asn(sequence, extensible_after(f4))]

#[derive(Default, Debug, Clone, PartialEq, Hash)]
pub struct Ts5dmodoe5 {
    #[asn(default(integer(0..7), 5))] pub f0: u8,
    #[asn(integer(0..7))] pub f1: u8,
    #[asn(optional(integer(0..7)))] pub f2: Option<u8>,
    #[asn(default(integer(0..7), 5))] pub f3: u8,
    #[asn(optional(integer(0..7)))] pub f4: Option<u8>,
}

impl Ts5dmodoe5 {
    pub const fn f0_min() -> u8 {
        0
    }

    pub const fn f0_max() -> u8 {
        7
    }

    pub const fn f1_min() -> u8 {
        0
    }

    pub const fn f1_max() -> u8 {
        7
    }

    pub const fn f2_min() -> u8 {
        0
    }

    pub const fn f2_max() -> u8 {
        7
    }

    pub const fn f3_min() -> u8 {
        0
    }

    pub const fn f3_max() -> u8 {
        7
    }

    pub const fn f4_min() -> u8 {
        0
    }

    pub const fn f4_max() -> u8 {
        7
    }
}

#[asn(sequence)]

#[derive(Default, Debug, Clone, PartialEq, Hash)]
pub struct Ts5moodon {
    #[asn(integer(0..7))] pub f0: u8,
    #[asn(optional(integer(0..7)))] pub f1: Option<u8>,
    #[asn(optional(integer(0..7)))] pub f2: Option<u8>,
    #[asn(default(integer(0..7), 5))] pub f3: u8,
    #[asn(optional(integer(0..7)))] pub f4: Option<u8>,
}

impl Ts5moodon {
    pub const fn f0_min() -> u8 {
        0
    }

    pub const fn f0_max() -> u8 {
        7
    }

    pub const fn f1_min() -> u8 {
        0
    }

    pub const fn f1_max() -> u8 {
        7
    }

    pub const fn f2_min() -> u8 {
        0
    }

    pub const fn f2_max() -> u8 {
        7
    }

    pub const fn f3_min() -> u8 {
        0
    }

    pub const fn f3_max() -> u8 {
        7
    }

    pub const fn f4_min() -> u8 {
        0
    }

    pub const fn f4_max() -> u8 {
        7
    }
}

#[asn(sequence, extensible_after(f0))]

#[derive(Default, Debug, Clone, PartialEq, Hash)]
pub struct Ts5moodoe0 {
    #[asn(integer(0..7))] pub f0: u8,
    #[asn(optional(integer(0..7)))] pub f1: Option<u8>,
    #[asn(optional(integer(0..7)))] pub f2: Option<u8>,
    #[asn(default(integer(0..7), 5))] pub f3: u8,
    #[asn(optional(integer(0..7)))] pub f4: Option<u8>,
}

impl Ts5moodoe0 {
    pub const fn f0_min() -> u8 {
        0
    }

    pub const fn f0_max() -> u8 {
        7
    }

    pub const fn f1_min() -> u8 {
        0
    }

    pub const fn f1_max() -> u8 {
        7
    }

    pub const fn f2_min() -> u8 {
        0
    }

    pub const fn f2_max() -> u8 {
        7
    }

    pub const fn f3_min() -> u8 {
        0
    }

    pub const fn f3_max() -> u8 {
        7
    }

    pub const fn f4_min() -> u8 {
        0
    }

    pub const fn f4_max() -> u8 {
        7
    }
}

#[asn(sequence, extensible_after(f0))]

#[derive(Default, Debug, Clone, PartialEq, Hash)]
pub struct Ts5moodoe1 {
    #[asn(integer(0..7))] pub f0: u8,
    #[asn(optional(integer(0..7)))] pub f1: Option<u8>,
    #[asn(optional(integer(0..7)))] pub f2: Option<u8>,
    #[asn(default(integer(0..7), 5))] pub f3: u8,
    #[asn(optional(integer(0..7)))] pub f4: Option<u8>,
}

impl Ts5moodoe1 {
    pub const fn f0_min() -> u8 {
        0
    }

    pub const fn f0_max() -> u8 {
        7
    }

    pub const fn f1_min() -> u8 {
        0
    }

    pub const fn f1_max() -> u8 {
        7
    }

    pub const fn f2_min() -> u8 {
        0
    }

    pub const fn f2_max() -> u8 {
        7
    }

    pub const fn f3_min() -> u8 {
        0
    }

    pub const fn f3_max() -> u8 {
        7
    }

    pub const fn f4_min() -> u8 {
        0
    }

    pub const fn f4_max() -> u8 {
        7
    }
}

#[asn(sequence, extensible_after(f1))]

#[derive(Default, Debug, Clone, PartialEq, Hash)]
pub struct Ts5moodoe2 {
    #[asn(integer(0..7))] pub f0: u8,
    #[asn(optional(integer(0..7)))] pub f1: Option<u8>,
    #[asn(optional(integer(0..7)))] pub f2: Option<u8>,
    #[asn(default(integer(0..7), 5))] pub f3: u8,
    #[asn(optional(integer(0..7)))] pub f4: Option<u8>,
}

impl Ts5moodoe2 {
    pub const fn f0_min() -> u8 {
        0
    }

    pub const fn f0_max() -> u8 {
        7
    }

    pub const fn f1_min() -> u8 {
        0
    }

    pub const fn f1_max() -> u8 {
        7
    }

    pub const fn f2_min() -> u8 {
        0
    }

    pub const fn f2_max() -> u8 {
        7
    }

    pub const fn f3_min() -> u8 {
        0
    }

    pub const fn f3_max() -> u8 {
        7
    }

    pub const fn f4_min() -> u8 {
        0
    }

    pub const fn f4_max() -> u8 {
        7
    }
}

#[asn(sequence, extensible_after(f2))]

#[derive(Default, Debug, Clone, PartialEq, Hash)]
pub struct Ts5moodoe3 {
    #[asn(integer(0..7))] pub f0: u8,
    #[asn(optional(integer(0..7)))] pub f1: Option<u8>,
    #[asn(optional(integer(0..7)))] pub f2: Option<u8>,
    #[asn(default(integer(0..7), 5))] pub f3: u8,
    #[asn(optional(integer(0..7)))] pub f4: Option<u8>,
}

impl Ts5moodoe3 {
    pub const fn f0_min() -> u8 {
        0
    }

    pub const fn f0_max() -> u8 {
        7
    }

    pub const fn f1_min() -> u8 {
        0
    }

    pub const fn f1_max() -> u8 {
        7
    }

    pub const fn f2_min() -> u8 {
        0
    }

    pub const fn f2_max() -> u8 {
        7
    }

    pub const fn f3_min() -> u8 {
        0
    }

    pub const fn f3_max() -> u8 {
        7
    }

    pub const fn f4_min() -> u8 {
        0
    }

    pub const fn f4_max() -> u8 {
        7
    }
}

#[asn(sequence, extensible_after(f3))]

#[derive(Default, Debug, Clone, PartialEq, Hash)]
pub struct Ts5moodoe4 {
    #[asn(integer(0..7))] pub f0: u8,
    #[asn(optional(integer(0..7)))] pub f1: Option<u8>,
    #[asn(optional(integer(0..7)))] pub f2: Option<u8>,
    #[asn(default(integer(0..7), 5))] pub f3: u8,
    #[asn(optional(integer(0..7)))] pub f4: Option<u8>,
}

impl Ts5moodoe4 {
    pub const fn f0_min() -> u8 {
        0
    }

    pub const fn f0_max() -> u8 {
        7
    }

    pub const fn f1_min() -> u8 {
        0
    }

    pub const fn f1_max() -> u8 {
        7
    }

    pub const fn f2_min() -> u8 {
        0
    }

    pub const fn f2_max() -> u8 {
        7
    }

    pub const fn f3_min() -> u8 {
        0
    }

    pub const fn f3_max() -> u8 {
        7
    }

    pub const fn f4_min() -> u8 {
        0
    }

    pub const fn f4_max() -> u8 {
        7
    }
}

#[asn(sequence, extensible_after(f4))]

#[derive(Default, Debug, Clone, PartialEq, Hash)]
pub struct Ts5moodoe5 {
    #[asn(integer(0..7))] pub f0: u8,
    #[asn(optional(integer(0..7)))] pub f1: Option<u8>,
    #[asn(optional(integer(0..7)))] pub f2: Option<u8>,
    #[asn(default(integer(0..7), 5))] pub f3: u8,
    #[asn(optional(integer(0..7)))] pub f4: Option<u8>,
}

impl Ts5moodoe5 {
    pub const fn f0_min() -> u8 {
        0
    }

    pub const fn f0_max() -> u8 {
        7
    }

    pub const fn f1_min() -> u8 {
        0
    }

    pub const fn f1_max() -> u8 {
        7
    }

    pub const fn f2_min() -> u8 {
        0
    }

    pub const fn f2_max() -> u8 {
        7
    }

    pub const fn f3_min() -> u8 {
        0
    }

    pub const fn f3_max() -> u8 {
        7
    }

    pub const fn f4_min() -> u8 {
        0
    }

    pub const fn f4_max() -> u8 {
        7
    }
}

#[asn(sequence)]

#[derive(Default, Debug, Clone, PartialEq, Hash)]
pub struct Ts5ooodon {
    #[asn(optional(integer(0..7)))] pub f0: Option<u8>,
    #[asn(optional(integer(0..7)))] pub f1: Option<u8>,
    #[asn(optional(integer(0..7)))] pub f2: Option<u8>,
    #[asn(default(integer(0..7), 5))] pub f3: u8,
    #[asn(optional(integer(0..7)))] pub f4: Option<u8>,
}

impl Ts5ooodon {
    pub const fn f0_min() -> u8 {
        0
    }

    pub const fn f0_max() -> u8 {
        7
    }

    pub const fn f1_min() -> u8 {
        0
    }

    pub const fn f1_max() -> u8 {
        7
    }

    pub const fn f2_min() -> u8 {
        0
    }

    pub const fn f2_max() -> u8 {
        7
    }

    pub const fn f3_min() -> u8 {
        0
    }

    pub const fn f3_max() -> u8 {
        7
    }

    pub const fn f4_min() -> u8 {
        0
    }

    pub const fn f4_max() -> u8 {
        7
    }
}

#[asn(sequence, extensible_after(f0))]

#[derive(Default, Debug, Clone, PartialEq, Hash)]
pub struct Ts5ooodoe0 {
    #[asn(optional(integer(0..7)))] pub f0: Option<u8>,
    #[asn(optional(integer(0..7)))] pub f1: Option<u8>,
    #[asn(optional(integer(0..7)))] pub f2: Option<u8>,
    #[asn(default(integer(0..7), 5))] pub f3: u8,
    #[asn(optional(integer(0..7)))] pub f4: Option<u8>,
}

impl Ts5ooodoe0 {
    pub const fn f0_min() -> u8 {
        0
    }

    pub const fn f0_max() -> u8 {
        7
    }

    pub const fn f1_min() -> u8 {
        0
    }

    pub const fn f1_max() -> u8 {
        7
    }

    pub const fn f2_min() -> u8 {
        0
    }

    pub const fn f2_max() -> u8 {
        7
    }

    pub const fn f3_min() -> u8 {
        0
    }

    pub const fn f3_max() -> u8 {
        7
    }

    pub const fn f4_min() -> u8 {
        0
    }

    pub const fn f4_max() -> u8 {
        7
    }
}

#[asn(sequence, extensible_after(f0))]

#[derive(Default, Debug, Clone, PartialEq, Hash)]
pub struct Ts5ooodoe1 {
    #[asn(optional(integer(0..7)))] pub f0: Option<u8>,
    #[asn(optional(integer(0..7)))] pub f1: Option<u8>,
    #[asn(optional(integer(0..7)))] pub f2: Option<u8>,
    #[asn(default(integer(0..7), 5))] pub f3: u8,
    #[asn(optional(integer(0..7)))] pub f4: Option<u8>,
}

impl Ts5ooodoe1 {
    pub const fn f0_min() -> u8 {
        0
    }

    pub const fn f0_max() -> u8 {
        7
    }

    pub const fn f1_min() -> u8 {
        0
    }

    pub const fn f1_max() -> u8 {
        7
    }

    pub const fn f2_min() -> u8 {
        0
    }

    pub const fn f2_max() -> u8 {
        7
    }

    pub const fn f3_min() -> u8 {
        0
    }

    pub const fn f3_max() -> u8 {
        7
    }

    pub const fn f4_min() -> u8 {
        0
    }

    pub const fn f4_max() -> u8 {
        7
    }
}

#[asn(sequence, extensible_after(f1))]

#[derive(Default, Debug, Clone, PartialEq, Hash)]
pub struct Ts5ooodoe2 {
    #[asn(optional(integer(0..7)))] pub f0: Option<u8>,
    #[asn(optional(integer(0..7)))] pub f1: Option<u8>,
    #[asn(optional(integer(0..7)))] pub f2: Option<u8>,
    #[asn(default(integer(0..7), 5))] pub f3: u8,
    #[asn(optional(integer(0..7)))] pub f4: Option<u8>,
}

impl Ts5ooodoe2 {
    pub const fn f0_min() -> u8 {
        0
    }

    pub const fn f0_max() -> u8 {
        7
    }

    pub const fn f1_min() -> u8 {
        0
    }

    pub const fn f1_max() -> u8 {
        7
    }

    pub const fn f2_min() -> u8 {
        0
    }

    pub const fn f2_max() -> u8 {
        7
    }

    pub const fn f3_min() -> u8 {
        0
    }

    pub const fn f3_max() -> u8 {
        7
    }

    pub const fn f4_min() -> u8 {
        0
    }

    pub const fn f4_max() -> u8 {
        7
    }
}

#[asn(sequence, extensible_after(f2))]

#[derive(Default, Debug, Clone, PartialEq, Hash)]
pub struct Ts5ooodoe3 {
    #[asn(optional(integer(0..7)))] pub f0: Option<u8>,
    #[asn(optional(integer(0..7)))] pub f1: Option<u8>,
    #[asn(optional(integer(0..7)))] pub f2: Option<u8>,
    #[asn(default(integer(0..7), 5))] pub f3: u8,
    #[asn(optional(integer(0..7)))] pub f4: Option<u8>,
}

impl Ts5ooodoe3 {
    pub const fn f0_min() -> u8 {
        0
    }

    pub const fn f0_max() -> u8 {
        7
    }

    pub const fn f1_min() -> u8 {
        0
    }

    pub const fn f1_max() -> u8 {
        7
    }

    pub const fn f2_min() -> u8 {
        0
    }

    pub const fn f2_max() -> u8 {
        7
    }

    pub const fn f3_min() -> u8 {
        0
    }

    pub const fn f3_max() -> u8 {
        7
    }

    pub const fn f4_min() -> u8 {
        0
    }

    pub const fn f4_max() -> u8 {
        7
    }
}

#[asn(sequence, extensible_after(f3))]

#[derive(Default, Debug, Clone, PartialEq, Hash)]
pub struct Ts5ooodoe4 {
    #[asn(optional(integer(0..7)))] pub f0: Option<u8>,
    #[asn(optional(integer(0..7)))] pub f1: Option<u8>,
    #[asn(optional(integer(0..7)))] pub f2: Option<u8>,
    #[asn(default(integer(0..7), 5))] pub f3: u8,
    #[asn(optional(integer(0..7)))] pub f4: Option<u8>,
}

impl Ts5ooodoe4 {
    pub const fn f0_min() -> u8 {
        0
    }

    pub const fn f0_max() -> u8 {
        7
    }

    pub const fn f1_min() -> u8 {
        0
    }

    pub const fn f1_max() -> u8 {
        7
    }

    pub const fn f2_min() -> u8 {
        0
    }

    pub const fn f2_max() -> u8 {
        7
    }

    pub const fn f3_min() -> u8 {
        0
    }

    pub const fn f3_max() -> u8 {
        7
    }

    pub const fn f4_min() -> u8 {
        0
    }

    pub const fn f4_max() -> u8 {
        7
    }
}

#[asn(sequence, extensible_after(f4))]

#[derive(Default, Debug, Clone, PartialEq, Hash)]
pub struct Ts5ooodoe5 {
    #[asn(optional(integer(0..7)))] pub f0: Option<u8>,
    #[asn(optional(integer(0..7)))] pub f1: Option<u8>,
    #[asn(optional(integer(0..7)))] pub f2: Option<u8>,
    #[asn(default(integer(0..7), 5))] pub f3: u8,
    #[asn(optional(integer(0..7)))] pub f4: Option<u8>,
}

impl Ts5ooodoe5 {
    pub const fn f0_min() -> u8 {
        0
    }

    pub const fn f0_max() -> u8 {
        7
    }

    pub const fn f1_min() -> u8 {
        0
    }

    pub const fn f1_max() -> u8 {
        7
    }

    pub const fn f2_min() -> u8 {
        0
    }

    pub const fn f2_max() -> u8 {
        7
    }

    pub const fn f3_min() -> u8 {
        0
    }

    pub const fn f3_max() -> u8 {
        7
    }

    pub const fn f4_min() -> u8 {
        0
    }

    pub const fn f4_max() -> u8 {
        7
    }
}

#[asn(sequence)]

#[derive(Default, Debug, Clone, PartialEq, Hash)]
pub struct Ts5doodon {
    #[asn(default(integer(0..7), 5))] pub f0: u8,
    #[asn(optional(integer(0..7)))] pub f1: Option<u8>,
    #[asn(optional(integer(0..7)))] pub f2: Option<u8>,
    #[asn(default(integer(0..7), 5))] pub f3: u8,
    #[asn(optional(integer(0..7)))] pub f4: Option<u8>,
}

impl Ts5doodon {
    pub const fn f0_min() -> u8 {
        0
    }

    pub const fn f0_max() -> u8 {
        7
    }

    pub const fn f1_min() -> u8 {
        0
    }

    pub const fn f1_max() -> u8 {
        7
    }

    pub const fn f2_min() -> u8 {
        0
    }

    pub const fn f2_max() -> u8 {
        7
    }

    pub const fn f3_min() -> u8 {
        0
    }

    pub const fn f3_max() -> u8 {
        7
    }

    pub const fn f4_min() -> u8 {
        0
    }

    pub const fn f4_max() -> u8 {
        7
    }
}

#[asn(sequence, extensible_after(f0))]

#[derive(Default, Debug, Clone, PartialEq, Hash)]
pub struct Ts5doodoe0 {
    #[asn(default(integer(0..7), 5))] pub f0: u8,
    #[asn(optional(integer(0..7)))] pub f1: Option<u8>,
    #[asn(optional(integer(0..7)))] pub f2: Option<u8>,
    #[asn(default(integer(0..7), 5))] pub f3: u8,
    #[asn(optional(integer(0..7)))] pub f4: Option<u8>,
}

impl Ts5doodoe0 {
    pub const fn f0_min() -> u8 {
        0
    }

    pub const fn f0_max() -> u8 {
        7
    }

    pub const fn f1_min() -> u8 {
        0
    }

    pub const fn f1_max() -> u8 {
        7
    }

    pub const fn f2_min() -> u8 {
        0
    }

    pub const fn f2_max() -> u8 {
        7
    }

    pub const fn f3_min() -> u8 {
        0
    }

    pub const fn f3_max() -> u8 {
        7
    }

    pub const fn f4_min() -> u8 {
        0
    }

    pub const fn f4_max() -> u8 {
        7
    }
}

#[asn(sequence, extensible_after(f0))]

#[derive(Default, Debug, Clone, PartialEq, Hash)]
pub struct Ts5doodoe1 {
    #[asn(default(integer(0..7), 5))] pub f0: u8,
    #[asn(optional(integer(0..7)))] pub f1: Option<u8>,
    #[asn(optional(integer(0..7)))] pub f2: Option<u8>,
    #[asn(default(integer(0..7), 5))] pub f3: u8,
    #[asn(optional(integer(0..7)))] pub f4: Option<u8>,
}

impl Ts5doodoe1 {
    pub const fn f0_min() -> u8 {
        0
    }

    pub const fn f0_max() -> u8 {
        7
    }

    pub const fn f1_min() -> u8 {
        0
    }

    pub const fn f1_max() -> u8 {
        7
    }

    pub const fn f2_min() -> u8 {
        0
    }

    pub const fn f2_max() -> u8 {
        7
    }

    pub const fn f3_min() -> u8 {
        0
    }

    pub const fn f3_max() -> u8 {
        7
    }

    pub const fn f4_min() -> u8 {
        0
    }

    pub const fn f4_max() -> u8 {
        7
    }
}

#[asn(sequence, extensible_after(f1))]

#[derive(Default, Debug, Clone, PartialEq, Hash)]
pub struct Ts5doodoe2 {
    #[asn(default(integer(0..7), 5))] pub f0: u8,
    #[asn(optional(integer(0..7)))] pub f1: Option<u8>,
    #[asn(optional(integer(0..7)))] pub f2: Option<u8>,
    #[asn(default(integer(0..7), 5))] pub f3: u8,
    #[asn(optional(integer(0..7)))] pub f4: Option<u8>,
}

impl Ts5doodoe2 {
    pub const fn f0_min() -> u8 {
        0
    }

    pub const fn f0_max() -> u8 {
        7
    }

    pub const fn f1_min() -> u8 {
        0
    }

    pub const fn f1_max() -> u8 {
        7
    }

    pub const fn f2_min() -> u8 {
        0
    }

    pub const fn f2_max() -> u8 {
        7
    }

    pub const fn f3_min() -> u8 {
        0
    }

    pub const fn f3_max() -> u8 {
        7
    }

    pub const fn f4_min() -> u8 {
        0
    }

    pub const fn f4_max() -> u8 {
        7
    }
}

#[asn(sequence, extensible_after(f2))]

#[derive(Default, Debug, Clone, PartialEq, Hash)]
pub struct Ts5doodoe3 {
    #[asn(default(integer(0..7), 5))] pub f0: u8,
    #[asn(optional(integer(0..7)))] pub f1: Option<u8>,
    #[asn(optional(integer(0..7)))] pub f2: Option<u8>,
    #[asn(default(integer(0..7), 5))] pub f3: u8,
    #[asn(optional(integer(0..7)))] pub f4: Option<u8>,
}

impl Ts5doodoe3 {
    pub const fn f0_min() -> u8 {
        0
    }

    pub const fn f0_max() -> u8 {
        7
    }

    pub const fn f1_min() -> u8 {
        0
    }

    pub const fn f1_max() -> u8 {
        7
    }

    pub const fn f2_min() -> u8 {
        0
    }

    pub const fn f2_max() -> u8 {
        7
    }

    pub const fn f3_min() -> u8 {
        0
    }

    pub const fn f3_max() -> u8 {
        7
    }

    pub const fn f4_min() -> u8 {
        0
    }

    pub const fn f4_max() -> u8 {
        7
    }
}

#[asn(sequence, extensible_after(f3))]

#[derive(Default, Debug, Clone, PartialEq, Hash)]
pub struct Ts5doodoe4 {
    #[asn(default(integer(0..7), 5))] pub f0: u8,
    #[asn(optional(integer(0..7)))] pub f1: Option<u8>,
    #[asn(optional(integer(0..7)))] pub f2: Option<u8>,
    #[asn(default(integer(0..7), 5))] pub f3: u8,
    #[asn(optional(integer(0..7)))] pub f4: Option<u8>,
}

impl Ts5doodoe4 {
    pub const fn f0_min() -> u8 {
        0
    }

    pub const fn f0_max() -> u8 {
        7
    }

    pub const fn f1_min() -> u8 {
        0
    }

    pub const fn f1_max() -> u8 {
        7
    }

    pub const fn f2_min() -> u8 {
        0
    }

    pub const fn f2_max() -> u8 {
        7
    }

    pub const fn f3_min() -> u8 {
        0
    }

    pub const fn f3_max() -> u8 {
        7
    }

    pub const fn f4_min() -> u8 {
        0
    }

    pub const fn f4_max() -> u8 {
        7
    }
}

#[asn(sequence, extensible_after(f4))]

#[derive(Default, Debug, Clone, PartialEq, Hash)]
pub struct Ts5doodoe5 {
    #[asn(default(integer(0..7), 5))] pub f0: u8,
    #[asn(optional(integer(0..7)))] pub f1: Option<u8>,
    #[asn(optional(integer(0..7)))] pub f2: Option<u8>,
    #[asn(default(integer(0..7), 5))] pub f3: u8,
    #[asn(optional(integer(0..7)))] pub f4: Option<u8>,
}

impl Ts5doodoe5 {
    pub const fn f0_min() -> u8 {
        0
    }

    pub const fn f0_max() -> u8 {
        7
    }

    pub const fn f1_min() -> u8 {
        0
    }

    pub const fn f1_max() -> u8 {
        7
    }

    pub const fn f2_min() -> u8 {
        0
    }

    pub const fn f2_max() -> u8 {
        7
    }

    pub const fn f3_min() -> u8 {
        0
    }

    pub const fn f3_max() -> u8 {
        7
    }

    pub const fn f4_min() -> u8 {
        0
    }

    pub const fn f4_max() -> u8 {
        7
    }
}

#[asn(sequence)]

#[derive(Default, Debug, Clone, PartialEq, Hash)]
pub struct Ts5mdodon {
    #[asn(integer(0..7))] pub f0: u8,
    #[asn(default(integer(0..7), 5))] pub f1: u8,
    #[asn(optional(integer(0..7)))] pub f2: Option<u8>,
    #[asn(default(integer(0..7), 5))] pub f3: u8,
    #[asn(optional(integer(0..7)))] pub f4: Option<u8>,
}

impl Ts5mdodon {
    pub const fn f0_min() -> u8 {
        0
    }

    pub const fn f0_max() -> u8 {
        7
    }

    pub const fn f1_min() -> u8 {
        0
    }

    pub const fn f1_max() -> u8 {
        7
    }

    pub const fn f2_min() -> u8 {
        0
    }

    pub const fn f2_max() -> u8 {
        7
    }

    pub const fn f3_min() -> u8 {
        0
    }

    pub const fn f3_max() -> u8 {
        7
    }

    pub const fn f4_min() -> u8 {
        0
    }

    pub const fn f4_max() -> u8 {
        7
    }
}

#[asn(sequence, extensible_after(f0))]

#[derive(Default, Debug, Clone, PartialEq, Hash)]
pub struct Ts5mdodoe0 {
    #[asn(integer(0..7))] pub f0: u8,
    #[asn(default(integer(0..7), 5))] pub f1: u8,
    #[asn(optional(integer(0..7)))] pub f2: Option<u8>,
    #[asn(default(integer(0..7), 5))] pub f3: u8,
    #[asn(optional(integer(0..7)))] pub f4: Option<u8>,
}

impl Ts5mdodoe0 {
    pub const fn f0_min() -> u8 {
        0
    }

    pub const fn f0_max() -> u8 {
        7
    }

    pub const fn f1_min() -> u8 {
        0
    }

    pub const fn f1_max() -> u8 {
        7
    }

    pub const fn f2_min() -> u8 {
        0
    }

    pub const fn f2_max() -> u8 {
        7
    }

    pub const fn f3_min() -> u8 {
        0
    }

    pub const fn f3_max() -> u8 {
        7
    }

    pub const fn f4_min() -> u8 {
        0
    }

    pub const fn f4_max() -> u8 {
        7
    }
}

#[asn(sequence, extensible_after(f0))]

#[derive(Default, Debug, Clone, PartialEq, Hash)]
pub struct Ts5mdodoe1 {
    #[asn(integer(0..7))] pub f0: u8,
    #[asn(default(integer(0..7), 5))] pub f1: u8,
    #[asn(optional(integer(0..7)))] pub f2: Option<u8>,
    #[asn(default(integer(0..7), 5))] pub f3: u8,
    #[asn(optional(integer(0..7)))] pub f4: Option<u8>,
}

impl Ts5mdodoe1 {
    pub const fn f0_min() -> u8 {
        0
    }

    pub const fn f0_max() -> u8 {
        7
    }

    pub const fn f1_min() -> u8 {
        0
    }

    pub const fn f1_max() -> u8 {
        7
    }

    pub const fn f2_min() -> u8 {
        0
    }

    pub const fn f2_max() -> u8 {
        7
    }

    pub const fn f3_min() -> u8 {
        0
    }

    pub const fn f3_max() -> u8 {
        7
    }

    pub const fn f4_min() -> u8 {
        0
    }

    pub const fn f4_max() -> u8 {
        7
    }
}

#[asn(sequence, extensible_after(f1))]

#[derive(Default, Debug, Clone, PartialEq, Hash)]
pub struct Ts5mdodoe2 {
    #[asn(integer(0..7))] pub f0: u8,
    #[asn(default(integer(0..7), 5))] pub f1: u8,
    #[asn(optional(integer(0..7)))] pub f2: Option<u8>,
    #[asn(default(integer(0..7), 5))] pub f3: u8,
    #[asn(optional(integer(0..7)))] pub f4: Option<u8>,
}

impl Ts5mdodoe2 {
    pub const fn f0_min() -> u8 {
        0
    }

    pub const fn f0_max() -> u8 {
        7
    }

    pub const fn f1_min() -> u8 {
        0
    }

    pub const fn f1_max() -> u8 {
        7
    }

    pub const fn f2_min() -> u8 {
        0
    }

    pub const fn f2_max() -> u8 {
        7
    }

    pub const fn f3_min() -> u8 {
        0
    }

    pub const fn f3_max() -> u8 {
        7
    }

    pub const fn f4_min() -> u8 {
        0
    }

    pub const fn f4_max() -> u8 {
        7
    }
}

#[asn(sequence, extensible_after(f2))]

#[derive(Default, Debug, Clone, PartialEq, Hash)]
pub struct Ts5mdodoe3 {
    #[asn(integer(0..7))] pub f0: u8,
    #[asn(default(integer(0..7), 5))] pub f1: u8,
    #[asn(optional(integer(0..7)))] pub f2: Option<u8>,
    #[asn(default(integer(0..7), 5))] pub f3: u8,
    #[asn(optional(integer(0..7)))] pub f4: Option<u8>,
}

impl Ts5mdodoe3 {
    pub const fn f0_min() -> u8 {
        0
    }

    pub const fn f0_max() -> u8 {
        7
    }

    pub const fn f1_min() -> u8 {
        0
    }

    pub const fn f1_max() -> u8 {
        7
    }

    pub const fn f2_min() -> u8 {
        0
    }

    pub const fn f2_max() -> u8 {
        7
    }

    pub const fn f3_min() -> u8 {
        0
    }

    pub const fn f3_max() -> u8 {
        7
    }

    pub const fn f4_min() -> u8 {
        0
    }

    pub const fn f4_max() -> u8 {
        7
    }
}

#[asn(sequence, extensible_after(f3))]

#[derive(Default, Debug, Clone, PartialEq, Hash)]
pub struct Ts5mdodoe4 {
    #[asn(integer(0..7))] pub f0: u8,
    #[asn(default(integer(0..7), 5))] pub f1: u8,
    #[asn(optional(integer(0..7)))] pub f2: Option<u8>,
    #[asn(default(integer(0..7), 5))] pub f3: u8,
    #[asn(optional(integer(0..7)))] pub f4: Option<u8>,
}

impl Ts5mdodoe4 {
    pub const fn f0_min() -> u8 {
        0
    }

    pub const fn f0_max() -> u8 {
        7
    }

    pub const fn f1_min() -> u8 {
        0
    }

    pub const fn f1_max() -> u8 {
        7
    }

    pub const fn f2_min() -> u8 {
        0
    }

    pub const fn f2_max() -> u8 {
        7
    }

    pub const fn f3_min() -> u8 {
        0
    }

    pub const fn f3_max() -> u8 {
        7
    }

    pub const fn f4_min() -> u8 {
        0
    }

    pub const fn f4_max() -> u8 {
        7
    }
}

#[asn(sequence, extensible_after(f4))]

#[derive(Default, Debug, Clone, PartialEq, Hash)]
pub struct Ts5mdodoe5 {
    #[asn(integer(0..7))] pub f0: u8,
    #[asn(default(integer(0..7), 5))] pub f1: u8,
    #[asn(optional(integer(0..7)))] pub f2: Option<u8>,
    #[asn(default(integer(0..7), 5))] pub f3: u8,
    #[asn(optional(integer(0..7)))] pub f4: Option<u8>,
}

impl Ts5mdodoe5 {
    pub const fn f0_min() -> u8 {
        0
    }

    pub const fn f0_max() -> u8 {
        7
    }

    pub const fn f1_min() -> u8 {
        0
    }

    pub const fn f1_max() -> u8 {
        7
    }

    pub const fn f2_min() -> u8 {
        0
    }

    pub const fn f2_max() -> u8 {
        7
    }

    pub const fn f3_min() -> u8 {
        0
    }

    pub const fn f3_max() -> u8 {
        7
    }

    pub const fn f4_min() -> u8 {
        0
    }

    pub const fn f4_max() -> u8 {
        7
    }
}

#[asn(sequence)]

#[derive(Default, Debug, Clone, PartialEq, Hash)]
pub struct Ts5ododon {
    #[asn(optional(integer(0..7)))] pub f0: Option<u8>,
    #[asn(default(integer(0..7), 5))] pub f1: u8,
    #[asn(optional(integer(0..7)))] pub f2: Option<u8>,
    #[asn(default(integer(0..7), 5))] pub f3: u8,
    #[asn(optional(integer(0..7)))] pub f4: Option<u8>,
}

impl Ts5ododon {
    pub const fn f0_min() -> u8 {
        0
    }

    pub const fn f0_max() -> u8 {
        7
    }

    pub const fn f1_min() -> u8 {
        0
    }

    pub const fn f1_max() -> u8 {
        7
    }

    pub const fn f2_min() -> u8 {
        0
    }

    pub const fn f2_max() -> u8 {
        7
    }

    pub const fn f3_min() -> u8 {
        0
    }

    pub const fn f3_max() -> u8 {
        7
    }

    pub const fn f4_min() -> u8 {
        0
    }

    pub const fn f4_max() -> u8 {
        7
    }
}

#[asn(sequence, extensible_after(f0))]

#[derive(Default, Debug, Clone, PartialEq, Hash)]
pub struct Ts5ododoe0 {
    #[asn(optional(integer(0..7)))] pub f0: Option<u8>,
    #[asn(default(integer(0..7), 5))] pub f1: u8,
    #[asn(optional(integer(0..7)))] pub f2: Option<u8>,
    #[asn(default(integer(0..7), 5))] pub f3: u8,
    #[asn(optional(integer(0..7)))] pub f4: Option<u8>,
}

impl Ts5ododoe0 {
    pub const fn f0_min() -> u8 {
        0
    }

    pub const fn f0_max() -> u8 {
        7
    }

    pub const fn f1_min() -> u8 {
        0
    }

    pub const fn f1_max() -> u8 {
        7
    }

    pub const fn f2_min() -> u8 {
        0
    }

    pub const fn f2_max() -> u8 {
        7
    }

    pub const fn f3_min() -> u8 {
        0
    }

    pub const fn f3_max() -> u8 {
        7
    }

    pub const fn f4_min() -> u8 {
        0
    }

    pub const fn f4_max() -> u8 {
        7
    }
}

#[asn(sequence, extensible_after(f0))]

#[derive(Default, Debug, Clone, PartialEq, Hash)]
pub struct Ts5ododoe1 {
    #[asn(optional(integer(0..7)))] pub f0: Option<u8>,
    #[asn(default(integer(0..7), 5))] pub f1: u8,
    #[asn(optional(integer(0..7)))] pub f2: Option<u8>,
    #[asn(default(integer(0..7), 5))] pub f3: u8,
    #[asn(optional(integer(0..7)))] pub f4: Option<u8>,
}

impl Ts5ododoe1 {
    pub const fn f0_min() -> u8 {
        0
    }

    pub const fn f0_max() -> u8 {
        7
    }

    pub const fn f1_min() -> u8 {
        0
    }

    pub const fn f1_max() -> u8 {
        7
    }

    pub const fn f2_min() -> u8 {
        0
    }

    pub const fn f2_max() -> u8 {
        7
    }

    pub const fn f3_min() -> u8 {
        0
    }

    pub const fn f3_max() -> u8 {
        7
    }

    pub const fn f4_min() -> u8 {
        0
    }

    pub const fn f4_max() -> u8 {
        7
    }
}

#[asn(sequence, extensible_after(f1))]

#[derive(Default, Debug, Clone, PartialEq, Hash)]
pub struct Ts5ododoe2 {
    #[asn(optional(integer(0..7)))] pub f0: Option<u8>,
    #[asn(default(integer(0..7), 5))] pub f1: u8,
    #[asn(optional(integer(0..7)))] pub f2: Option<u8>,
    #[asn(default(integer(0..7), 5))] pub f3: u8,
    #[asn(optional(integer(0..7)))] pub f4: Option<u8>,
}

impl Ts5ododoe2 {
    pub const fn f0_min() -> u8 {
        0
    }

    pub const fn f0_max() -> u8 {
        7
    }

    pub const fn f1_min() -> u8 {
        0
    }

    pub const fn f1_max() -> u8 {
        7
    }

    pub const fn f2_min() -> u8 {
        0
    }

    pub const fn f2_max() -> u8 {
        7
    }

    pub const fn f3_min() -> u8 {
        0
    }

    pub const fn f3_max() -> u8 {
        7
    }

    pub const fn f4_min() -> u8 {
        0
    }

    pub const fn f4_max() -> u8 {
        7
    }
}

#[asn(sequence, extensible_after(f2))]

#[derive(Default, Debug, Clone, PartialEq, Hash)]
pub struct Ts5ododoe3 {
    #[asn(optional(integer(0..7)))] pub f0: Option<u8>,
    #[asn(default(integer(0..7), 5))] pub f1: u8,
    #[asn(optional(integer(0..7)))] pub f2: Option<u8>,
    #[asn(default(integer(0..7), 5))] pub f3: u8,
    #[asn(optional(integer(0..7)))] pub f4: Option<u8>,
}

impl Ts5ododoe3 {
    pub const fn f0_min() -> u8 {
        0
    }

    pub const fn f0_max() -> u8 {
        7
    }

    pub const fn f1_min() -> u8 {
        0
    }

    pub const fn f1_max() -> u8 {
        7
    }

    pub const fn f2_min() -> u8 {
        0
    }

    pub const fn f2_max() -> u8 {
        7
    }

    pub const fn f3_min() -> u8 {
        0
    }

    pub const fn f3_max() -> u8 {
        7
    }

    pub const fn f4_min() -> u8 {
        0
    }

    pub const fn f4_max() -> u8 {
        7
    }
}

#[asn(sequence, extensible_after(f3))]

#[derive(Default, Debug, Clone, PartialEq, Hash)]
pub struct Ts5ododoe4 {
    #[asn(optional(integer(0..7)))] pub f0: Option<u8>,
    #[asn(default(integer(0..7), 5))] pub f1: u8,
    #[asn(optional(integer(0..7)))] pub f2: Option<u8>,
    #[asn(default(integer(0..7), 5))] pub f3: u8,
    #[asn(optional(integer(0..7)))] pub f4: Option<u8>,
}

impl Ts5ododoe4 {
    pub const fn f0_min() -> u8 {
        0
    }

    pub const fn f0_max() -> u8 {
        7
    }

    pub const fn f1_min() -> u8 {
        0
    }

    pub const fn f1_max() -> u8 {
        7
    }

    pub const fn f2_min() -> u8 {
        0
    }

    pub const fn f2_max() -> u8 {
        7
    }

    pub const fn f3_min() -> u8 {
        0
    }

    pub const fn f3_max() -> u8 {
        7
    }

    pub const fn f4_min() -> u8 {
        0
    }

    pub const fn f4_max() -> u8 {
        7
    }
}

#[asn(sequence, extensible_after(f4))]

#[derive(Default, Debug, Clone, PartialEq, Hash)]
pub struct Ts5ododoe5 {
    #[asn(optional(integer(0..7)))] pub f0: Option<u8>,
    #[asn(default(integer(0..7), 5))] pub f1: u8,
    #[asn(optional(integer(0..7)))] pub f2: Option<u8>,
    #[asn(default(integer(0..7), 5))] pub f3: u8,
    #[asn(optional(integer(0..7)))] pub f4: Option<u8>,
}

impl Ts5ododoe5 {
    pub const fn f0_min() -> u8 {
        0
    }

    pub const fn f0_max() -> u8 {
        7
    }

    pub const fn f1_min() -> u8 {
        0
    }

    pub const fn f1_max() -> u8 {
        7
    }

    pub const fn f2_min() -> u8 {
        0
    }

    pub const fn f2_max() -> u8 {
        7
    }

    pub const fn f3_min() -> u8 {
        0
    }

    pub const fn f3_max() -> u8 {
        7
    }

    pub const fn f4_min() -> u8 {
        0
    }

    pub const fn f4_max() -> u8 {
        7
    }
}

#[asn(sequence)]

#[derive(Default, Debug, Clone, PartialEq, Hash)]
pub struct Ts5ddodon {
    #[asn(default(integer(0..7), 5))] pub f0: u8,
    #[asn(default(integer(0..7), 5))] pub f1: u8,
    #[asn(optional(integer(0..7)))] pub f2: Option<u8>,
    #[asn(default(integer(0..7), 5))] pub f3: u8,
    #[asn(optional(integer(0..7)))] pub f4: Option<u8>,
}

impl Ts5ddodon {
    pub const fn f0_min() -> u8 {
        0
    }

    pub const fn f0_max() -> u8 {
        7
    }

    pub const fn f1_min() -> u8 {
        0
    }

    pub const fn f1_max() -> u8 {
        7
    }

    pub const fn f2_min() -> u8 {
        0
    }

    pub const fn f2_max() -> u8 {
        7
    }

    pub const fn f3_min() -> u8 {
        0
    }

    pub const fn f3_max() -> u8 {
        7
    }

    pub const fn f4_min() -> u8 {
        0
    }

    pub const fn f4_max() -> u8 {
        7
    }
}

#[asn(sequence, extensible_after(f0))]

#[derive(Default, Debug, Clone, PartialEq, Hash)]
pub struct Ts5ddodoe0 {
    #[asn(default(integer(0..7), 5))] pub f0: u8,
    #[asn(default(integer(0..7), 5))] pub f1: u8,
    #[asn(optional(integer(0..7)))] pub f2: Option<u8>,
    #[asn(default(integer(0..7), 5))] pub f3: u8,
    #[asn(optional(integer(0..7)))] pub f4: Option<u8>,
}

impl Ts5ddodoe0 {
    pub const fn f0_min() -> u8 {
        0
    }

    pub const fn f0_max() -> u8 {
        7
    }

    pub const fn f1_min() -> u8 {
        0
    }

    pub const fn f1_max() -> u8 {
        7
    }

    pub const fn f2_min() -> u8 {
        0
    }

    pub const fn f2_max() -> u8 {
        7
    }

    pub const fn f3_min() -> u8 {
        0
    }

    pub const fn f3_max() -> u8 {
        7
    }

    pub const fn f4_min() -> u8 {
        0
    }

    pub const fn f4_max() -> u8 {
        7
    }
}

#[asn(sequence, extensible_after(f0))]

#[derive(Default, Debug, Clone, PartialEq, Hash)]
pub struct Ts5ddodoe1 {
    #[asn(default(integer(0..7), 5))] pub f0: u8,
    #[asn(default(integer(0..7), 5))] pub f1: u8,
    #[asn(optional(integer(0..7)))] pub f2: Option<u8>,
    #[asn(default(integer(0..7), 5))] pub f3: u8,
    #[asn(optional(integer(0..7)))] pub f4: Option<u8>,
}

impl Ts5ddodoe1 {
    pub const fn f0_min() -> u8 {
        0
    }

    pub const fn f0_max() -> u8 {
        7
    }

    pub const fn f1_min() -> u8 {
        0
    }

    pub const fn f1_max() -> u8 {
        7
    }

    pub const fn f2_min() -> u8 {
        0
    }

    pub const fn f2_max() -> u8 {
        7
    }

    pub const fn f3_min() -> u8 {
        0
    }

    pub const fn f3_max() -> u8 {
        7
    }

    pub const fn f4_min() -> u8 {
        0
    }

    pub const fn f4_max() -> u8 {
        7
    }
}

#[asn(sequence, extensible_after(f1))]

#[derive(Default, Debug, Clone, PartialEq, Hash)]
pub struct Ts5ddodoe2 {
    #[asn(default(integer(0..7), 5))] pub f0: u8,
    #[asn(default(integer(0..7), 5))] pub f1: u8,
    #[asn(optional(integer(0..7)))] pub f2: Option<u8>,
    #[asn(default(integer(0..7), 5))] pub f3: u8,
    #[asn(optional(integer(0..7)))] pub f4: Option<u8>,
}

impl Ts5ddodoe2 {
    pub const fn f0_min() -> u8 {
        0
    }

    pub const fn f0_max() -> u8 {
        7
    }

    pub const fn f1_min() -> u8 {
        0
    }

    pub const fn f1_max() -> u8 {
        7
    }

    pub const fn f2_min() -> u8 {
        0
    }

    pub const fn f2_max() -> u8 {
        7
    }

    pub const fn f3_min() -> u8 {
        0
    }

    pub const fn f3_max() -> u8 {
        7
    }

    pub const fn f4_min() -> u8 {
        0
    }

    pub const fn f4_max() -> u8 {
        7
    }
}

#[asn(sequence, extensible_after(f2))]

#[derive(Default, Debug, Clone, PartialEq, Hash)]
pub struct Ts5ddodoe3 {
    #[asn(default(integer(0..7), 5))] pub f0: u8,
    #[asn(default(integer(0..7), 5))] pub f1: u8,
    #[asn(optional(integer(0..7)))] pub f2: Option<u8>,
    #[asn(default(integer(0..7), 5))] pub f3: u8,
    #[asn(optional(integer(0..7)))] pub f4: Option<u8>,
}

impl Ts5ddodoe3 {
    pub const fn f0_min() -> u8 {
        0
    }

    pub const fn f0_max() -> u8 {
        7
    }

    pub const fn f1_min() -> u8 {
        0
    }

    pub const fn f1_max() -> u8 {
        7
    }

    pub const fn f2_min() -> u8 {
        0
    }

    pub const fn f2_max() -> u8 {
        7
    }

    pub const fn f3_min() -> u8 {
        0
    }

    pub const fn f3_max() -> u8 {
        7
    }

    pub const fn f4_min() -> u8 {
        0
    }

    pub const fn f4_max() -> u8 {
        7
    }
}

#[asn(sequence, extensible_after(f3))]

#[derive(Default, Debug, Clone, PartialEq, Hash)]
pub struct Ts5ddodoe4 {
    #[asn(default(integer(0..7), 5))] pub f0: u8,
    #[asn(default(integer(0..7), 5))] pub f1: u8,
    #[asn(optional(integer(0..7)))] pub f2: Option<u8>,
    #[asn(default(integer(0..7), 5))] pub f3: u8,
    #[asn(optional(integer(0..7)))] pub f4: Option<u8>,
}

impl Ts5ddodoe4 {
    pub const fn f0_min() -> u8 {
        0
    }

    pub const fn f0_max() -> u8 {
        7
    }

    pub const fn f1_min() -> u8 {
        0
    }

    pub const fn f1_max() -> u8 {
        7
    }

    pub const fn f2_min() -> u8 {
        0
    }

    pub const fn f2_max() -> u8 {
        7
    }

    pub const fn f3_min() -> u8 {
        0
    }

    pub const fn f3_max() -> u8 {
        7
    }

    pub const fn f4_min() -> u8 {
        0
    }

    pub const fn f4_max() -> u8 {
        7
    }
}

#[asn(sequence, extensible_after(f4))]

#[derive(Default, Debug, Clone, PartialEq, Hash)]
pub struct Ts5ddodoe5 {
    #[asn(default(integer(0..7), 5))] pub f0: u8,
    #[asn(default(integer(0..7), 5))] pub f1: u8,
    #[asn(optional(integer(0..7)))] pub f2: Option<u8>,
    #[asn(default(integer(0..7), 5))] pub f3: u8,
    #[asn(optional(integer(0..7)))] pub f4: Option<u8>,
}

impl Ts5ddodoe5 {
    pub const fn f0_min() -> u8 {
        0
    }

    pub const fn f0_max() -> u8 {
        7
    }

    pub const fn f1_min() -> u8 {
        0
    }

    pub const fn f1_max() -> u8 {
        7
    }

    pub const fn f2_min() -> u8 {
        0
    }

    pub const fn f2_max() -> u8 {
        7
    }

    pub const fn f3_min() -> u8 {
        0
    }

    pub const fn f3_max() -> u8 {
        7
    }

    pub const fn f4_min() -> u8 {
        0
    }

    pub const fn f4_max() -> u8 {
        7
    }
}

#[asn(sequence)]

#[derive(Default, Debug, Clone, PartialEq, Hash)]
pub struct Ts5mmddon {
    #[asn(integer(0..7))] pub f0: u8,
    #[asn(integer(0..7))] pub f1: u8,
    #[asn(default(integer(0..7), 5))] pub f2: u8,
    #[asn(default(integer(0..7), 5))] pub f3: u8,
    #[asn(optional(integer(0..7)))] pub f4: Option<u8>,
}

impl Ts5mmddon {
    pub const fn f0_min() -> u8 {
        0
    }

    pub const fn f0_max() -> u8 {
        7
    }

    pub const fn f1_min() -> u8 {
        0
    }

    pub const fn f1_max() -> u8 {
        7
    }

    pub const fn f2_min() -> u8 {
        0
    }

    pub const fn f2_max() -> u8 {
        7
    }

    pub const fn f3_min() -> u8 {
        0
    }

    pub const fn f3_max() -> u8 {
        7
    }

    pub const fn f4_min() -> u8 {
        0
    }

    pub const fn f4_max() -> u8 {
        7
    }
}

#[asn(sequence, extensible_after(f0))]

#[derive(Default, Debug, Clone, PartialEq, Hash)]
pub struct Ts5mmddoe0 {
    #[asn(integer(0..7))] pub f0: u8,
    #[asn(optional(integer(0..7)))] pub f1: Option<u8>,
    #[asn(default(integer(0..7), 5))] pub f2: u8,
    #[asn(default(integer(0..7), 5))] pub f3: u8,
    #[asn(optional(integer(0..7)))] pub f4: Option<u8>,
}

impl Ts5mmddoe0 {
    pub const fn f0_min() -> u8 {
        0
    }

    pub const fn f0_max() -> u8 {
        7
    }

    pub const fn f1_min() -> u8 {
        0
    }

    pub const fn f1_max() -> u8 {
        7
    }

    pub const fn f2_min() -> u8 {
        0
    }

    pub const fn f2_max() -> u8 {
        7
    }

    pub const fn f3_min() -> u8 {
        0
    }

    pub const fn f3_max() -> u8 {
        7
    }

    pub const fn f4_min() -> u8 {
        0
    }

    pub const fn f4_max() -> u8 {
        7
    }
}

#[asn(sequence, extensible_after(f0))]

#[derive(Default, Debug, Clone, PartialEq, Hash)]
pub struct Ts5mmddoe1 {
    #[asn(integer(0..7))] pub f0: u8,
    #[asn(optional(integer(0..7)))] pub f1: Option<u8>,
    #[asn(default(integer(0..7), 5))] pub f2: u8,
    #[asn(default(integer(0..7), 5))] pub f3: u8,
    #[asn(optional(integer(0..7)))] pub f4: Option<u8>,
}

impl Ts5mmddoe1 {
    pub const fn f0_min() -> u8 {
        0
    }

    pub const fn f0_max() -> u8 {
        7
    }

    pub const fn f1_min() -> u8 {
        0
    }

    pub const fn f1_max() -> u8 {
        7
    }

    pub const fn f2_min() -> u8 {
        0
    }

    pub const fn f2_max() -> u8 {
        7
    }

    pub const fn f3_min() -> u8 {
        0
    }

    pub const fn f3_max() -> u8 {
        7
    }

    pub const fn f4_min() -> u8 {
        0
    }

    pub const fn f4_max() -> u8 {
        7
    }
}

#[asn(sequence, extensible_after(f1))]

#[derive(Default, Debug, Clone, PartialEq, Hash)]
pub struct Ts5mmddoe2 {
    #[asn(integer(0..7))] pub f0: u8,
    #[asn(integer(0..7))] pub f1: u8,
    #[asn(default(integer(0..7), 5))] pub f2: u8,
    #[asn(default(integer(0..7), 5))] pub f3: u8,
    #[asn(optional(integer(0..7)))] pub f4: Option<u8>,
}

impl Ts5mmddoe2 {
    pub const fn f0_min() -> u8 {
        0
    }

    pub const fn f0_max() -> u8 {
        7
    }

    pub const fn f1_min() -> u8 {
        0
    }

    pub const fn f1_max() -> u8 {
        7
    }

    pub const fn f2_min() -> u8 {
        0
    }

    pub const fn f2_max() -> u8 {
        7
    }

    pub const fn f3_min() -> u8 {
        0
    }

    pub const fn f3_max() -> u8 {
        7
    }

    pub const fn f4_min() -> u8 {
        0
    }

    pub const fn f4_max() -> u8 {
        7
    }
}

#[asn(sequence, extensible_after(f2))]

#[derive(Default, Debug, Clone, PartialEq, Hash)]
pub struct Ts5mmddoe3 {
    #[asn(integer(0..7))] pub f0: u8,
    #[asn(integer(0..7))] pub f1: u8,
    #[asn(default(integer(0..7), 5))] pub f2: u8,
    #[asn(default(integer(0..7), 5))] pub f3: u8,
    #[asn(optional(integer(0..7)))] pub f4: Option<u8>,
}

impl Ts5mmddoe3 {
    pub const fn f0_min() -> u8 {
        0
    }

    pub const fn f0_max() -> u8 {
        7
    }

    pub const fn f1_min() -> u8 {
        0
    }

    pub const fn f1_max() -> u8 {
        7
    }

    pub const fn f2_min() -> u8 {
        0
    }

    pub const fn f2_max() -> u8 {
        7
    }

    pub const fn f3_min() -> u8 {
        0
    }

    pub const fn f3_max() -> u8 {
        7
    }

    pub const fn f4_min() -> u8 {
        0
    }

    pub const fn f4_max() -> u8 {
        7
    }
}

#[asn(sequence, extensible_after(f3))]

#[derive(Default, Debug, Clone, PartialEq, Hash)]
pub struct Ts5mmddoe4 {
    #[asn(integer(0..7))] pub f0: u8,
    #[asn(integer(0..7))] pub f1: u8,
    #[asn(default(integer(0..7), 5))] pub f2: u8,
    #[asn(default(integer(0..7), 5))] pub f3: u8,
    #[asn(optional(integer(0..7)))] pub f4: Option<u8>,
}

impl Ts5mmddoe4 {
    pub const fn f0_min() -> u8 {
        0
    }

    pub const fn f0_max() -> u8 {
        7
    }

    pub const fn f1_min() -> u8 {
        0
    }

    pub const fn f1_max() -> u8 {
        7
    }

    pub const fn f2_min() -> u8 {
        0
    }

    pub const fn f2_max() -> u8 {
        7
    }

    pub const fn f3_min() -> u8 {
        0
    }

    pub const fn f3_max() -> u8 {
        7
    }

    pub const fn f4_min() -> u8 {
        0
    }

    pub const fn f4_max() -> u8 {
        7
    }
}

#[asn(sequence, extensible_after(f4))]

#[derive(Default, Debug, Clone, PartialEq, Hash)]
pub struct Ts5mmddoe5 {
    #[asn(integer(0..7))] pub f0: u8,
    #[asn(integer(0..7))] pub f1: u8,
    #[asn(default(integer(0..7), 5))] pub f2: u8,
    #[asn(default(integer(0..7), 5))] pub f3: u8,
    #[asn(optional(integer(0..7)))] pub f4: Option<u8>,
}

impl Ts5mmddoe5 {
    pub const fn f0_min() -> u8 {
        0
    }

    pub const fn f0_max() -> u8 {
        7
    }

    pub const fn f1_min() -> u8 {
        0
    }

    pub const fn f1_max() -> u8 {
        7
    }

    pub const fn f2_min() -> u8 {
        0
    }

    pub const fn f2_max() -> u8 {
        7
    }

    pub const fn f3_min() -> u8 {
        0
    }

    pub const fn f3_max() -> u8 {
        7
    }

    pub const fn f4_min() -> u8 {
        0
    }

    pub const fn f4_max() -> u8 {
        7
    }
}

#[asn(sequence)]

#[derive(Default, Debug, Clone, PartialEq, Hash)]
pub struct Ts5omddon {
    #[asn(optional(integer(0..7)))] pub f0: Option<u8>,
    #[asn(integer(0..7))] pub f1: u8,
    #[asn(default(integer(0..7), 5))] pub f2: u8,
    #[asn(default(integer(0..7), 5))] pub f3: u8,
    #[asn(optional(integer(0..7)))] pub f4: Option<u8>,
}

impl Ts5omddon {
    pub const fn f0_min() -> u8 {
        0
    }

    pub const fn f0_max() -> u8 {
        7
    }

    pub const fn f1_min() -> u8 {
        0
    }

    pub const fn f1_max() -> u8 {
        7
    }

    pub const fn f2_min() -> u8 {
        0
    }

    pub const fn f2_max() -> u8 {
        7
    }

    pub const fn f3_min() -> u8 {
        0
    }

    pub const fn f3_max() -> u8 {
        7
    }

    pub const fn f4_min() -> u8 {
        0
    }

    pub const fn f4_max() -> u8 {
        7
    }
}

#[asn(sequence, extensible_after(f0))]

#[derive(Default, Debug, Clone, PartialEq, Hash)]
pub struct Ts5omddoe0 {
    #[asn(optional(integer(0..7)))] pub f0: Option<u8>,
    #[asn(optional(integer(0..7)))] pub f1: Option<u8>,
    #[asn(default(integer(0..7), 5))] pub f2: u8,
    #[asn(default(integer(0..7), 5))] pub f3: u8,
    #[asn(optional(integer(0..7)))] pub f4: Option<u8>,
}

impl Ts5omddoe0 {
    pub const fn f0_min() -> u8 {
        0
    }

    pub const fn f0_max() -> u8 {
        7
    }

    pub const fn f1_min() -> u8 {
        0
    }

    pub const fn f1_max() -> u8 {
        7
    }

    pub const fn f2_min() -> u8 {
        0
    }

    pub const fn f2_max() -> u8 {
        7
    }

    pub const fn f3_min() -> u8 {
        0
    }

    pub const fn f3_max() -> u8 {
        7
    }

    pub const fn f4_min() -> u8 {
        0
    }

    pub const fn f4_max() -> u8 {
        7
    }
}
// ---- harness conversions (generated by the zoo build script from the items above) ----
impl FromValue for Ts5dmmdoe0 {
    fn from_value(v: &Value) -> Self {
        let s = match v { Value::Seq(s) => s, other => panic!("Ts5dmmdoe0: expected Seq, got {other:?}") };
        assert_eq!(s.len(), 5, "Ts5dmmdoe0: component count");
        let _ = s;
        Ts5dmmdoe0 {
            f0: FromValue::from_value(s[0].as_ref().expect("component f0 of Ts5dmmdoe0 must be present")),
            f1: s[1].as_ref().map(FromValue::from_value),
            f2: s[2].as_ref().map(FromValue::from_value),
            f3: FromValue::from_value(s[3].as_ref().expect("component f3 of Ts5dmmdoe0 must be present")),
            f4: s[4].as_ref().map(FromValue::from_value),
        }
    }
}
impl ToValue for Ts5dmmdoe0 {
    fn to_value(&self) -> Value {
        Value::Seq(vec![
            Some(self.f0.to_value()),
            self.f1.as_ref().map(|x| x.to_value()),
            self.f2.as_ref().map(|x| x.to_value()),
            Some(self.f3.to_value()),
            self.f4.as_ref().map(|x| x.to_value()),
        ])
    }
}
impl FromValue for Ts5dmmdoe1 {
    fn from_value(v: &Value) -> Self {
        let s = match v { Value::Seq(s) => s, other => panic!("Ts5dmmdoe1: expected Seq, got {other:?}") };
        assert_eq!(s.len(), 5, "Ts5dmmdoe1: component count");
        let _ = s;
        Ts5dmmdoe1 {
            f0: FromValue::from_value(s[0].as_ref().expect("component f0 of Ts5dmmdoe1 must be present")),
            f1: s[1].as_ref().map(FromValue::from_value),
            f2: s[2].as_ref().map(FromValue::from_value),
            f3: FromValue::from_value(s[3].as_ref().expect("component f3 of Ts5dmmdoe1 must be present")),
            f4: s[4].as_ref().map(FromValue::from_value),
        }
    }
}
impl ToValue for Ts5dmmdoe1 {
    fn to_value(&self) -> Value {
        Value::Seq(vec![
            Some(self.f0.to_value()),
            self.f1.as_ref().map(|x| x.to_value()),
            self.f2.as_ref().map(|x| x.to_value()),
            Some(self.f3.to_value()),
            self.f4.as_ref().map(|x| x.to_value()),
        ])
    }
}
impl FromValue for Ts5dmmdoe2 {
    fn from_value(v: &Value) -> Self {
        let s = match v { Value::Seq(s) => s, other => panic!("Ts5dmmdoe2: expected Seq, got {other:?}") };
        assert_eq!(s.len(), 5, "Ts5dmmdoe2: component count");
        let _ = s;
        Ts5dmmdoe2 {
            f0: FromValue::from_value(s[0].as_ref().expect("component f0 of Ts5dmmdoe2 must be present")),
            f1: FromValue::from_value(s[1].as_ref().expect("component f1 of Ts5dmmdoe2 must be present")),
            f2: s[2].as_ref().map(FromValue::from_value),
            f3: FromValue::from_value(s[3].as_ref().expect("component f3 of Ts5dmmdoe2 must be present")),
            f4: s[4].as_ref().map(FromValue::from_value),
        }
    }
}
impl ToValue for Ts5dmmdoe2 {
    fn to_value(&self) -> Value {
        Value::Seq(vec![
            Some(self.f0.to_value()),
            Some(self.f1.to_value()),
            self.f2.as_ref().map(|x| x.to_value()),
            Some(self.f3.to_value()),
            self.f4.as_ref().map(|x| x.to_value()),
        ])
    }
}
impl FromValue for Ts5dmmdoe3 {
    fn from_value(v: &Value) -> Self {
        let s = match v { Value::Seq(s) => s, other => panic!("Ts5dmmdoe3: expected Seq, got {other:?}") };
        assert_eq!(s.len(), 5, "Ts5dmmdoe3: component count");
        let _ = s;
        Ts5dmmdoe3 {
            f0: FromValue::from_value(s[0].as_ref().expect("component f0 of Ts5dmmdoe3 must be present")),
            f1: FromValue::from_value(s[1].as_ref().expect("component f1 of Ts5dmmdoe3 must be present")),
            f2: FromValue::from_value(s[2].as_ref().expect("component f2 of Ts5dmmdoe3 must be present")),
            f3: FromValue::from_value(s[3].as_ref().expect("component f3 of Ts5dmmdoe3 must be present")),
            f4: s[4].as_ref().map(FromValue::from_value),
        }
    }
}
impl ToValue for Ts5dmmdoe3 {
    fn to_value(&self) -> Value {
        Value::Seq(vec![
            Some(self.f0.to_value()),
            Some(self.f1.to_value()),
            Some(self.f2.to_value()),
            Some(self.f3.to_value()),
            self.f4.as_ref().map(|x| x.to_value()),
        ])
    }
}
impl FromValue for Ts5dmmdoe4 {
    fn from_value(v: &Value) -> Self {
        let s = match v { Value::Seq(s) => s, other => panic!("Ts5dmmdoe4: expected Seq, got {other:?}") };
        assert_eq!(s.len(), 5, "Ts5dmmdoe4: component count");
        let _ = s;
        Ts5dmmdoe4 {
            f0: FromValue::from_value(s[0].as_ref().expect("component f0 of Ts5dmmdoe4 must be present")),
            f1: FromValue::from_value(s[1].as_ref().expect("component f1 of Ts5dmmdoe4 must be present")),
            f2: FromValue::from_value(s[2].as_ref().expect("component f2 of Ts5dmmdoe4 must be present")),
            f3: FromValue::from_value(s[3].as_ref().expect("component f3 of Ts5dmmdoe4 must be present")),
            f4: s[4].as_ref().map(FromValue::from_value),
        }
    }
}
impl ToValue for Ts5dmmdoe4 {
    fn to_value(&self) -> Value {
        Value::Seq(vec![
            Some(self.f0.to_value()),
            Some(self.f1.to_value()),
            Some(self.f2.to_value()),
            Some(self.f3.to_value()),
            self.f4.as_ref().map(|x| x.to_value()),
        ])
    }
}
impl FromValue for Ts5dmmdoe5 {
    fn from_value(v: &Value) -> Self {
        let s = match v { Value::Seq(s) => s, other => panic!("Ts5dmmdoe5: expected Seq, got {other:?}") };
        assert_eq!(s.len(), 5, "Ts5dmmdoe5: component count");
        let _ = s;
        Ts5dmmdoe5 {
            f0: FromValue::from_value(s[0].as_ref().expect("component f0 of Ts5dmmdoe5 must be present")),
            f1: FromValue::from_value(s[1].as_ref().expect("component f1 of Ts5dmmdoe5 must be present")),
            f2: FromValue::from_value(s[2].as_ref().expect("component f2 of Ts5dmmdoe5 must be present")),
            f3: FromValue::from_value(s[3].as_ref().expect("component f3 of Ts5dmmdoe5 must be present")),
            f4: s[4].as_ref().map(FromValue::from_value),
        }
    }
}
impl ToValue for Ts5dmmdoe5 {
    fn to_value(&self) -> Value {
        Value::Seq(vec![
            Some(self.f0.to_value()),
            Some(self.f1.to_value()),
            Some(self.f2.to_value()),
            Some(self.f3.to_value()),
            self.f4.as_ref().map(|x| x.to_value()),
        ])
    }
}
impl FromValue for Ts5momdon {
    fn from_value(v: &Value) -> Self {
        let s = match v { Value::Seq(s) => s, other => panic!("Ts5momdon: expected Seq, got {other:?}") };
        assert_eq!(s.len(), 5, "Ts5momdon: component count");
        let _ = s;
        Ts5momdon {
            f0: FromValue::from_value(s[0].as_ref().expect("component f0 of Ts5momdon must be present")),
            f1: s[1].as_ref().map(FromValue::from_value),
            f2: FromValue::from_value(s[2].as_ref().expect("component f2 of Ts5momdon must be present")),
            f3: FromValue::from_value(s[3].as_ref().expect("component f3 of Ts5momdon must be present")),
            f4: s[4].as_ref().map(FromValue::from_value),
        }
    }
}
impl ToValue for Ts5momdon {
    fn to_value(&self) -> Value {
        Value::Seq(vec![
            Some(self.f0.to_value()),
            self.f1.as_ref().map(|x| x.to_value()),
            Some(self.f2.to_value()),
            Some(self.f3.to_value()),
            self.f4.as_ref().map(|x| x.to_value()),
        ])
    }
}
impl FromValue for Ts5momdoe0 {
    fn from_value(v: &Value) -> Self {
        let s = match v { Value::Seq(s) => s, other => panic!("Ts5momdoe0: expected Seq, got {other:?}") };
        assert_eq!(s.len(), 5, "Ts5momdoe0: component count");
        let _ = s;
        Ts5momdoe0 {
            f0: FromValue::from_value(s[0].as_ref().expect("component f0 of Ts5momdoe0 must be present")),
            f1: s[1].as_ref().map(FromValue::from_value),
            f2: s[2].as_ref().map(FromValue::from_value),
            f3: FromValue::from_value(s[3].as_ref().expect("component f3 of Ts5momdoe0 must be present")),
            f4: s[4].as_ref().map(FromValue::from_value),
        }
    }
}
impl ToValue for Ts5momdoe0 {
    fn to_value(&self) -> Value {
        Value::Seq(vec![
            Some(self.f0.to_value()),
            self.f1.as_ref().map(|x| x.to_value()),
            self.f2.as_ref().map(|x| x.to_value()),
            Some(self.f3.to_value()),
            self.f4.as_ref().map(|x| x.to_value()),
        ])
    }
}
impl FromValue for Ts5momdoe1 {
    fn from_value(v: &Value) -> Self {
        let s = match v { Value::Seq(s) => s, other => panic!("Ts5momdoe1: expected Seq, got {other:?}") };
        assert_eq!(s.len(), 5, "Ts5momdoe1: component count");
        let _ = s;
        Ts5momdoe1 {
            f0: FromValue::from_value(s[0].as_ref().expect("component f0 of Ts5momdoe1 must be present")),
            f1: s[1].as_ref().map(FromValue::from_value),
            f2: s[2].as_ref().map(FromValue::from_value),
            f3: FromValue::from_value(s[3].as_ref().expect("component f3 of Ts5momdoe1 must be present")),
            f4: s[4].as_ref().map(FromValue::from_value),
        }
    }
}
impl ToValue for Ts5momdoe1 {
    fn to_value(&self) -> Value {
        Value::Seq(vec![
            Some(self.f0.to_value()),
            self.f1.as_ref().map(|x| x.to_value()),
            self.f2.as_ref().map(|x| x.to_value()),
            Some(self.f3.to_value()),
            self.f4.as_ref().map(|x| x.to_value()),
        ])
    }
}
impl FromValue for Ts5momdoe2 {
    fn from_value(v: &Value) -> Self {
        let s = match v { Value::Seq(s) => s, other => panic!("Ts5momdoe2: expected Seq, got {other:?}") };
        assert_eq!(s.len(), 5, "Ts5momdoe2: component count");
        let _ = s;
        Ts5momdoe2 {
            f0: FromValue::from_value(s[0].as_ref().expect("component f0 of Ts5momdoe2 must be present")),
            f1: s[1].as_ref().map(FromValue::from_value),
            f2: s[2].as_ref().map(FromValue::from_value),
            f3: FromValue::from_value(s[3].as_ref().expect("component f3 of Ts5momdoe2 must be present")),
            f4: s[4].as_ref().map(FromValue::from_value),
        }
    }
}
impl ToValue for Ts5momdoe2 {
    fn to_value(&self) -> Value {
        Value::Seq(vec![
            Some(self.f0.to_value()),
            self.f1.as_ref().map(|x| x.to_value()),
            self.f2.as_ref().map(|x| x.to_value()),
            Some(self.f3.to_value()),
            self.f4.as_ref().map(|x| x.to_value()),
        ])
    }
}
impl FromValue for Ts5momdoe3 {
    fn from_value(v: &Value) -> Self {
        let s = match v { Value::Seq(s) => s, other => panic!("Ts5momdoe3: expected Seq, got {other:?}") };
        assert_eq!(s.len(), 5, "Ts5momdoe3: component count");
        let _ = s;
        Ts5momdoe3 {
            f0: FromValue::from_value(s[0].as_ref().expect("component f0 of Ts5momdoe3 must be present")),
            f1: s[1].as_ref().map(FromValue::from_value),
            f2: FromValue::from_value(s[2].as_ref().expect("component f2 of Ts5momdoe3 must be present")),
            f3: FromValue::from_value(s[3].as_ref().expect("component f3 of Ts5momdoe3 must be present")),
            f4: s[4].as_ref().map(FromValue::from_value),
        }
    }
}
impl ToValue for Ts5momdoe3 {
    fn to_value(&self) -> Value {
        Value::Seq(vec![
            Some(self.f0.to_value()),
            self.f1.as_ref().map(|x| x.to_value()),
            Some(self.f2.to_value()),
            Some(self.f3.to_value()),
            self.f4.as_ref().map(|x| x.to_value()),
        ])
    }
}
impl FromValue for Ts5momdoe4 {
    fn from_value(v: &Value) -> Self {
        let s = match v { Value::Seq(s) => s, other => panic!("Ts5momdoe4: expected Seq, got {other:?}") };
        assert_eq!(s.len(), 5, "Ts5momdoe4: component count");
        let _ = s;
        Ts5momdoe4 {
            f0: FromValue::from_value(s[0].as_ref().expect("component f0 of Ts5momdoe4 must be present")),
            f1: s[1].as_ref().map(FromValue::from_value),
            f2: FromValue::from_value(s[2].as_ref().expect("component f2 of Ts5momdoe4 must be present")),
            f3: FromValue::from_value(s[3].as_ref().expect("component f3 of Ts5momdoe4 must be present")),
            f4: s[4].as_ref().map(FromValue::from_value),
        }
    }
}
impl ToValue for Ts5momdoe4 {
    fn to_value(&self) -> Value {
        Value::Seq(vec![
            Some(self.f0.to_value()),
            self.f1.as_ref().map(|x| x.to_value()),
            Some(self.f2.to_value()),
            Some(self.f3.to_value()),
            self.f4.as_ref().map(|x| x.to_value()),
        ])
    }
}
impl FromValue for Ts5momdoe5 {
    fn from_value(v: &Value) -> Self {
        let s = match v { Value::Seq(s) => s, other => panic!("Ts5momdoe5: expected Seq, got {other:?}") };
        assert_eq!(s.len(), 5, "Ts5momdoe5: component count");
        let _ = s;
        Ts5momdoe5 {
            f0: FromValue::from_value(s[0].as_ref().expect("component f0 of Ts5momdoe5 must be present")),
            f1: s[1].as_ref().map(FromValue::from_value),
            f2: FromValue::from_value(s[2].as_ref().expect("component f2 of Ts5momdoe5 must be present")),
            f3: FromValue::from_value(s[3].as_ref().expect("component f3 of Ts5momdoe5 must be present")),
            f4: s[4].as_ref().map(FromValue::from_value),
        }
    }
}
impl ToValue for Ts5momdoe5 {
    fn to_value(&self) -> Value {
        Value::Seq(vec![
            Some(self.f0.to_value()),
            self.f1.as_ref().map(|x| x.to_value()),
            Some(self.f2.to_value()),
            Some(self.f3.to_value()),
            self.f4.as_ref().map(|x| x.to_value()),
        ])
    }
}
impl FromValue for Ts5oomdon {
    fn from_value(v: &Value) -> Self {
        let s = match v { Value::Seq(s) => s, other => panic!("Ts5oomdon: expected Seq, got {other:?}") };
        assert_eq!(s.len(), 5, "Ts5oomdon: component count");
        let _ = s;
        Ts5oomdon {
            f0: s[0].as_ref().map(FromValue::from_value),
            f1: s[1].as_ref().map(FromValue::from_value),
            f2: FromValue::from_value(s[2].as_ref().expect("component f2 of Ts5oomdon must be present")),
            f3: FromValue::from_value(s[3].as_ref().expect("component f3 of Ts5oomdon must be present")),
            f4: s[4].as_ref().map(FromValue::from_value),
        }
    }
}
impl ToValue for Ts5oomdon {
    fn to_value(&self) -> Value {
        Value::Seq(vec![
            self.f0.as_ref().map(|x| x.to_value()),
            self.f1.as_ref().map(|x| x.to_value()),
            Some(self.f2.to_value()),
            Some(self.f3.to_value()),
            self.f4.as_ref().map(|x| x.to_value()),
        ])
    }
}
impl FromValue for Ts5oomdoe0 {
    fn from_value(v: &Value) -> Self {
        let s = match v { Value::Seq(s) => s, other => panic!("Ts5oomdoe0: expected Seq, got {other:?}") };
        assert_eq!(s.len(), 5, "Ts5oomdoe0: component count");
        let _ = s;
        Ts5oomdoe0 {
            f0: s[0].as_ref().map(FromValue::from_value),
            f1: s[1].as_ref().map(FromValue::from_value),
            f2: s[2].as_ref().map(FromValue::from_value),
            f3: FromValue::from_value(s[3].as_ref().expect("component f3 of Ts5oomdoe0 must be present")),
            f4: s[4].as_ref().map(FromValue::from_value),
        }
    }
}
impl ToValue for Ts5oomdoe0 {
    fn to_value(&self) -> Value {
        Value::Seq(vec![
            self.f0.as_ref().map(|x| x.to_value()),
            self.f1.as_ref().map(|x| x.to_value()),
            self.f2.as_ref().map(|x| x.to_value()),
            Some(self.f3.to_value()),
            self.f4.as_ref().map(|x| x.to_value()),
        ])
    }
}
impl FromValue for Ts5oomdoe1 {
    fn from_value(v: &Value) -> Self {
        let s = match v { Value::Seq(s) => s, other => panic!("Ts5oomdoe1: expected Seq, got {other:?}") };
        assert_eq!(s.len(), 5, "Ts5oomdoe1: component count");
        let _ = s;
        Ts5oomdoe1 {
            f0: s[0].as_ref().map(FromValue::from_value),
            f1: s[1].as_ref().map(FromValue::from_value),
            f2: s[2].as_ref().map(FromValue::from_value),
            f3: FromValue::from_value(s[3].as_ref().expect("component f3 of Ts5oomdoe1 must be present")),
            f4: s[4].as_ref().map(FromValue::from_value),
        }
    }
}
impl ToValue for Ts5oomdoe1 {
    fn to_value(&self) -> Value {
        Value::Seq(vec![
            self.f0.as_ref().map(|x| x.to_value()),
            self.f1.as_ref().map(|x| x.to_value()),
            self.f2.as_ref().map(|x| x.to_value()),
            Some(self.f3.to_value()),
            self.f4.as_ref().map(|x| x.to_value()),
        ])
    }
}
impl FromValue for Ts5oomdoe2 {
    fn from_value(v: &Value) -> Self {
        let s = match v { Value::Seq(s) => s, other => panic!("Ts5oomdoe2: expected Seq, got {other:?}") };
        assert_eq!(s.len(), 5, "Ts5oomdoe2: component count");
        let _ = s;
        Ts5oomdoe2 {
            f0: s[0].as_ref().map(FromValue::from_value),
            f1: s[1].as_ref().map(FromValue::from_value),
            f2: s[2].as_ref().map(FromValue::from_value),
            f3: FromValue::from_value(s[3].as_ref().expect("component f3 of Ts5oomdoe2 must be present")),
            f4: s[4].as_ref().map(FromValue::from_value),
        }
    }
}
impl ToValue for Ts5oomdoe2 {
    fn to_value(&self) -> Value {
        Value::Seq(vec![
            self.f0.as_ref().map(|x| x.to_value()),
            self.f1.as_ref().map(|x| x.to_value()),
            self.f2.as_ref().map(|x| x.to_value()),
            Some(self.f3.to_value()),
            self.f4.as_ref().map(|x| x.to_value()),
        ])
    }
}
impl FromValue for Ts5oomdoe3 {
    fn from_value(v: &Value) -> Self {
        let s = match v { Value::Seq(s) => s, other => panic!("Ts5oomdoe3: expected Seq, got {other:?}") };
        assert_eq!(s.len(), 5, "Ts5oomdoe3: component count");
        let _ = s;
        Ts5oomdoe3 {
            f0: s[0].as_ref().map(FromValue::from_value),
            f1: s[1].as_ref().map(FromValue::from_value),
            f2: FromValue::from_value(s[2].as_ref().expect("component f2 of Ts5oomdoe3 must be present")),
            f3: FromValue::from_value(s[3].as_ref().expect("component f3 of Ts5oomdoe3 must be present")),
            f4: s[4].as_ref().map(FromValue::from_value),
        }
    }
}
impl ToValue for Ts5oomdoe3 {
    fn to_value(&self) -> Value {
        Value::Seq(vec![
            self.f0.as_ref().map(|x| x.to_value()),
            self.f1.as_ref().map(|x| x.to_value()),
            Some(self.f2.to_value()),
            Some(self.f3.to_value()),
            self.f4.as_ref().map(|x| x.to_value()),
        ])
    }
}
impl FromValue for Ts5oomdoe4 {
    fn from_value(v: &Value) -> Self {
        let s = match v { Value::Seq(s) => s, other => panic!("Ts5oomdoe4: expected Seq, got {other:?}") };
        assert_eq!(s.len(), 5, "Ts5oomdoe4: component count");
        let _ = s;
        Ts5oomdoe4 {
            f0: s[0].as_ref().map(FromValue::from_value),
            f1: s[1].as_ref().map(FromValue::from_value),
            f2: FromValue::from_value(s[2].as_ref().expect("component f2 of Ts5oomdoe4 must be present")),
            f3: FromValue::from_value(s[3].as_ref().expect("component f3 of Ts5oomdoe4 must be present")),
            f4: s[4].as_ref().map(FromValue::from_value),
        }
    }
}
impl ToValue for Ts5oomdoe4 {
    fn to_value(&self) -> Value {
        Value::Seq(vec![
            self.f0.as_ref().map(|x| x.to_value()),
            self.f1.as_ref().map(|x| x.to_value()),
            Some(self.f2.to_value()),
            Some(self.f3.to_value()),
            self.f4.as_ref().map(|x| x.to_value()),
        ])
    }
}
impl FromValue for Ts5oomdoe5 {
    fn from_value(v: &Value) -> Self {
        let s = match v { Value::Seq(s) => s, other => panic!("Ts5oomdoe5: expected Seq, got {other:?}") };
        assert_eq!(s.len(), 5, "Ts5oomdoe5: component count");
        let _ = s;
        Ts5oomdoe5 {
            f0: s[0].as_ref().map(FromValue::from_value),
            f1: s[1].as_ref().map(FromValue::from_value),
            f2: FromValue::from_value(s[2].as_ref().expect("component f2 of Ts5oomdoe5 must be present")),
            f3: FromValue::from_value(s[3].as_ref().expect("component f3 of Ts5oomdoe5 must be present")),
            f4: s[4].as_ref().map(FromValue::from_value),
        }
    }
}
impl ToValue for Ts5oomdoe5 {
    fn to_value(&self) -> Value {
        Value::Seq(vec![
            self.f0.as_ref().map(|x| x.to_value()),
            self.f1.as_ref().map(|x| x.to_value()),
            Some(self.f2.to_value()),
            Some(self.f3.to_value()),
            self.f4.as_ref().map(|x| x.to_value()),
        ])
    }
}
impl FromValue for Ts5domdon {
    fn from_value(v: &Value) -> Self {
        let s = match v { Value::Seq(s) => s, other => panic!("Ts5domdon: expected Seq, got {other:?}") };
        assert_eq!(s.len(), 5, "Ts5domdon: component count");
        let _ = s;
        Ts5domdon {
            f0: FromValue::from_value(s[0].as_ref().expect("component f0 of Ts5domdon must be present")),
            f1: s[1].as_ref().map(FromValue::from_value),
            f2: FromValue::from_value(s[2].as_ref().expect("component f2 of Ts5domdon must be present")),
            f3: FromValue::from_value(s[3].as_ref().expect("component f3 of Ts5domdon must be present")),
            f4: s[4].as_ref().map(FromValue::from_value),
        }
    }
}
impl ToValue for Ts5domdon {
    fn to_value(&self) -> Value {
        Value::Seq(vec![
            Some(self.f0.to_value()),
            self.f1.as_ref().map(|x| x.to_value()),
            Some(self.f2.to_value()),
            Some(self.f3.to_value()),
            self.f4.as_ref().map(|x| x.to_value()),
        ])
    }
}
impl FromValue for Ts5domdoe0 {
    fn from_value(v: &Value) -> Self {
        let s = match v { Value::Seq(s) => s, other => panic!("Ts5domdoe0: expected Seq, got {other:?}") };
        assert_eq!(s.len(), 5, "Ts5domdoe0: component count");
        let _ = s;
        Ts5domdoe0 {
            f0: FromValue::from_value(s[0].as_ref().expect("component f0 of Ts5domdoe0 must be present")),
            f1: s[1].as_ref().map(FromValue::from_value),
            f2: s[2].as_ref().map(FromValue::from_value),
            f3: FromValue::from_value(s[3].as_ref().expect("component f3 of Ts5domdoe0 must be present")),
            f4: s[4].as_ref().map(FromValue::from_value),
        }
    }
}
impl ToValue for Ts5domdoe0 {
    fn to_value(&self) -> Value {
        Value::Seq(vec![
            Some(self.f0.to_value()),
            self.f1.as_ref().map(|x| x.to_value()),
            self.f2.as_ref().map(|x| x.to_value()),
            Some(self.f3.to_value()),
            self.f4.as_ref().map(|x| x.to_value()),
        ])
    }
}
impl FromValue for Ts5domdoe1 {
    fn from_value(v: &Value) -> Self {
        let s = match v { Value::Seq(s) => s, other => panic!("Ts5domdoe1: expected Seq, got {other:?}") };
        assert_eq!(s.len(), 5, "Ts5domdoe1: component count");
        let _ = s;
        Ts5domdoe1 {
            f0: FromValue::from_value(s[0].as_ref().expect("component f0 of Ts5domdoe1 must be present")),
            f1: s[1].as_ref().map(FromValue::from_value),
            f2: s[2].as_ref().map(FromValue::from_value),
            f3: FromValue::from_value(s[3].as_ref().expect("component f3 of Ts5domdoe1 must be present")),
            f4: s[4].as_ref().map(FromValue::from_value),
        }
    }
}
impl ToValue for Ts5domdoe1 {
    fn to_value(&self) -> Value {
        Value::Seq(vec![
            Some(self.f0.to_value()),
            self.f1.as_ref().map(|x| x.to_value()),
            self.f2.as_ref().map(|x| x.to_value()),
            Some(self.f3.to_value()),
            self.f4.as_ref().map(|x| x.to_value()),
        ])
    }
}
impl FromValue for Ts5domdoe2 {
    fn from_value(v: &Value) -> Self {
        let s = match v { Value::Seq(s) => s, other => panic!("Ts5domdoe2: expected Seq, got {other:?}") };
        assert_eq!(s.len(), 5, "Ts5domdoe2: component count");
        let _ = s;
        Ts5domdoe2 {
            f0: FromValue::from_value(s[0].as_ref().expect("component f0 of Ts5domdoe2 must be present")),
            f1: s[1].as_ref().map(FromValue::from_value),
            f2: s[2].as_ref().map(FromValue::from_value),
            f3: FromValue::from_value(s[3].as_ref().expect("component f3 of Ts5domdoe2 must be present")),
            f4: s[4].as_ref().map(FromValue::from_value),
        }
    }
}
impl ToValue for Ts5domdoe2 {
    fn to_value(&self) -> Value {
        Value::Seq(vec![
            Some(self.f0.to_value()),
            self.f1.as_ref().map(|x| x.to_value()),
            self.f2.as_ref().map(|x| x.to_value()),
            Some(self.f3.to_value()),
            self.f4.as_ref().map(|x| x.to_value()),
        ])
    }
}
impl FromValue for Ts5domdoe3 {
    fn from_value(v: &Value) -> Self {
        let s = match v { Value::Seq(s) => s, other => panic!("Ts5domdoe3: expected Seq, got {other:?}") };
        assert_eq!(s.len(), 5, "Ts5domdoe3: component count");
        let _ = s;
        Ts5domdoe3 {
            f0: FromValue::from_value(s[0].as_ref().expect("component f0 of Ts5domdoe3 must be present")),
            f1: s[1].as_ref().map(FromValue::from_value),
            f2: FromValue::from_value(s[2].as_ref().expect("component f2 of Ts5domdoe3 must be present")),
            f3: FromValue::from_value(s[3].as_ref().expect("component f3 of Ts5domdoe3 must be present")),
            f4: s[4].as_ref().map(FromValue::from_value),
        }
    }
}
impl ToValue for Ts5domdoe3 {
    fn to_value(&self) -> Value {
        Value::Seq(vec![
            Some(self.f0.to_value()),
            self.f1.as_ref().map(|x| x.to_value()),
            Some(self.f2.to_value()),
            Some(self.f3.to_value()),
            self.f4.as_ref().map(|x| x.to_value()),
        ])
    }
}
impl FromValue for Ts5domdoe4 {
    fn from_value(v: &Value) -> Self {
        let s = match v { Value::Seq(s) => s, other => panic!("Ts5domdoe4: expected Seq, got {other:?}") };
        assert_eq!(s.len(), 5, "Ts5domdoe4: component count");
        let _ = s;
        Ts5domdoe4 {
            f0: FromValue::from_value(s[0].as_ref().expect("component f0 of Ts5domdoe4 must be present")),
            f1: s[1].as_ref().map(FromValue::from_value),
            f2: FromValue::from_value(s[2].as_ref().expect("component f2 of Ts5domdoe4 must be present")),
            f3: FromValue::from_value(s[3].as_ref().expect("component f3 of Ts5domdoe4 must be present")),
            f4: s[4].as_ref().map(FromValue::from_value),
        }
    }
}
impl ToValue for Ts5domdoe4 {
    fn to_value(&self) -> Value {
        Value::Seq(vec![
            Some(self.f0.to_value()),
            self.f1.as_ref().map(|x| x.to_value()),
            Some(self.f2.to_value()),
            Some(self.f3.to_value()),
            self.f4.as_ref().map(|x| x.to_value()),
        ])
    }
}
impl FromValue for Ts5domdoe5 {
    fn from_value(v: &Value) -> Self {
        let s = match v { Value::Seq(s) => s, other => panic!("Ts5domdoe5: expected Seq, got {other:?}") };
        assert_eq!(s.len(), 5, "Ts5domdoe5: component count");
        let _ = s;
        Ts5domdoe5 {
            f0: FromValue::from_value(s[0].as_ref().expect("component f0 of Ts5domdoe5 must be present")),
            f1: s[1].as_ref().map(FromValue::from_value),
            f2: FromValue::from_value(s[2].as_ref().expect("component f2 of Ts5domdoe5 must be present")),
            f3: FromValue::from_value(s[3].as_ref().expect("component f3 of Ts5domdoe5 must be present")),
            f4: s[4].as_ref().map(FromValue::from_value),
        }
    }
}
impl ToValue for Ts5domdoe5 {
    fn to_value(&self) -> Value {
        Value::Seq(vec![
            Some(self.f0.to_value()),
            self.f1.as_ref().map(|x| x.to_value()),
            Some(self.f2.to_value()),
            Some(self.f3.to_value()),
            self.f4.as_ref().map(|x| x.to_value()),
        ])
    }
}
impl FromValue for Ts5mdmdon {
    fn from_value(v: &Value) -> Self {
        let s = match v { Value::Seq(s) => s, other => panic!("Ts5mdmdon: expected Seq, got {other:?}") };
        assert_eq!(s.len(), 5, "Ts5mdmdon: component count");
        let _ = s;
        Ts5mdmdon {
            f0: FromValue::from_value(s[0].as_ref().expect("component f0 of Ts5mdmdon must be present")),
            f1: FromValue::from_value(s[1].as_ref().expect("component f1 of Ts5mdmdon must be present")),
            f2: FromValue::from_value(s[2].as_ref().expect("component f2 of Ts5mdmdon must be present")),
            f3: FromValue::from_value(s[3].as_ref().expect("component f3 of Ts5mdmdon must be present")),
            f4: s[4].as_ref().map(FromValue::from_value),
        }
    }
}
impl ToValue for Ts5mdmdon {
    fn to_value(&self) -> Value {
        Value::Seq(vec![
            Some(self.f0.to_value()),
            Some(self.f1.to_value()),
            Some(self.f2.to_value()),
            Some(self.f3.to_value()),
            self.f4.as_ref().map(|x| x.to_value()),
        ])
    }
}
impl FromValue for Ts5mdmdoe0 {
    fn from_value(v: &Value) -> Self {
        let s = match v { Value::Seq(s) => s, other => panic!("Ts5mdmdoe0: expected Seq, got {other:?}") };
        assert_eq!(s.len(), 5, "Ts5mdmdoe0: component count");
        let _ = s;
        Ts5mdmdoe0 {
            f0: FromValue::from_value(s[0].as_ref().expect("component f0 of Ts5mdmdoe0 must be present")),
            f1: FromValue::from_value(s[1].as_ref().expect("component f1 of Ts5mdmdoe0 must be present")),
            f2: s[2].as_ref().map(FromValue::from_value),
            f3: FromValue::from_value(s[3].as_ref().expect("component f3 of Ts5mdmdoe0 must be present")),
            f4: s[4].as_ref().map(FromValue::from_value),
        }
    }
}
impl ToValue for Ts5mdmdoe0 {
    fn to_value(&self) -> Value {
        Value::Seq(vec![
            Some(self.f0.to_value()),
            Some(self.f1.to_value()),
            self.f2.as_ref().map(|x| x.to_value()),
            Some(self.f3.to_value()),
            self.f4.as_ref().map(|x| x.to_value()),
        ])
    }
}
impl FromValue for Ts5mdmdoe1 {
    fn from_value(v: &Value) -> Self {
        let s = match v { Value::Seq(s) => s, other => panic!("Ts5mdmdoe1: expected Seq, got {other:?}") };
        assert_eq!(s.len(), 5, "Ts5mdmdoe1: component count");
        let _ = s;
        Ts5mdmdoe1 {
            f0: FromValue::from_value(s[0].as_ref().expect("component f0 of Ts5mdmdoe1 must be present")),
            f1: FromValue::from_value(s[1].as_ref().expect("component f1 of Ts5mdmdoe1 must be present")),
            f2: s[2].as_ref().map(FromValue::from_value),
            f3: FromValue::from_value(s[3].as_ref().expect("component f3 of Ts5mdmdoe1 must be present")),
            f4: s[4].as_ref().map(FromValue::from_value),
        }
    }
}
impl ToValue for Ts5mdmdoe1 {
    fn to_value(&self) -> Value {
        Value::Seq(vec![
            Some(self.f0.to_value()),
            Some(self.f1.to_value()),
            self.f2.as_ref().map(|x| x.to_value()),
            Some(self.f3.to_value()),
            self.f4.as_ref().map(|x| x.to_value()),
        ])
    }
}
impl FromValue for Ts5mdmdoe2 {
    fn from_value(v: &Value) -> Self {
        let s = match v { Value::Seq(s) => s, other => panic!("Ts5mdmdoe2: expected Seq, got {other:?}") };
        assert_eq!(s.len(), 5, "Ts5mdmdoe2: component count");
        let _ = s;
        Ts5mdmdoe2 {
            f0: FromValue::from_value(s[0].as_ref().expect("component f0 of Ts5mdmdoe2 must be present")),
            f1: FromValue::from_value(s[1].as_ref().expect("component f1 of Ts5mdmdoe2 must be present")),
            f2: s[2].as_ref().map(FromValue::from_value),
            f3: FromValue::from_value(s[3].as_ref().expect("component f3 of Ts5mdmdoe2 must be present")),
            f4: s[4].as_ref().map(FromValue::from_value),
        }
    }
}
impl ToValue for Ts5mdmdoe2 {
    fn to_value(&self) -> Value {
        Value::Seq(vec![
            Some(self.f0.to_value()),
            Some(self.f1.to_value()),
            self.f2.as_ref().map(|x| x.to_value()),
            Some(self.f3.to_value()),
            self.f4.as_ref().map(|x| x.to_value()),
        ])
    }
}
impl FromValue for Ts5mdmdoe3 {
    fn from_value(v: &Value) -> Self {
        let s = match v { Value::Seq(s) => s, other => panic!("Ts5mdmdoe3: expected Seq, got {other:?}") };
        assert_eq!(s.len(), 5, "Ts5mdmdoe3: component count");
        let _ = s;
        Ts5mdmdoe3 {
            f0: FromValue::from_value(s[0].as_ref().expect("component f0 of Ts5mdmdoe3 must be present")),
            f1: FromValue::from_value(s[1].as_ref().expect("component f1 of Ts5mdmdoe3 must be present")),
            f2: FromValue::from_value(s[2].as_ref().expect("component f2 of Ts5mdmdoe3 must be present")),
            f3: FromValue::from_value(s[3].as_ref().expect("component f3 of Ts5mdmdoe3 must be present")),
            f4: s[4].as_ref().map(FromValue::from_value),
        }
    }
}
impl ToValue for Ts5mdmdoe3 {
    fn to_value(&self) -> Value {
        Value::Seq(vec![
            Some(self.f0.to_value()),
            Some(self.f1.to_value()),
            Some(self.f2.to_value()),
            Some(self.f3.to_value()),
            self.f4.as_ref().map(|x| x.to_value()),
        ])
    }
}
impl FromValue for Ts5mdmdoe4 {
    fn from_value(v: &Value) -> Self {
        let s = match v { Value::Seq(s) => s, other => panic!("Ts5mdmdoe4: expected Seq, got {other:?}") };
        assert_eq!(s.len(), 5, "Ts5mdmdoe4: component count");
        let _ = s;
        Ts5mdmdoe4 {
            f0: FromValue::from_value(s[0].as_ref().expect("component f0 of Ts5mdmdoe4 must be present")),
            f1: FromValue::from_value(s[1].as_ref().expect("component f1 of Ts5mdmdoe4 must be present")),
            f2: FromValue::from_value(s[2].as_ref().expect("component f2 of Ts5mdmdoe4 must be present")),
            f3: FromValue::from_value(s[3].as_ref().expect("component f3 of Ts5mdmdoe4 must be present")),
            f4: s[4].as_ref().map(FromValue::from_value),
        }
    }
}
impl ToValue for Ts5mdmdoe4 {
    fn to_value(&self) -> Value {
        Value::Seq(vec![
            Some(self.f0.to_value()),
            Some(self.f1.to_value()),
            Some(self.f2.to_value()),
            Some(self.f3.to_value()),
            self.f4.as_ref().map(|x| x.to_value()),
        ])
    }
}
impl FromValue for Ts5mdmdoe5 {
    fn from_value(v: &Value) -> Self {
        let s = match v { Value::Seq(s) => s, other => panic!("Ts5mdmdoe5: expected Seq, got {other:?}") };
        assert_eq!(s.len(), 5, "Ts5mdmdoe5: component count");
        let _ = s;
        Ts5mdmdoe5 {
            f0: FromValue::from_value(s[0].as_ref().expect("component f0 of Ts5mdmdoe5 must be present")),
            f1: FromValue::from_value(s[1].as_ref().expect("component f1 of Ts5mdmdoe5 must be present")),
            f2: FromValue::from_value(s[2].as_ref().expect("component f2 of Ts5mdmdoe5 must be present")),
            f3: FromValue::from_value(s[3].as_ref().expect("component f3 of Ts5mdmdoe5 must be present")),
            f4: s[4].as_ref().map(FromValue::from_value),
        }
    }
}
impl ToValue for Ts5mdmdoe5 {
    fn to_value(&self) -> Value {
        Value::Seq(vec![
            Some(self.f0.to_value()),
            Some(self.f1.to_value()),
            Some(self.f2.to_value()),
            Some(self.f3.to_value()),
            self.f4.as_ref().map(|x| x.to_value()),
        ])
    }
}
impl FromValue for Ts5odmdon {
    fn from_value(v: &Value) -> Self {
        let s = match v { Value::Seq(s) => s, other => panic!("Ts5odmdon: expected Seq, got {other:?}") };
        assert_eq!(s.len(), 5, "Ts5odmdon: component count");
        let _ = s;
        Ts5odmdon {
            f0: s[0].as_ref().map(FromValue::from_value),
            f1: FromValue::from_value(s[1].as_ref().expect("component f1 of Ts5odmdon must be present")),
            f2: FromValue::from_value(s[2].as_ref().expect("component f2 of Ts5odmdon must be present")),
            f3: FromValue::from_value(s[3].as_ref().expect("component f3 of Ts5odmdon must be present")),
            f4: s[4].as_ref().map(FromValue::from_value),
        }
    }
}
impl ToValue for Ts5odmdon {
    fn to_value(&self) -> Value {
        Value::Seq(vec![
            self.f0.as_ref().map(|x| x.to_value()),
            Some(self.f1.to_value()),
            Some(self.f2.to_value()),
            Some(self.f3.to_value()),
            self.f4.as_ref().map(|x| x.to_value()),
        ])
    }
}
impl FromValue for Ts5odmdoe0 {
    fn from_value(v: &Value) -> Self {
        let s = match v { Value::Seq(s) => s, other => panic!("Ts5odmdoe0: expected Seq, got {other:?}") };
        assert_eq!(s.len(), 5, "Ts5odmdoe0: component count");
        let _ = s;
        Ts5odmdoe0 {
            f0: s[0].as_ref().map(FromValue::from_value),
            f1: FromValue::from_value(s[1].as_ref().expect("component f1 of Ts5odmdoe0 must be present")),
            f2: s[2].as_ref().map(FromValue::from_value),
            f3: FromValue::from_value(s[3].as_ref().expect("component f3 of Ts5odmdoe0 must be present")),
            f4: s[4].as_ref().map(FromValue::from_value),
        }
    }
}
impl ToValue for Ts5odmdoe0 {
    fn to_value(&self) -> Value {
        Value::Seq(vec![
            self.f0.as_ref().map(|x| x.to_value()),
            Some(self.f1.to_value()),
            self.f2.as_ref().map(|x| x.to_value()),
            Some(self.f3.to_value()),
            self.f4.as_ref().map(|x| x.to_value()),
        ])
    }
}
impl FromValue for Ts5odmdoe1 {
    fn from_value(v: &Value) -> Self {
        let s = match v { Value::Seq(s) => s, other => panic!("Ts5odmdoe1: expected Seq, got {other:?}") };
        assert_eq!(s.len(), 5, "Ts5odmdoe1: component count");
        let _ = s;
        Ts5odmdoe1 {
            f0: s[0].as_ref().map(FromValue::from_value),
            f1: FromValue::from_value(s[1].as_ref().expect("component f1 of Ts5odmdoe1 must be present")),
            f2: s[2].as_ref().map(FromValue::from_value),
            f3: FromValue::from_value(s[3].as_ref().expect("component f3 of Ts5odmdoe1 must be present")),
            f4: s[4].as_ref().map(FromValue::from_value),
        }
    }
}
impl ToValue for Ts5odmdoe1 {
    fn to_value(&self) -> Value {
        Value::Seq(vec![
            self.f0.as_ref().map(|x| x.to_value()),
            Some(self.f1.to_value()),
            self.f2.as_ref().map(|x| x.to_value()),
            Some(self.f3.to_value()),
            self.f4.as_ref().map(|x| x.to_value()),
        ])
    }
}
impl FromValue for Ts5odmdoe2 {
    fn from_value(v: &Value) -> Self {
        let s = match v { Value::Seq(s) => s, other => panic!("Ts5odmdoe2: expected Seq, got {other:?}") };
        assert_eq!(s.len(), 5, "Ts5odmdoe2: component count");
        let _ = s;
        Ts5odmdoe2 {
            f0: s[0].as_ref().map(FromValue::from_value),
            f1: FromValue::from_value(s[1].as_ref().expect("component f1 of Ts5odmdoe2 must be present")),
            f2: s[2].as_ref().map(FromValue::from_value),
            f3: FromValue::from_value(s[3].as_ref().expect("component f3 of Ts5odmdoe2 must be present")),
            f4: s[4].as_ref().map(FromValue::from_value),
        }
    }
}
impl ToValue for Ts5odmdoe2 {
    fn to_value(&self) -> Value {
        Value::Seq(vec![
            self.f0.as_ref().map(|x| x.to_value()),
            Some(self.f1.to_value()),
            self.f2.as_ref().map(|x| x.to_value()),
            Some(self.f3.to_value()),
            self.f4.as_ref().map(|x| x.to_value()),
        ])
    }
}
impl FromValue for Ts5odmdoe3 {
    fn from_value(v: &Value) -> Self {
        let s = match v { Value::Seq(s) => s, other => panic!("Ts5odmdoe3: expected Seq, got {other:?}") };
        assert_eq!(s.len(), 5, "Ts5odmdoe3: component count");
        let _ = s;
        Ts5odmdoe3 {
            f0: s[0].as_ref().map(FromValue::from_value),
            f1: FromValue::from_value(s[1].as_ref().expect("component f1 of Ts5odmdoe3 must be present")),
            f2: FromValue::from_value(s[2].as_ref().expect("component f2 of Ts5odmdoe3 must be present")),
            f3: FromValue::from_value(s[3].as_ref().expect("component f3 of Ts5odmdoe3 must be present")),
            f4: s[4].as_ref().map(FromValue::from_value),
        }
    }
}
impl ToValue for Ts5odmdoe3 {
    fn to_value(&self) -> Value {
        Value::Seq(vec![
            self.f0.as_ref().map(|x| x.to_value()),
            Some(self.f1.to_value()),
            Some(self.f2.to_value()),
            Some(self.f3.to_value()),
            self.f4.as_ref().map(|x| x.to_value()),
        ])
    }
}
impl FromValue for Ts5odmdoe4 {
    fn from_value(v: &Value) -> Self {
        let s = match v { Value::Seq(s) => s, other => panic!("Ts5odmdoe4: expected Seq, got {other:?}") };
        assert_eq!(s.len(), 5, "Ts5odmdoe4: component count");
        let _ = s;
        Ts5odmdoe4 {
            f0: s[0].as_ref().map(FromValue::from_value),
            f1: FromValue::from_value(s[1].as_ref().expect("component f1 of Ts5odmdoe4 must be present")),
            f2: FromValue::from_value(s[2].as_ref().expect("component f2 of Ts5odmdoe4 must be present")),
            f3: FromValue::from_value(s[3].as_ref().expect("component f3 of Ts5odmdoe4 must be present")),
            f4: s[4].as_ref().map(FromValue::from_value),
        }
    }
}
impl ToValue for Ts5odmdoe4 {
    fn to_value(&self) -> Value {
        Value::Seq(vec![
            self.f0.as_ref().map(|x| x.to_value()),
            Some(self.f1.to_value()),
            Some(self.f2.to_value()),
            Some(self.f3.to_value()),
            self.f4.as_ref().map(|x| x.to_value()),
        ])
    }
}
impl FromValue for Ts5odmdoe5 {
    fn from_value(v: &Value) -> Self {
        let s = match v { Value::Seq(s) => s, other => panic!("Ts5odmdoe5: expected Seq, got {other:?}") };
        assert_eq!(s.len(), 5, "Ts5odmdoe5: component count");
        let _ = s;
        Ts5odmdoe5 {
            f0: s[0].as_ref().map(FromValue::from_value),
            f1: FromValue::from_value(s[1].as_ref().expect("component f1 of Ts5odmdoe5 must be present")),
            f2: FromValue::from_value(s[2].as_ref().expect("component f2 of Ts5odmdoe5 must be present")),
            f3: FromValue::from_value(s[3].as_ref().expect("component f3 of Ts5odmdoe5 must be present")),
            f4: s[4].as_ref().map(FromValue::from_value),
        }
    }
}
impl ToValue for Ts5odmdoe5 {
    fn to_value(&self) -> Value {
        Value::Seq(vec![
            self.f0.as_ref().map(|x| x.to_value()),
            Some(self.f1.to_value()),
            Some(self.f2.to_value()),
            Some(self.f3.to_value()),
            self.f4.as_ref().map(|x| x.to_value()),
        ])
    }
}
impl FromValue for Ts5ddmdon {
    fn from_value(v: &Value) -> Self {
        let s = match v { Value::Seq(s) => s, other => panic!("Ts5ddmdon: expected Seq, got {other:?}") };
        assert_eq!(s.len(), 5, "Ts5ddmdon: component count");
        let _ = s;
        Ts5ddmdon {
            f0: FromValue::from_value(s[0].as_ref().expect("component f0 of Ts5ddmdon must be present")),
            f1: FromValue::from_value(s[1].as_ref().expect("component f1 of Ts5ddmdon must be present")),
            f2: FromValue::from_value(s[2].as_ref().expect("component f2 of Ts5ddmdon must be present")),
            f3: FromValue::from_value(s[3].as_ref().expect("component f3 of Ts5ddmdon must be present")),
            f4: s[4].as_ref().map(FromValue::from_value),
        }
    }
}
impl ToValue for Ts5ddmdon {
    fn to_value(&self) -> Value {
        Value::Seq(vec![
            Some(self.f0.to_value()),
            Some(self.f1.to_value()),
            Some(self.f2.to_value()),
            Some(self.f3.to_value()),
            self.f4.as_ref().map(|x| x.to_value()),
        ])
    }
}
impl FromValue for Ts5ddmdoe0 {
    fn from_value(v: &Value) -> Self {
        let s = match v { Value::Seq(s) => s, other => panic!("Ts5ddmdoe0: expected Seq, got {other:?}") };
        assert_eq!(s.len(), 5, "Ts5ddmdoe0: component count");
        let _ = s;
        Ts5ddmdoe0 {
            f0: FromValue::from_value(s[0].as_ref().expect("component f0 of Ts5ddmdoe0 must be present")),
            f1: FromValue::from_value(s[1].as_ref().expect("component f1 of Ts5ddmdoe0 must be present")),
            f2: s[2].as_ref().map(FromValue::from_value),
            f3: FromValue::from_value(s[3].as_ref().expect("component f3 of Ts5ddmdoe0 must be present")),
            f4: s[4].as_ref().map(FromValue::from_value),
        }
    }
}
impl ToValue for Ts5ddmdoe0 {
    fn to_value(&self) -> Value {
        Value::Seq(vec![
            Some(self.f0.to_value()),
            Some(self.f1.to_value()),
            self.f2.as_ref().map(|x| x.to_value()),
            Some(self.f3.to_value()),
            self.f4.as_ref().map(|x| x.to_value()),
        ])
    }
}
impl FromValue for Ts5ddmdoe1 {
    fn from_value(v: &Value) -> Self {
        let s = match v { Value::Seq(s) => s, other => panic!("Ts5ddmdoe1: expected Seq, got {other:?}") };
        assert_eq!(s.len(), 5, "Ts5ddmdoe1: component count");
        let _ = s;
        Ts5ddmdoe1 {
            f0: FromValue::from_value(s[0].as_ref().expect("component f0 of Ts5ddmdoe1 must be present")),
            f1: FromValue::from_value(s[1].as_ref().expect("component f1 of Ts5ddmdoe1 must be present")),
            f2: s[2].as_ref().map(FromValue::from_value),
            f3: FromValue::from_value(s[3].as_ref().expect("component f3 of Ts5ddmdoe1 must be present")),
            f4: s[4].as_ref().map(FromValue::from_value),
        }
    }
}
impl ToValue for Ts5ddmdoe1 {
    fn to_value(&self) -> Value {
        Value::Seq(vec![
            Some(self.f0.to_value()),
            Some(self.f1.to_value()),
            self.f2.as_ref().map(|x| x.to_value()),
            Some(self.f3.to_value()),
            self.f4.as_ref().map(|x| x.to_value()),
        ])
    }
}
impl FromValue for Ts5ddmdoe2 {
    fn from_value(v: &Value) -> Self {
        let s = match v { Value::Seq(s) => s, other => panic!("Ts5ddmdoe2: expected Seq, got {other:?}") };
        assert_eq!(s.len(), 5, "Ts5ddmdoe2: component count");
        let _ = s;
        Ts5ddmdoe2 {
            f0: FromValue::from_value(s[0].as_ref().expect("component f0 of Ts5ddmdoe2 must be present")),
            f1: FromValue::from_value(s[1].as_ref().expect("component f1 of Ts5ddmdoe2 must be present")),
            f2: s[2].as_ref().map(FromValue::from_value),
            f3: FromValue::from_value(s[3].as_ref().expect("component f3 of Ts5ddmdoe2 must be present")),
            f4: s[4].as_ref().map(FromValue::from_value),
        }
    }
}
impl ToValue for Ts5ddmdoe2 {
    fn to_value(&self) -> Value {
        Value::Seq(vec![
            Some(self.f0.to_value()),
            Some(self.f1.to_value()),
            self.f2.as_ref().map(|x| x.to_value()),
            Some(self.f3.to_value()),
            self.f4.as_ref().map(|x| x.to_value()),
        ])
    }
}
impl FromValue for Ts5ddmdoe3 {
    fn from_value(v: &Value) -> Self {
        let s = match v { Value::Seq(s) => s, other => panic!("Ts5ddmdoe3: expected Seq, got {other:?}") };
        assert_eq!(s.len(), 5, "Ts5ddmdoe3: component count");
        let _ = s;
        Ts5ddmdoe3 {
            f0: FromValue::from_value(s[0].as_ref().expect("component f0 of Ts5ddmdoe3 must be present")),
            f1: FromValue::from_value(s[1].as_ref().expect("component f1 of Ts5ddmdoe3 must be present")),
            f2: FromValue::from_value(s[2].as_ref().expect("component f2 of Ts5ddmdoe3 must be present")),
            f3: FromValue::from_value(s[3].as_ref().expect("component f3 of Ts5ddmdoe3 must be present")),
            f4: s[4].as_ref().map(FromValue::from_value),
        }
    }
}
impl ToValue for Ts5ddmdoe3 {
    fn to_value(&self) -> Value {
        Value::Seq(vec![
            Some(self.f0.to_value()),
            Some(self.f1.to_value()),
            Some(self.f2.to_value()),
            Some(self.f3.to_value()),
            self.f4.as_ref().map(|x| x.to_value()),
        ])
    }
}
impl FromValue for Ts5ddmdoe4 {
    fn from_value(v: &Value) -> Self {
        let s = match v { Value::Seq(s) => s, other => panic!("Ts5ddmdoe4: expected Seq, got {other:?}") };
        assert_eq!(s.len(), 5, "Ts5ddmdoe4: component count");
        let _ = s;
        Ts5ddmdoe4 {
            f0: FromValue::from_value(s[0].as_ref().expect("component f0 of Ts5ddmdoe4 must be present")),
            f1: FromValue::from_value(s[1].as_ref().expect("component f1 of Ts5ddmdoe4 must be present")),
            f2: FromValue::from_value(s[2].as_ref().expect("component f2 of Ts5ddmdoe4 must be present")),
            f3: FromValue::from_value(s[3].as_ref().expect("component f3 of Ts5ddmdoe4 must be present")),
            f4: s[4].as_ref().map(FromValue::from_value),
        }
    }
}
impl ToValue for Ts5ddmdoe4 {
    fn to_value(&self) -> Value {
        Value::Seq(vec![
            Some(self.f0.to_value()),
            Some(self.f1.to_value()),
            Some(self.f2.to_value()),
            Some(self.f3.to_value()),
            self.f4.as_ref().map(|x| x.to_value()),
        ])
    }
}
impl FromValue for Ts5ddmdoe5 {
    fn from_value(v: &Value) -> Self {
        let s = match v { Value::Seq(s) => s, other => panic!("Ts5ddmdoe5: expected Seq, got {other:?}") };
        assert_eq!(s.len(), 5, "Ts5ddmdoe5: component count");
        let _ = s;
        Ts5ddmdoe5 {
            f0: FromValue::from_value(s[0].as_ref().expect("component f0 of Ts5ddmdoe5 must be present")),
            f1: FromValue::from_value(s[1].as_ref().expect("component f1 of Ts5ddmdoe5 must be present")),
            f2: FromValue::from_value(s[2].as_ref().expect("component f2 of Ts5ddmdoe5 must be present")),
            f3: FromValue::from_value(s[3].as_ref().expect("component f3 of Ts5ddmdoe5 must be present")),
            f4: s[4].as_ref().map(FromValue::from_value),
        }
    }
}
impl ToValue for Ts5ddmdoe5 {
    fn to_value(&self) -> Value {
        Value::Seq(vec![
            Some(self.f0.to_value()),
            Some(self.f1.to_value()),
            Some(self.f2.to_value()),
            Some(self.f3.to_value()),
            self.f4.as_ref().map(|x| x.to_value()),
        ])
    }
}
impl FromValue for Ts5mmodon {
    fn from_value(v: &Value) -> Self {
        let s = match v { Value::Seq(s) => s, other => panic!("Ts5mmodon: expected Seq, got {other:?}") };
        assert_eq!(s.len(), 5, "Ts5mmodon: component count");
        let _ = s;
        Ts5mmodon {
            f0: FromValue::from_value(s[0].as_ref().expect("component f0 of Ts5mmodon must be present")),
            f1: FromValue::from_value(s[1].as_ref().expect("component f1 of Ts5mmodon must be present")),
            f2: s[2].as_ref().map(FromValue::from_value),
            f3: FromValue::from_value(s[3].as_ref().expect("component f3 of Ts5mmodon must be present")),
            f4: s[4].as_ref().map(FromValue::from_value),
        }
    }
}
impl ToValue for Ts5mmodon {
    fn to_value(&self) -> Value {
        Value::Seq(vec![
            Some(self.f0.to_value()),
            Some(self.f1.to_value()),
            self.f2.as_ref().map(|x| x.to_value()),
            Some(self.f3.to_value()),
            self.f4.as_ref().map(|x| x.to_value()),
        ])
    }
}
impl FromValue for Ts5mmodoe0 {
    fn from_value(v: &Value) -> Self {
        let s = match v { Value::Seq(s) => s, other => panic!("Ts5mmodoe0: expected Seq, got {other:?}") };
        assert_eq!(s.len(), 5, "Ts5mmodoe0: component count");
        let _ = s;
        Ts5mmodoe0 {
            f0: FromValue::from_value(s[0].as_ref().expect("component f0 of Ts5mmodoe0 must be present")),
            f1: s[1].as_ref().map(FromValue::from_value),
            f2: s[2].as_ref().map(FromValue::from_value),
            f3: FromValue::from_value(s[3].as_ref().expect("component f3 of Ts5mmodoe0 must be present")),
            f4: s[4].as_ref().map(FromValue::from_value),
        }
    }
}
impl ToValue for Ts5mmodoe0 {
    fn to_value(&self) -> Value {
        Value::Seq(vec![
            Some(self.f0.to_value()),
            self.f1.as_ref().map(|x| x.to_value()),
            self.f2.as_ref().map(|x| x.to_value()),
            Some(self.f3.to_value()),
            self.f4.as_ref().map(|x| x.to_value()),
        ])
    }
}
impl FromValue for Ts5mmodoe1 {
    fn from_value(v: &Value) -> Self {
        let s = match v { Value::Seq(s) => s, other => panic!("Ts5mmodoe1: expected Seq, got {other:?}") };
        assert_eq!(s.len(), 5, "Ts5mmodoe1: component count");
        let _ = s;
        Ts5mmodoe1 {
            f0: FromValue::from_value(s[0].as_ref().expect("component f0 of Ts5mmodoe1 must be present")),
            f1: s[1].as_ref().map(FromValue::from_value),
            f2: s[2].as_ref().map(FromValue::from_value),
            f3: FromValue::from_value(s[3].as_ref().expect("component f3 of Ts5mmodoe1 must be present")),
            f4: s[4].as_ref().map(FromValue::from_value),
        }
    }
}
impl ToValue for Ts5mmodoe1 {
    fn to_value(&self) -> Value {
        Value::Seq(vec![
            Some(self.f0.to_value()),
            self.f1.as_ref().map(|x| x.to_value()),
            self.f2.as_ref().map(|x| x.to_value()),
            Some(self.f3.to_value()),
            self.f4.as_ref().map(|x| x.to_value()),
        ])
    }
}
impl FromValue for Ts5mmodoe2 {
    fn from_value(v: &Value) -> Self {
        let s = match v { Value::Seq(s) => s, other => panic!("Ts5mmodoe2: expected Seq, got {other:?}") };
        assert_eq!(s.len(), 5, "Ts5mmodoe2: component count");
        let _ = s;
        Ts5mmodoe2 {
            f0: FromValue::from_value(s[0].as_ref().expect("component f0 of Ts5mmodoe2 must be present")),
            f1: FromValue::from_value(s[1].as_ref().expect("component f1 of Ts5mmodoe2 must be present")),
            f2: s[2].as_ref().map(FromValue::from_value),
            f3: FromValue::from_value(s[3].as_ref().expect("component f3 of Ts5mmodoe2 must be present")),
            f4: s[4].as_ref().map(FromValue::from_value),
        }
    }
}
impl ToValue for Ts5mmodoe2 {
    fn to_value(&self) -> Value {
        Value::Seq(vec![
            Some(self.f0.to_value()),
            Some(self.f1.to_value()),
            self.f2.as_ref().map(|x| x.to_value()),
            Some(self.f3.to_value()),
            self.f4.as_ref().map(|x| x.to_value()),
        ])
    }
}
impl FromValue for Ts5mmodoe3 {
    fn from_value(v: &Value) -> Self {
        let s = match v { Value::Seq(s) => s, other => panic!("Ts5mmodoe3: expected Seq, got {other:?}") };
        assert_eq!(s.len(), 5, "Ts5mmodoe3: component count");
        let _ = s;
        Ts5mmodoe3 {
            f0: FromValue::from_value(s[0].as_ref().expect("component f0 of Ts5mmodoe3 must be present")),
            f1: FromValue::from_value(s[1].as_ref().expect("component f1 of Ts5mmodoe3 must be present")),
            f2: s[2].as_ref().map(FromValue::from_value),
            f3: FromValue::from_value(s[3].as_ref().expect("component f3 of Ts5mmodoe3 must be present")),
            f4: s[4].as_ref().map(FromValue::from_value),
        }
    }
}
impl ToValue for Ts5mmodoe3 {
    fn to_value(&self) -> Value {
        Value::Seq(vec![
            Some(self.f0.to_value()),
            Some(self.f1.to_value()),
            self.f2.as_ref().map(|x| x.to_value()),
            Some(self.f3.to_value()),
            self.f4.as_ref().map(|x| x.to_value()),
        ])
    }
}
impl FromValue for Ts5mmodoe4 {
    fn from_value(v: &Value) -> Self {
        let s = match v { Value::Seq(s) => s, other => panic!("Ts5mmodoe4: expected Seq, got {other:?}") };
        assert_eq!(s.len(), 5, "Ts5mmodoe4: component count");
        let _ = s;
        Ts5mmodoe4 {
            f0: FromValue::from_value(s[0].as_ref().expect("component f0 of Ts5mmodoe4 must be present")),
            f1: FromValue::from_value(s[1].as_ref().expect("component f1 of Ts5mmodoe4 must be present")),
            f2: s[2].as_ref().map(FromValue::from_value),
            f3: FromValue::from_value(s[3].as_ref().expect("component f3 of Ts5mmodoe4 must be present")),
            f4: s[4].as_ref().map(FromValue::from_value),
        }
    }
}
impl ToValue for Ts5mmodoe4 {
    fn to_value(&self) -> Value {
        Value::Seq(vec![
            Some(self.f0.to_value()),
            Some(self.f1.to_value()),
            self.f2.as_ref().map(|x| x.to_value()),
            Some(self.f3.to_value()),
            self.f4.as_ref().map(|x| x.to_value()),
        ])
    }
}
impl FromValue for Ts5mmodoe5 {
    fn from_value(v: &Value) -> Self {
        let s = match v { Value::Seq(s) => s, other => panic!("Ts5mmodoe5: expected Seq, got {other:?}") };
        assert_eq!(s.len(), 5, "Ts5mmodoe5: component count");
        let _ = s;
        Ts5mmodoe5 {
            f0: FromValue::from_value(s[0].as_ref().expect("component f0 of Ts5mmodoe5 must be present")),
            f1: FromValue::from_value(s[1].as_ref().expect("component f1 of Ts5mmodoe5 must be present")),
            f2: s[2].as_ref().map(FromValue::from_value),
            f3: FromValue::from_value(s[3].as_ref().expect("component f3 of Ts5mmodoe5 must be present")),
            f4: s[4].as_ref().map(FromValue::from_value),
        }
    }
}
impl ToValue for Ts5mmodoe5 {
    fn to_value(&self) -> Value {
        Value::Seq(vec![
            Some(self.f0.to_value()),
            Some(self.f1.to_value()),
            self.f2.as_ref().map(|x| x.to_value()),
            Some(self.f3.to_value()),
            self.f4.as_ref().map(|x| x.to_value()),
        ])
    }
}
impl FromValue for Ts5omodon {
    fn from_value(v: &Value) -> Self {
        let s = match v { Value::Seq(s) => s, other => panic!("Ts5omodon: expected Seq, got {other:?}") };
        assert_eq!(s.len(), 5, "Ts5omodon: component count");
        let _ = s;
        Ts5omodon {
            f0: s[0].as_ref().map(FromValue::from_value),
            f1: FromValue::from_value(s[1].as_ref().expect("component f1 of Ts5omodon must be present")),
            f2: s[2].as_ref().map(FromValue::from_value),
            f3: FromValue::from_value(s[3].as_ref().expect("component f3 of Ts5omodon must be present")),
            f4: s[4].as_ref().map(FromValue::from_value),
        }
    }
}
impl ToValue for Ts5omodon {
    fn to_value(&self) -> Value {
        Value::Seq(vec![
            self.f0.as_ref().map(|x| x.to_value()),
            Some(self.f1.to_value()),
            self.f2.as_ref().map(|x| x.to_value()),
            Some(self.f3.to_value()),
            self.f4.as_ref().map(|x| x.to_value()),
        ])
    }
}
impl FromValue for Ts5omodoe0 {
    fn from_value(v: &Value) -> Self {
        let s = match v { Value::Seq(s) => s, other => panic!("Ts5omodoe0: expected Seq, got {other:?}") };
        assert_eq!(s.len(), 5, "Ts5omodoe0: component count");
        let _ = s;
        Ts5omodoe0 {
            f0: s[0].as_ref().map(FromValue::from_value),
            f1: s[1].as_ref().map(FromValue::from_value),
            f2: s[2].as_ref().map(FromValue::from_value),
            f3: FromValue::from_value(s[3].as_ref().expect("component f3 of Ts5omodoe0 must be present")),
            f4: s[4].as_ref().map(FromValue::from_value),
        }
    }
}
impl ToValue for Ts5omodoe0 {
    fn to_value(&self) -> Value {
        Value::Seq(vec![
            self.f0.as_ref().map(|x| x.to_value()),
            self.f1.as_ref().map(|x| x.to_value()),
            self.f2.as_ref().map(|x| x.to_value()),
            Some(self.f3.to_value()),
            self.f4.as_ref().map(|x| x.to_value()),
        ])
    }
}
impl FromValue for Ts5omodoe1 {
    fn from_value(v: &Value) -> Self {
        let s = match v { Value::Seq(s) => s, other => panic!("Ts5omodoe1: expected Seq, got {other:?}") };
        assert_eq!(s.len(), 5, "Ts5omodoe1: component count");
        let _ = s;
        Ts5omodoe1 {
            f0: s[0].as_ref().map(FromValue::from_value),
            f1: s[1].as_ref().map(FromValue::from_value),
            f2: s[2].as_ref().map(FromValue::from_value),
            f3: FromValue::from_value(s[3].as_ref().expect("component f3 of Ts5omodoe1 must be present")),
            f4: s[4].as_ref().map(FromValue::from_value),
        }
    }
}
impl ToValue for Ts5omodoe1 {
    fn to_value(&self) -> Value {
        Value::Seq(vec![
            self.f0.as_ref().map(|x| x.to_value()),
            self.f1.as_ref().map(|x| x.to_value()),
            self.f2.as_ref().map(|x| x.to_value()),
            Some(self.f3.to_value()),
            self.f4.as_ref().map(|x| x.to_value()),
        ])
    }
}
impl FromValue for Ts5omodoe2 {
    fn from_value(v: &Value) -> Self {
        let s = match v { Value::Seq(s) => s, other => panic!("Ts5omodoe2: expected Seq, got {other:?}") };
        assert_eq!(s.len(), 5, "Ts5omodoe2: component count");
        let _ = s;
        Ts5omodoe2 {
            f0: s[0].as_ref().map(FromValue::from_value),
            f1: FromValue::from_value(s[1].as_ref().expect("component f1 of Ts5omodoe2 must be present")),
            f2: s[2].as_ref().map(FromValue::from_value),
            f3: FromValue::from_value(s[3].as_ref().expect("component f3 of Ts5omodoe2 must be present")),
            f4: s[4].as_ref().map(FromValue::from_value),
        }
    }
}
impl ToValue for Ts5omodoe2 {
    fn to_value(&self) -> Value {
        Value::Seq(vec![
            self.f0.as_ref().map(|x| x.to_value()),
            Some(self.f1.to_value()),
            self.f2.as_ref().map(|x| x.to_value()),
            Some(self.f3.to_value()),
            self.f4.as_ref().map(|x| x.to_value()),
        ])
    }
}
impl FromValue for Ts5omodoe3 {
    fn from_value(v: &Value) -> Self {
        let s = match v { Value::Seq(s) => s, other => panic!("Ts5omodoe3: expected Seq, got {other:?}") };
        assert_eq!(s.len(), 5, "Ts5omodoe3: component count");
        let _ = s;
        Ts5omodoe3 {
            f0: s[0].as_ref().map(FromValue::from_value),
            f1: FromValue::from_value(s[1].as_ref().expect("component f1 of Ts5omodoe3 must be present")),
            f2: s[2].as_ref().map(FromValue::from_value),
            f3: FromValue::from_value(s[3].as_ref().expect("component f3 of Ts5omodoe3 must be present")),
            f4: s[4].as_ref().map(FromValue::from_value),
        }
    }
}
impl ToValue for Ts5omodoe3 {
    fn to_value(&self) -> Value {
        Value::Seq(vec![
            self.f0.as_ref().map(|x| x.to_value()),
            Some(self.f1.to_value()),
            self.f2.as_ref().map(|x| x.to_value()),
            Some(self.f3.to_value()),
            self.f4.as_ref().map(|x| x.to_value()),
        ])
    }
}
impl FromValue for Ts5omodoe4 {
    fn from_value(v: &Value) -> Self {
        let s = match v { Value::Seq(s) => s, other => panic!("Ts5omodoe4: expected Seq, got {other:?}") };
        assert_eq!(s.len(), 5, "Ts5omodoe4: component count");
        let _ = s;
        Ts5omodoe4 {
            f0: s[0].as_ref().map(FromValue::from_value),
            f1: FromValue::from_value(s[1].as_ref().expect("component f1 of Ts5omodoe4 must be present")),
            f2: s[2].as_ref().map(FromValue::from_value),
            f3: FromValue::from_value(s[3].as_ref().expect("component f3 of Ts5omodoe4 must be present")),
            f4: s[4].as_ref().map(FromValue::from_value),
        }
    }
}
impl ToValue for Ts5omodoe4 {
    fn to_value(&self) -> Value {
        Value::Seq(vec![
            self.f0.as_ref().map(|x| x.to_value()),
            Some(self.f1.to_value()),
            self.f2.as_ref().map(|x| x.to_value()),
            Some(self.f3.to_value()),
            self.f4.as_ref().map(|x| x.to_value()),
        ])
    }
}
impl FromValue for Ts5omodoe5 {
    fn from_value(v: &Value) -> Self {
        let s = match v { Value::Seq(s) => s, other => panic!("Ts5omodoe5: expected Seq, got {other:?}") };
        assert_eq!(s.len(), 5, "Ts5omodoe5: component count");
        let _ = s;
        Ts5omodoe5 {
            f0: s[0].as_ref().map(FromValue::from_value),
            f1: FromValue::from_value(s[1].as_ref().expect("component f1 of Ts5omodoe5 must be present")),
            f2: s[2].as_ref().map(FromValue::from_value),
            f3: FromValue::from_value(s[3].as_ref().expect("component f3 of Ts5omodoe5 must be present")),
            f4: s[4].as_ref().map(FromValue::from_value),
        }
    }
}
impl ToValue for Ts5omodoe5 {
    fn to_value(&self) -> Value {
        Value::Seq(vec![
            self.f0.as_ref().map(|x| x.to_value()),
            Some(self.f1.to_value()),
            self.f2.as_ref().map(|x| x.to_value()),
            Some(self.f3.to_value()),
            self.f4.as_ref().map(|x| x.to_value()),
        ])
    }
}
impl FromValue for Ts5dmodon {
    fn from_value(v: &Value) -> Self {
        let s = match v { Value::Seq(s) => s, other => panic!("Ts5dmodon: expected Seq, got {other:?}") };
        assert_eq!(s.len(), 5, "Ts5dmodon: component count");
        let _ = s;
        Ts5dmodon {
            f0: FromValue::from_value(s[0].as_ref().expect("component f0 of Ts5dmodon must be present")),
            f1: FromValue::from_value(s[1].as_ref().expect("component f1 of Ts5dmodon must be present")),
            f2: s[2].as_ref().map(FromValue::from_value),
            f3: FromValue::from_value(s[3].as_ref().expect("component f3 of Ts5dmodon must be present")),
            f4: s[4].as_ref().map(FromValue::from_value),
        }
    }
}
impl ToValue for Ts5dmodon {
    fn to_value(&self) -> Value {
        Value::Seq(vec![
            Some(self.f0.to_value()),
            Some(self.f1.to_value()),
            self.f2.as_ref().map(|x| x.to_value()),
            Some(self.f3.to_value()),
            self.f4.as_ref().map(|x| x.to_value()),
        ])
    }
}
impl FromValue for Ts5dmodoe0 {
    fn from_value(v: &Value) -> Self {
        let s = match v { Value::Seq(s) => s, other => panic!("Ts5dmodoe0: expected Seq, got {other:?}") };
        assert_eq!(s.len(), 5, "Ts5dmodoe0: component count");
        let _ = s;
        Ts5dmodoe0 {
            f0: FromValue::from_value(s[0].as_ref().expect("component f0 of Ts5dmodoe0 must be present")),
            f1: s[1].as_ref().map(FromValue::from_value),
            f2: s[2].as_ref().map(FromValue::from_value),
            f3: FromValue::from_value(s[3].as_ref().expect("component f3 of Ts5dmodoe0 must be present")),
            f4: s[4].as_ref().map(FromValue::from_value),
        }
    }
}
impl ToValue for Ts5dmodoe0 {
    fn to_value(&self) -> Value {
        Value::Seq(vec![
            Some(self.f0.to_value()),
            self.f1.as_ref().map(|x| x.to_value()),
            self.f2.as_ref().map(|x| x.to_value()),
            Some(self.f3.to_value()),
            self.f4.as_ref().map(|x| x.to_value()),
        ])
    }
}
impl FromValue for Ts5dmodoe1 {
    fn from_value(v: &Value) -> Self {
        let s = match v { Value::Seq(s) => s, other => panic!("Ts5dmodoe1: expected Seq, got {other:?}") };
        assert_eq!(s.len(), 5, "Ts5dmodoe1: component count");
        let _ = s;
        Ts5dmodoe1 {
            f0: FromValue::from_value(s[0].as_ref().expect("component f0 of Ts5dmodoe1 must be present")),
            f1: s[1].as_ref().map(FromValue::from_value),
            f2: s[2].as_ref().map(FromValue::from_value),
            f3: FromValue::from_value(s[3].as_ref().expect("component f3 of Ts5dmodoe1 must be present")),
            f4: s[4].as_ref().map(FromValue::from_value),
        }
    }
}
impl ToValue for Ts5dmodoe1 {
    fn to_value(&self) -> Value {
        Value::Seq(vec![
            Some(self.f0.to_value()),
            self.f1.as_ref().map(|x| x.to_value()),
            self.f2.as_ref().map(|x| x.to_value()),
            Some(self.f3.to_value()),
            self.f4.as_ref().map(|x| x.to_value()),
        ])
    }
}
impl FromValue for Ts5dmodoe2 {
    fn from_value(v: &Value) -> Self {
        let s = match v { Value::Seq(s) => s, other => panic!("Ts5dmodoe2: expected Seq, got {other:?}") };
        assert_eq!(s.len(), 5, "Ts5dmodoe2: component count");
        let _ = s;
        Ts5dmodoe2 {
            f0: FromValue::from_value(s[0].as_ref().expect("component f0 of Ts5dmodoe2 must be present")),
            f1: FromValue::from_value(s[1].as_ref().expect("component f1 of Ts5dmodoe2 must be present")),
            f2: s[2].as_ref().map(FromValue::from_value),
            f3: FromValue::from_value(s[3].as_ref().expect("component f3 of Ts5dmodoe2 must be present")),
            f4: s[4].as_ref().map(FromValue::from_value),
        }
    }
}
impl ToValue for Ts5dmodoe2 {
    fn to_value(&self) -> Value {
        Value::Seq(vec![
            Some(self.f0.to_value()),
            Some(self.f1.to_value()),
            self.f2.as_ref().map(|x| x.to_value()),
            Some(self.f3.to_value()),
            self.f4.as_ref().map(|x| x.to_value()),
        ])
    }
}
impl FromValue for Ts5dmodoe3 {
    fn from_value(v: &Value) -> Self {
        let s = match v { Value::Seq(s) => s, other => panic!("Ts5dmodoe3: expected Seq, got {other:?}") };
        assert_eq!(s.len(), 5, "Ts5dmodoe3: component count");
        let _ = s;
        Ts5dmodoe3 {
            f0: FromValue::from_value(s[0].as_ref().expect("component f0 of Ts5dmodoe3 must be present")),
            f1: FromValue::from_value(s[1].as_ref().expect("component f1 of Ts5dmodoe3 must be present")),
            f2: s[2].as_ref().map(FromValue::from_value),
            f3: FromValue::from_value(s[3].as_ref().expect("component f3 of Ts5dmodoe3 must be present")),
            f4: s[4].as_ref().map(FromValue::from_value),
        }
    }
}
impl ToValue for Ts5dmodoe3 {
    fn to_value(&self) -> Value {
        Value::Seq(vec![
            Some(self.f0.to_value()),
            Some(self.f1.to_value()),
            self.f2.as_ref().map(|x| x.to_value()),
            Some(self.f3.to_value()),
            self.f4.as_ref().map(|x| x.to_value()),
        ])
    }
}
impl FromValue for Ts5dmodoe4 {
    fn from_value(v: &Value) -> Self {
        let s = match v { Value::Seq(s) => s, other => panic!("Ts5dmodoe4: expected Seq, got {other:?}") };
        assert_eq!(s.len(), 5, "Ts5dmodoe4: component count");
        let _ = s;
        Ts5dmodoe4 {
            f0: FromValue::from_value(s[0].as_ref().expect("component f0 of Ts5dmodoe4 must be present")),
            f1: FromValue::from_value(s[1].as_ref().expect("component f1 of Ts5dmodoe4 must be present")),
            f2: s[2].as_ref().map(FromValue::from_value),
            f3: FromValue::from_value(s[3].as_ref().expect("component f3 of Ts5dmodoe4 must be present")),
            f4: s[4].as_ref().map(FromValue::from_value),
        }
    }
}
impl ToValue for Ts5dmodoe4 {
    fn to_value(&self) -> Value {
        Value::Seq(vec![
            Some(self.f0.to_value()),
            Some(self.f1.to_value()),
            self.f2.as_ref().map(|x| x.to_value()),
            Some(self.f3.to_value()),
            self.f4.as_ref().map(|x| x.to_value()),
        ])
    }
}
impl FromValue for Ts5dmodoe5 {
    fn from_value(v: &Value) -> Self {
        let s = match v { Value::Seq(s) => s, other => panic!("Ts5dmodoe5: expected Seq, got {other:?}") };
        assert_eq!(s.len(), 5, "Ts5dmodoe5: component count");
        let _ = s;
        Ts5dmodoe5 {
            f0: FromValue::from_value(s[0].as_ref().expect("component f0 of Ts5dmodoe5 must be present")),
            f1: FromValue::from_value(s[1].as_ref().expect("component f1 of Ts5dmodoe5 must be present")),
            f2: s[2].as_ref().map(FromValue::from_value),
            f3: FromValue::from_value(s[3].as_ref().expect("component f3 of Ts5dmodoe5 must be present")),
            f4: s[4].as_ref().map(FromValue::from_value),
        }
    }
}
impl ToValue for Ts5dmodoe5 {
    fn to_value(&self) -> Value {
        Value::Seq(vec![
            Some(self.f0.to_value()),
            Some(self.f1.to_value()),
            self.f2.as_ref().map(|x| x.to_value()),
            Some(self.f3.to_value()),
            self.f4.as_ref().map(|x| x.to_value()),
        ])
    }
}
impl FromValue for Ts5moodon {
    fn from_value(v: &Value) -> Self {
        let s = match v { Value::Seq(s) => s, other => panic!("Ts5moodon: expected Seq, got {other:?}") };
        assert_eq!(s.len(), 5, "Ts5moodon: component count");
        let _ = s;
        Ts5moodon {
            f0: FromValue::from_value(s[0].as_ref().expect("component f0 of Ts5moodon must be present")),
            f1: s[1].as_ref().map(FromValue::from_value),
            f2: s[2].as_ref().map(FromValue::from_value),
            f3: FromValue::from_value(s[3].as_ref().expect("component f3 of Ts5moodon must be present")),
            f4: s[4].as_ref().map(FromValue::from_value),
        }
    }
}
impl ToValue for Ts5moodon {
    fn to_value(&self) -> Value {
        Value::Seq(vec![
            Some(self.f0.to_value()),
            self.f1.as_ref().map(|x| x.to_value()),
            self.f2.as_ref().map(|x| x.to_value()),
            Some(self.f3.to_value()),
            self.f4.as_ref().map(|x| x.to_value()),
        ])
    }
}
impl FromValue for Ts5moodoe0 {
    fn from_value(v: &Value) -> Self {
        let s = match v { Value::Seq(s) => s, other => panic!("Ts5moodoe0: expected Seq, got {other:?}") };
        assert_eq!(s.len(), 5, "Ts5moodoe0: component count");
        let _ = s;
        Ts5moodoe0 {
            f0: FromValue::from_value(s[0].as_ref().expect("component f0 of Ts5moodoe0 must be present")),
            f1: s[1].as_ref().map(FromValue::from_value),
            f2: s[2].as_ref().map(FromValue::from_value),
            f3: FromValue::from_value(s[3].as_ref().expect("component f3 of Ts5moodoe0 must be present")),
            f4: s[4].as_ref().map(FromValue::from_value),
        }
    }
}
impl ToValue for Ts5moodoe0 {
    fn to_value(&self) -> Value {
        Value::Seq(vec![
            Some(self.f0.to_value()),
            self.f1.as_ref().map(|x| x.to_value()),
            self.f2.as_ref().map(|x| x.to_value()),
            Some(self.f3.to_value()),
            self.f4.as_ref().map(|x| x.to_value()),
        ])
    }
}
impl FromValue for Ts5moodoe1 {
    fn from_value(v: &Value) -> Self {
        let s = match v { Value::Seq(s) => s, other => panic!("Ts5moodoe1: expected Seq, got {other:?}") };
        assert_eq!(s.len(), 5, "Ts5moodoe1: component count");
        let _ = s;
        Ts5moodoe1 {
            f0: FromValue::from_value(s[0].as_ref().expect("component f0 of Ts5moodoe1 must be present")),
            f1: s[1].as_ref().map(FromValue::from_value),
            f2: s[2].as_ref().map(FromValue::from_value),
            f3: FromValue::from_value(s[3].as_ref().expect("component f3 of Ts5moodoe1 must be present")),
            f4: s[4].as_ref().map(FromValue::from_value),
        }
    }
}
impl ToValue for Ts5moodoe1 {
    fn to_value(&self) -> Value {
        Value::Seq(vec![
            Some(self.f0.to_value()),
            self.f1.as_ref().map(|x| x.to_value()),
            self.f2.as_ref().map(|x| x.to_value()),
            Some(self.f3.to_value()),
            self.f4.as_ref().map(|x| x.to_value()),
        ])
    }
}
impl FromValue for Ts5moodoe2 {
    fn from_value(v: &Value) -> Self {
        let s = match v { Value::Seq(s) => s, other => panic!("Ts5moodoe2: expected Seq, got {other:?}") };
        assert_eq!(s.len(), 5, "Ts5moodoe2: component count");
        let _ = s;
        Ts5moodoe2 {
            f0: FromValue::from_value(s[0].as_ref().expect("component f0 of Ts5moodoe2 must be present")),
            f1: s[1].as_ref().map(FromValue::from_value),
            f2: s[2].as_ref().map(FromValue::from_value),
            f3: FromValue::from_value(s[3].as_ref().expect("component f3 of Ts5moodoe2 must be present")),
            f4: s[4].as_ref().map(FromValue::from_value),
        }
    }
}
impl ToValue for Ts5moodoe2 {
    fn to_value(&self) -> Value {
        Value::Seq(vec![
            Some(self.f0.to_value()),
            self.f1.as_ref().map(|x| x.to_value()),
            self.f2.as_ref().map(|x| x.to_value()),
            Some(self.f3.to_value()),
            self.f4.as_ref().map(|x| x.to_value()),
        ])
    }
}
impl FromValue for Ts5moodoe3 {
    fn from_value(v: &Value) -> Self {
        let s = match v { Value::Seq(s) => s, other => panic!("Ts5moodoe3: expected Seq, got {other:?}") };
        assert_eq!(s.len(), 5, "Ts5moodoe3: component count");
        let _ = s;
        Ts5moodoe3 {
            f0: FromValue::from_value(s[0].as_ref().expect("component f0 of Ts5moodoe3 must be present")),
            f1: s[1].as_ref().map(FromValue::from_value),
            f2: s[2].as_ref().map(FromValue::from_value),
            f3: FromValue::from_value(s[3].as_ref().expect("component f3 of Ts5moodoe3 must be present")),
            f4: s[4].as_ref().map(FromValue::from_value),
        }
    }
}
impl ToValue for Ts5moodoe3 {
    fn to_value(&self) -> Value {
        Value::Seq(vec![
            Some(self.f0.to_value()),
            self.f1.as_ref().map(|x| x.to_value()),
            self.f2.as_ref().map(|x| x.to_value()),
            Some(self.f3.to_value()),
            self.f4.as_ref().map(|x| x.to_value()),
        ])
    }
}
impl FromValue for Ts5moodoe4 {
    fn from_value(v: &Value) -> Self {
        let s = match v { Value::Seq(s) => s, other => panic!("Ts5moodoe4: expected Seq, got {other:?}") };
        assert_eq!(s.len(), 5, "Ts5moodoe4: component count");
        let _ = s;
        Ts5moodoe4 {
            f0: FromValue::from_value(s[0].as_ref().expect("component f0 of Ts5moodoe4 must be present")),
            f1: s[1].as_ref().map(FromValue::from_value),
            f2: s[2].as_ref().map(FromValue::from_value),
            f3: FromValue::from_value(s[3].as_ref().expect("component f3 of Ts5moodoe4 must be present")),
            f4: s[4].as_ref().map(FromValue::from_value),
        }
    }
}
impl ToValue for Ts5moodoe4 {
    fn to_value(&self) -> Value {
        Value::Seq(vec![
            Some(self.f0.to_value()),
            self.f1.as_ref().map(|x| x.to_value()),
            self.f2.as_ref().map(|x| x.to_value()),
            Some(self.f3.to_value()),
            self.f4.as_ref().map(|x| x.to_value()),
        ])
    }
}
impl FromValue for Ts5moodoe5 {
    fn from_value(v: &Value) -> Self {
        let s = match v { Value::Seq(s) => s, other => panic!("Ts5moodoe5: expected Seq, got {other:?}") };
        assert_eq!(s.len(), 5, "Ts5moodoe5: component count");
        let _ = s;
        Ts5moodoe5 {
            f0: FromValue::from_value(s[0].as_ref().expect("component f0 of Ts5moodoe5 must be present")),
            f1: s[1].as_ref().map(FromValue::from_value),
            f2: s[2].as_ref().map(FromValue::from_value),
            f3: FromValue::from_value(s[3].as_ref().expect("component f3 of Ts5moodoe5 must be present")),
            f4: s[4].as_ref().map(FromValue::from_value),
        }
    }
}
impl ToValue for Ts5moodoe5 {
    fn to_value(&self) -> Value {
        Value::Seq(vec![
            Some(self.f0.to_value()),
            self.f1.as_ref().map(|x| x.to_value()),
            self.f2.as_ref().map(|x| x.to_value()),
            Some(self.f3.to_value()),
            self.f4.as_ref().map(|x| x.to_value()),
        ])
    }
}
impl FromValue for Ts5ooodon {
    fn from_value(v: &Value) -> Self {
        let s = match v { Value::Seq(s) => s, other => panic!("Ts5ooodon: expected Seq, got {other:?}") };
        assert_eq!(s.len(), 5, "Ts5ooodon: component count");
        let _ = s;
        Ts5ooodon {
            f0: s[0].as_ref().map(FromValue::from_value),
            f1: s[1].as_ref().map(FromValue::from_value),
            f2: s[2].as_ref().map(FromValue::from_value),
            f3: FromValue::from_value(s[3].as_ref().expect("component f3 of Ts5ooodon must be present")),
            f4: s[4].as_ref().map(FromValue::from_value),
        }
    }
}
impl ToValue for Ts5ooodon {
    fn to_value(&self) -> Value {
        Value::Seq(vec![
            self.f0.as_ref().map(|x| x.to_value()),
            self.f1.as_ref().map(|x| x.to_value()),
            self.f2.as_ref().map(|x| x.to_value()),
            Some(self.f3.to_value()),
            self.f4.as_ref().map(|x| x.to_value()),
        ])
    }
}
impl FromValue for Ts5ooodoe0 {
    fn from_value(v: &Value) -> Self {
        let s = match v { Value::Seq(s) => s, other => panic!("Ts5ooodoe0: expected Seq, got {other:?}") };
        assert_eq!(s.len(), 5, "Ts5ooodoe0: component count");
        let _ = s;
        Ts5ooodoe0 {
            f0: s[0].as_ref().map(FromValue::from_value),
            f1: s[1].as_ref().map(FromValue::from_value),
            f2: s[2].as_ref().map(FromValue::from_value),
            f3: FromValue::from_value(s[3].as_ref().expect("component f3 of Ts5ooodoe0 must be present")),
            f4: s[4].as_ref().map(FromValue::from_value),
        }
    }
}
impl ToValue for Ts5ooodoe0 {
    fn to_value(&self) -> Value {
        Value::Seq(vec![
            self.f0.as_ref().map(|x| x.to_value()),
            self.f1.as_ref().map(|x| x.to_value()),
            self.f2.as_ref().map(|x| x.to_value()),
            Some(self.f3.to_value()),
            self.f4.as_ref().map(|x| x.to_value()),
        ])
    }
}
impl FromValue for Ts5ooodoe1 {
    fn from_value(v: &Value) -> Self {
        let s = match v { Value::Seq(s) => s, other => panic!("Ts5ooodoe1: expected Seq, got {other:?}") };
        assert_eq!(s.len(), 5, "Ts5ooodoe1: component count");
        let _ = s;
        Ts5ooodoe1 {
            f0: s[0].as_ref().map(FromValue::from_value),
            f1: s[1].as_ref().map(FromValue::from_value),
            f2: s[2].as_ref().map(FromValue::from_value),
            f3: FromValue::from_value(s[3].as_ref().expect("component f3 of Ts5ooodoe1 must be present")),
            f4: s[4].as_ref().map(FromValue::from_value),
        }
    }
}
impl ToValue for Ts5ooodoe1 {
    fn to_value(&self) -> Value {
        Value::Seq(vec![
            self.f0.as_ref().map(|x| x.to_value()),
            self.f1.as_ref().map(|x| x.to_value()),
            self.f2.as_ref().map(|x| x.to_value()),
            Some(self.f3.to_value()),
            self.f4.as_ref().map(|x| x.to_value()),
        ])
    }
}
impl FromValue for Ts5ooodoe2 {
    fn from_value(v: &Value) -> Self {
        let s = match v { Value::Seq(s) => s, other => panic!("Ts5ooodoe2: expected Seq, got {other:?}") };
        assert_eq!(s.len(), 5, "Ts5ooodoe2: component count");
        let _ = s;
        Ts5ooodoe2 {
            f0: s[0].as_ref().map(FromValue::from_value),
            f1: s[1].as_ref().map(FromValue::from_value),
            f2: s[2].as_ref().map(FromValue::from_value),
            f3: FromValue::from_value(s[3].as_ref().expect("component f3 of Ts5ooodoe2 must be present")),
            f4: s[4].as_ref().map(FromValue::from_value),
        }
    }
}
impl ToValue for Ts5ooodoe2 {
    fn to_value(&self) -> Value {
        Value::Seq(vec![
            self.f0.as_ref().map(|x| x.to_value()),
            self.f1.as_ref().map(|x| x.to_value()),
            self.f2.as_ref().map(|x| x.to_value()),
            Some(self.f3.to_value()),
            self.f4.as_ref().map(|x| x.to_value()),
        ])
    }
}
impl FromValue for Ts5ooodoe3 {
    fn from_value(v: &Value) -> Self {
        let s = match v { Value::Seq(s) => s, other => panic!("Ts5ooodoe3: expected Seq, got {other:?}") };
        assert_eq!(s.len(), 5, "Ts5ooodoe3: component count");
        let _ = s;
        Ts5ooodoe3 {
            f0: s[0].as_ref().map(FromValue::from_value),
            f1: s[1].as_ref().map(FromValue::from_value),
            f2: s[2].as_ref().map(FromValue::from_value),
            f3: FromValue::from_value(s[3].as_ref().expect("component f3 of Ts5ooodoe3 must be present")),
            f4: s[4].as_ref().map(FromValue::from_value),
        }
    }
}
impl ToValue for Ts5ooodoe3 {
    fn to_value(&self) -> Value {
        Value::Seq(vec![
            self.f0.as_ref().map(|x| x.to_value()),
            self.f1.as_ref().map(|x| x.to_value()),
            self.f2.as_ref().map(|x| x.to_value()),
            Some(self.f3.to_value()),
            self.f4.as_ref().map(|x| x.to_value()),
        ])
    }
}
impl FromValue for Ts5ooodoe4 {
    fn from_value(v: &Value) -> Self {
        let s = match v { Value::Seq(s) => s, other => panic!("Ts5ooodoe4: expected Seq, got {other:?}") };
        assert_eq!(s.len(), 5, "Ts5ooodoe4: component count");
        let _ = s;
        Ts5ooodoe4 {
            f0: s[0].as_ref().map(FromValue::from_value),
            f1: s[1].as_ref().map(FromValue::from_value),
            f2: s[2].as_ref().map(FromValue::from_value),
            f3: FromValue::from_value(s[3].as_ref().expect("component f3 of Ts5ooodoe4 must be present")),
            f4: s[4].as_ref().map(FromValue::from_value),
        }
    }
}
impl ToValue for Ts5ooodoe4 {
    fn to_value(&self) -> Value {
        Value::Seq(vec![
            self.f0.as_ref().map(|x| x.to_value()),
            self.f1.as_ref().map(|x| x.to_value()),
            self.f2.as_ref().map(|x| x.to_value()),
            Some(self.f3.to_value()),
            self.f4.as_ref().map(|x| x.to_value()),
        ])
    }
}
impl FromValue for Ts5ooodoe5 {
    fn from_value(v: &Value) -> Self {
        let s = match v { Value::Seq(s) => s, other => panic!("Ts5ooodoe5: expected Seq, got {other:?}") };
        assert_eq!(s.len(), 5, "Ts5ooodoe5: component count");
        let _ = s;
        Ts5ooodoe5 {
            f0: s[0].as_ref().map(FromValue::from_value),
            f1: s[1].as_ref().map(FromValue::from_value),
            f2: s[2].as_ref().map(FromValue::from_value),
            f3: FromValue::from_value(s[3].as_ref().expect("component f3 of Ts5ooodoe5 must be present")),
            f4: s[4].as_ref().map(FromValue::from_value),
        }
    }
}
impl ToValue for Ts5ooodoe5 {
    fn to_value(&self) -> Value {
        Value::Seq(vec![
            self.f0.as_ref().map(|x| x.to_value()),
            self.f1.as_ref().map(|x| x.to_value()),
            self.f2.as_ref().map(|x| x.to_value()),
            Some(self.f3.to_value()),
            self.f4.as_ref().map(|x| x.to_value()),
        ])
    }
}
impl FromValue for Ts5doodon {
    fn from_value(v: &Value) -> Self {
        let s = match v { Value::Seq(s) => s, other => panic!("Ts5doodon: expected Seq, got {other:?}") };
        assert_eq!(s.len(), 5, "Ts5doodon: component count");
        let _ = s;
        Ts5doodon {
            f0: FromValue::from_value(s[0].as_ref().expect("component f0 of Ts5doodon must be present")),
            f1: s[1].as_ref().map(FromValue::from_value),
            f2: s[2].as_ref().map(FromValue::from_value),
            f3: FromValue::from_value(s[3].as_ref().expect("component f3 of Ts5doodon must be present")),
            f4: s[4].as_ref().map(FromValue::from_value),
        }
    }
}
impl ToValue for Ts5doodon {
    fn to_value(&self) -> Value {
        Value::Seq(vec![
            Some(self.f0.to_value()),
            self.f1.as_ref().map(|x| x.to_value()),
            self.f2.as_ref().map(|x| x.to_value()),
            Some(self.f3.to_value()),
            self.f4.as_ref().map(|x| x.to_value()),
        ])
    }
}
impl FromValue for Ts5doodoe0 {
    fn from_value(v: &Value) -> Self {
        let s = match v { Value::Seq(s) => s, other => panic!("Ts5doodoe0: expected Seq, got {other:?}") };
        assert_eq!(s.len(), 5, "Ts5doodoe0: component count");
        let _ = s;
        Ts5doodoe0 {
            f0: FromValue::from_value(s[0].as_ref().expect("component f0 of Ts5doodoe0 must be present")),
            f1: s[1].as_ref().map(FromValue::from_value),
            f2: s[2].as_ref().map(FromValue::from_value),
            f3: FromValue::from_value(s[3].as_ref().expect("component f3 of Ts5doodoe0 must be present")),
            f4: s[4].as_ref().map(FromValue::from_value),
        }
    }
}
impl ToValue for Ts5doodoe0 {
    fn to_value(&self) -> Value {
        Value::Seq(vec![
            Some(self.f0.to_value()),
            self.f1.as_ref().map(|x| x.to_value()),
            self.f2.as_ref().map(|x| x.to_value()),
            Some(self.f3.to_value()),
            self.f4.as_ref().map(|x| x.to_value()),
        ])
    }
}
impl FromValue for Ts5doodoe1 {
    fn from_value(v: &Value) -> Self {
        let s = match v { Value::Seq(s) => s, other => panic!("Ts5doodoe1: expected Seq, got {other:?}") };
        assert_eq!(s.len(), 5, "Ts5doodoe1: component count");
        let _ = s;
        Ts5doodoe1 {
            f0: FromValue::from_value(s[0].as_ref().expect("component f0 of Ts5doodoe1 must be present")),
            f1: s[1].as_ref().map(FromValue::from_value),
            f2: s[2].as_ref().map(FromValue::from_value),
            f3: FromValue::from_value(s[3].as_ref().expect("component f3 of Ts5doodoe1 must be present")),
            f4: s[4].as_ref().map(FromValue::from_value),
        }
    }
}
impl ToValue for Ts5doodoe1 {
    fn to_value(&self) -> Value {
        Value::Seq(vec![
            Some(self.f0.to_value()),
            self.f1.as_ref().map(|x| x.to_value()),
            self.f2.as_ref().map(|x| x.to_value()),
            Some(self.f3.to_value()),
            self.f4.as_ref().map(|x| x.to_value()),
        ])
    }
}
impl FromValue for Ts5doodoe2 {
    fn from_value(v: &Value) -> Self {
        let s = match v { Value::Seq(s) => s, other => panic!("Ts5doodoe2: expected Seq, got {other:?}") };
        assert_eq!(s.len(), 5, "Ts5doodoe2: component count");
        let _ = s;
        Ts5doodoe2 {
            f0: FromValue::from_value(s[0].as_ref().expect("component f0 of Ts5doodoe2 must be present")),
            f1: s[1].as_ref().map(FromValue::from_value),
            f2: s[2].as_ref().map(FromValue::from_value),
            f3: FromValue::from_value(s[3].as_ref().expect("component f3 of Ts5doodoe2 must be present")),
            f4: s[4].as_ref().map(FromValue::from_value),
        }
    }
}
impl ToValue for Ts5doodoe2 {
    fn to_value(&self) -> Value {
        Value::Seq(vec![
            Some(self.f0.to_value()),
            self.f1.as_ref().map(|x| x.to_value()),
            self.f2.as_ref().map(|x| x.to_value()),
            Some(self.f3.to_value()),
            self.f4.as_ref().map(|x| x.to_value()),
        ])
    }
}
impl FromValue for Ts5doodoe3 {
    fn from_value(v: &Value) -> Self {
        let s = match v { Value::Seq(s) => s, other => panic!("Ts5doodoe3: expected Seq, got {other:?}") };
        assert_eq!(s.len(), 5, "Ts5doodoe3: component count");
        let _ = s;
        Ts5doodoe3 {
            f0: FromValue::from_value(s[0].as_ref().expect("component f0 of Ts5doodoe3 must be present")),
            f1: s[1].as_ref().map(FromValue::from_value),
            f2: s[2].as_ref().map(FromValue::from_value),
            f3: FromValue::from_value(s[3].as_ref().expect("component f3 of Ts5doodoe3 must be present")),
            f4: s[4].as_ref().map(FromValue::from_value),
        }
    }
}
impl ToValue for Ts5doodoe3 {
    fn to_value(&self) -> Value {
        Value::Seq(vec![
            Some(self.f0.to_value()),
            self.f1.as_ref().map(|x| x.to_value()),
            self.f2.as_ref().map(|x| x.to_value()),
            Some(self.f3.to_value()),
            self.f4.as_ref().map(|x| x.to_value()),
        ])
    }
}
impl FromValue for Ts5doodoe4 {
    fn from_value(v: &Value) -> Self {
        let s = match v { Value::Seq(s) => s, other => panic!("Ts5doodoe4: expected Seq, got {other:?}") };
        assert_eq!(s.len(), 5, "Ts5doodoe4: component count");
        let _ = s;
        Ts5doodoe4 {
            f0: FromValue::from_value(s[0].as_ref().expect("component f0 of Ts5doodoe4 must be present")),
            f1: s[1].as_ref().map(FromValue::from_value),
            f2: s[2].as_ref().map(FromValue::from_value),
            f3: FromValue::from_value(s[3].as_ref().expect("component f3 of Ts5doodoe4 must be present")),
            f4: s[4].as_ref().map(FromValue::from_value),
        }
    }
}
impl ToValue for Ts5doodoe4 {
    fn to_value(&self) -> Value {
        Value::Seq(vec![
            Some(self.f0.to_value()),
            self.f1.as_ref().map(|x| x.to_value()),
            self.f2.as_ref().map(|x| x.to_value()),
            Some(self.f3.to_value()),
            self.f4.as_ref().map(|x| x.to_value()),
        ])
    }
}
impl FromValue for Ts5doodoe5 {
    fn from_value(v: &Value) -> Self {
        let s = match v { Value::Seq(s) => s, other => panic!("Ts5doodoe5: expected Seq, got {other:?}") };
        assert_eq!(s.len(), 5, "Ts5doodoe5: component count");
        let _ = s;
        Ts5doodoe5 {
            f0: FromValue::from_value(s[0].as_ref().expect("component f0 of Ts5doodoe5 must be present")),
            f1: s[1].as_ref().map(FromValue::from_value),
            f2: s[2].as_ref().map(FromValue::from_value),
            f3: FromValue::from_value(s[3].as_ref().expect("component f3 of Ts5doodoe5 must be present")),
            f4: s[4].as_ref().map(FromValue::from_value),
        }
    }
}
impl ToValue for Ts5doodoe5 {
    fn to_value(&self) -> Value {
        Value::Seq(vec![
            Some(self.f0.to_value()),
            self.f1.as_ref().map(|x| x.to_value()),
            self.f2.as_ref().map(|x| x.to_value()),
            Some(self.f3.to_value()),
            self.f4.as_ref().map(|x| x.to_value()),
        ])
    }
}
impl FromValue for Ts5mdodon {
    fn from_value(v: &Value) -> Self {
        let s = match v { Value::Seq(s) => s, other => panic!("Ts5mdodon: expected Seq, got {other:?}") };
        assert_eq!(s.len(), 5, "Ts5mdodon: component count");
        let _ = s;
        Ts5mdodon {
            f0: FromValue::from_value(s[0].as_ref().expect("component f0 of Ts5mdodon must be present")),
            f1: FromValue::from_value(s[1].as_ref().expect("component f1 of Ts5mdodon must be present")),
            f2: s[2].as_ref().map(FromValue::from_value),
            f3: FromValue::from_value(s[3].as_ref().expect("component f3 of Ts5mdodon must be present")),
            f4: s[4].as_ref().map(FromValue::from_value),
        }
    }
}
impl ToValue for Ts5mdodon {
    fn to_value(&self) -> Value {
        Value::Seq(vec![
            Some(self.f0.to_value()),
            Some(self.f1.to_value()),
            self.f2.as_ref().map(|x| x.to_value()),
            Some(self.f3.to_value()),
            self.f4.as_ref().map(|x| x.to_value()),
        ])
    }
}
impl FromValue for Ts5mdodoe0 {
    fn from_value(v: &Value) -> Self {
        let s = match v { Value::Seq(s) => s, other => panic!("Ts5mdodoe0: expected Seq, got {other:?}") };
        assert_eq!(s.len(), 5, "Ts5mdodoe0: component count");
        let _ = s;
        Ts5mdodoe0 {
            f0: FromValue::from_value(s[0].as_ref().expect("component f0 of Ts5mdodoe0 must be present")),
            f1: FromValue::from_value(s[1].as_ref().expect("component f1 of Ts5mdodoe0 must be present")),
            f2: s[2].as_ref().map(FromValue::from_value),
            f3: FromValue::from_value(s[3].as_ref().expect("component f3 of Ts5mdodoe0 must be present")),
            f4: s[4].as_ref().map(FromValue::from_value),
        }
    }
}
impl ToValue for Ts5mdodoe0 {
    fn to_value(&self) -> Value {
        Value::Seq(vec![
            Some(self.f0.to_value()),
            Some(self.f1.to_value()),
            self.f2.as_ref().map(|x| x.to_value()),
            Some(self.f3.to_value()),
            self.f4.as_ref().map(|x| x.to_value()),
        ])
    }
}
impl FromValue for Ts5mdodoe1 {
    fn from_value(v: &Value) -> Self {
        let s = match v { Value::Seq(s) => s, other => panic!("Ts5mdodoe1: expected Seq, got {other:?}") };
        assert_eq!(s.len(), 5, "Ts5mdodoe1: component count");
        let _ = s;
        Ts5mdodoe1 {
            f0: FromValue::from_value(s[0].as_ref().expect("component f0 of Ts5mdodoe1 must be present")),
            f1: FromValue::from_value(s[1].as_ref().expect("component f1 of Ts5mdodoe1 must be present")),
            f2: s[2].as_ref().map(FromValue::from_value),
            f3: FromValue::from_value(s[3].as_ref().expect("component f3 of Ts5mdodoe1 must be present")),
            f4: s[4].as_ref().map(FromValue::from_value),
        }
    }
}
impl ToValue for Ts5mdodoe1 {
    fn to_value(&self) -> Value {
        Value::Seq(vec![
            Some(self.f0.to_value()),
            Some(self.f1.to_value()),
            self.f2.as_ref().map(|x| x.to_value()),
            Some(self.f3.to_value()),
            self.f4.as_ref().map(|x| x.to_value()),
        ])
    }
}
impl FromValue for Ts5mdodoe2 {
    fn from_value(v: &Value) -> Self {
        let s = match v { Value::Seq(s) => s, other => panic!("Ts5mdodoe2: expected Seq, got {other:?}") };
        assert_eq!(s.len(), 5, "Ts5mdodoe2: component count");
        let _ = s;
        Ts5mdodoe2 {
            f0: FromValue::from_value(s[0].as_ref().expect("component f0 of Ts5mdodoe2 must be present")),
            f1: FromValue::from_value(s[1].as_ref().expect("component f1 of Ts5mdodoe2 must be present")),
            f2: s[2].as_ref().map(FromValue::from_value),
            f3: FromValue::from_value(s[3].as_ref().expect("component f3 of Ts5mdodoe2 must be present")),
            f4: s[4].as_ref().map(FromValue::from_value),
        }
    }
}
impl ToValue for Ts5mdodoe2 {
    fn to_value(&self) -> Value {
        Value::Seq(vec![
            Some(self.f0.to_value()),
            Some(self.f1.to_value()),
            self.f2.as_ref().map(|x| x.to_value()),
            Some(self.f3.to_value()),
            self.f4.as_ref().map(|x| x.to_value()),
        ])
    }
}
impl FromValue for Ts5mdodoe3 {
    fn from_value(v: &Value) -> Self {
        let s = match v { Value::Seq(s) => s, other => panic!("Ts5mdodoe3: expected Seq, got {other:?}") };
        assert_eq!(s.len(), 5, "Ts5mdodoe3: component count");
        let _ = s;
        Ts5mdodoe3 {
            f0: FromValue::from_value(s[0].as_ref().expect("component f0 of Ts5mdodoe3 must be present")),
            f1: FromValue::from_value(s[1].as_ref().expect("component f1 of Ts5mdodoe3 must be present")),
            f2: s[2].as_ref().map(FromValue::from_value),
            f3: FromValue::from_value(s[3].as_ref().expect("component f3 of Ts5mdodoe3 must be present")),
            f4: s[4].as_ref().map(FromValue::from_value),
        }
    }
}
impl ToValue for Ts5mdodoe3 {
    fn to_value(&self) -> Value {
        Value::Seq(vec![
            Some(self.f0.to_value()),
            Some(self.f1.to_value()),
            self.f2.as_ref().map(|x| x.to_value()),
            Some(self.f3.to_value()),
            self.f4.as_ref().map(|x| x.to_value()),
        ])
    }
}
impl FromValue for Ts5mdodoe4 {
    fn from_value(v: &Value) -> Self {
        let s = match v { Value::Seq(s) => s, other => panic!("Ts5mdodoe4: expected Seq, got {other:?}") };
        assert_eq!(s.len(), 5, "Ts5mdodoe4: component count");
        let _ = s;
        Ts5mdodoe4 {
            f0: FromValue::from_value(s[0].as_ref().expect("component f0 of Ts5mdodoe4 must be present")),
            f1: FromValue::from_value(s[1].as_ref().expect("component f1 of Ts5mdodoe4 must be present")),
            f2: s[2].as_ref().map(FromValue::from_value),
            f3: FromValue::from_value(s[3].as_ref().expect("component f3 of Ts5mdodoe4 must be present")),
            f4: s[4].as_ref().map(FromValue::from_value),
        }
    }
}
impl ToValue for Ts5mdodoe4 {
    fn to_value(&self) -> Value {
        Value::Seq(vec![
            Some(self.f0.to_value()),
            Some(self.f1.to_value()),
            self.f2.as_ref().map(|x| x.to_value()),
            Some(self.f3.to_value()),
            self.f4.as_ref().map(|x| x.to_value()),
        ])
    }
}
impl FromValue for Ts5mdodoe5 {
    fn from_value(v: &Value) -> Self {
        let s = match v { Value::Seq(s) => s, other => panic!("Ts5mdodoe5: expected Seq, got {other:?}") };
        assert_eq!(s.len(), 5, "Ts5mdodoe5: component count");
        let _ = s;
        Ts5mdodoe5 {
            f0: FromValue::from_value(s[0].as_ref().expect("component f0 of Ts5mdodoe5 must be present")),
            f1: FromValue::from_value(s[1].as_ref().expect("component f1 of Ts5mdodoe5 must be present")),
            f2: s[2].as_ref().map(FromValue::from_value),
            f3: FromValue::from_value(s[3].as_ref().expect("component f3 of Ts5mdodoe5 must be present")),
            f4: s[4].as_ref().map(FromValue::from_value),
        }
    }
}
impl ToValue for Ts5mdodoe5 {
    fn to_value(&self) -> Value {
        Value::Seq(vec![
            Some(self.f0.to_value()),
            Some(self.f1.to_value()),
            self.f2.as_ref().map(|x| x.to_value()),
            Some(self.f3.to_value()),
            self.f4.as_ref().map(|x| x.to_value()),
        ])
    }
}
impl FromValue for Ts5ododon {
    fn from_value(v: &Value) -> Self {
        let s = match v { Value::Seq(s) => s, other => panic!("Ts5ododon: expected Seq, got {other:?}") };
        assert_eq!(s.len(), 5, "Ts5ododon: component count");
        let _ = s;
        Ts5ododon {
            f0: s[0].as_ref().map(FromValue::from_value),
            f1: FromValue::from_value(s[1].as_ref().expect("component f1 of Ts5ododon must be present")),
            f2: s[2].as_ref().map(FromValue::from_value),
            f3: FromValue::from_value(s[3].as_ref().expect("component f3 of Ts5ododon must be present")),
            f4: s[4].as_ref().map(FromValue::from_value),
        }
    }
}
impl ToValue for Ts5ododon {
    fn to_value(&self) -> Value {
        Value::Seq(vec![
            self.f0.as_ref().map(|x| x.to_value()),
            Some(self.f1.to_value()),
            self.f2.as_ref().map(|x| x.to_value()),
            Some(self.f3.to_value()),
            self.f4.as_ref().map(|x| x.to_value()),
        ])
    }
}
impl FromValue for Ts5ododoe0 {
    fn from_value(v: &Value) -> Self {
        let s = match v { Value::Seq(s) => s, other => panic!("Ts5ododoe0: expected Seq, got {other:?}") };
        assert_eq!(s.len(), 5, "Ts5ododoe0: component count");
        let _ = s;
        Ts5ododoe0 {
            f0: s[0].as_ref().map(FromValue::from_value),
            f1: FromValue::from_value(s[1].as_ref().expect("component f1 of Ts5ododoe0 must be present")),
            f2: s[2].as_ref().map(FromValue::from_value),
            f3: FromValue::from_value(s[3].as_ref().expect("component f3 of Ts5ododoe0 must be present")),
            f4: s[4].as_ref().map(FromValue::from_value),
        }
    }
}
impl ToValue for Ts5ododoe0 {
    fn to_value(&self) -> Value {
        Value::Seq(vec![
            self.f0.as_ref().map(|x| x.to_value()),
            Some(self.f1.to_value()),
            self.f2.as_ref().map(|x| x.to_value()),
            Some(self.f3.to_value()),
            self.f4.as_ref().map(|x| x.to_value()),
        ])
    }
}
impl FromValue for Ts5ododoe1 {
    fn from_value(v: &Value) -> Self {
        let s = match v { Value::Seq(s) => s, other => panic!("Ts5ododoe1: expected Seq, got {other:?}") };
        assert_eq!(s.len(), 5, "Ts5ododoe1: component count");
        let _ = s;
        Ts5ododoe1 {
            f0: s[0].as_ref().map(FromValue::from_value),
            f1: FromValue::from_value(s[1].as_ref().expect("component f1 of Ts5ododoe1 must be present")),
            f2: s[2].as_ref().map(FromValue::from_value),
            f3: FromValue::from_value(s[3].as_ref().expect("component f3 of Ts5ododoe1 must be present")),
            f4: s[4].as_ref().map(FromValue::from_value),
        }
    }
}
impl ToValue for Ts5ododoe1 {
    fn to_value(&self) -> Value {
        Value::Seq(vec![
            self.f0.as_ref().map(|x| x.to_value()),
            Some(self.f1.to_value()),
            self.f2.as_ref().map(|x| x.to_value()),
            Some(self.f3.to_value()),
            self.f4.as_ref().map(|x| x.to_value()),
        ])
    }
}
impl FromValue for Ts5ododoe2 {
    fn from_value(v: &Value) -> Self {
        let s = match v { Value::Seq(s) => s, other => panic!("Ts5ododoe2: expected Seq, got {other:?}") };
        assert_eq!(s.len(), 5, "Ts5ododoe2: component count");
        let _ = s;
        Ts5ododoe2 {
            f0: s[0].as_ref().map(FromValue::from_value),
            f1: FromValue::from_value(s[1].as_ref().expect("component f1 of Ts5ododoe2 must be present")),
            f2: s[2].as_ref().map(FromValue::from_value),
            f3: FromValue::from_value(s[3].as_ref().expect("component f3 of Ts5ododoe2 must be present")),
            f4: s[4].as_ref().map(FromValue::from_value),
        }
    }
}
impl ToValue for Ts5ododoe2 {
    fn to_value(&self) -> Value {
        Value::Seq(vec![
            self.f0.as_ref().map(|x| x.to_value()),
            Some(self.f1.to_value()),
            self.f2.as_ref().map(|x| x.to_value()),
            Some(self.f3.to_value()),
            self.f4.as_ref().map(|x| x.to_value()),
        ])
    }
}
impl FromValue for Ts5ododoe3 {
    fn from_value(v: &Value) -> Self {
        let s = match v { Value::Seq(s) => s, other => panic!("Ts5ododoe3: expected Seq, got {other:?}") };
        assert_eq!(s.len(), 5, "Ts5ododoe3: component count");
        let _ = s;
        Ts5ododoe3 {
            f0: s[0].as_ref().map(FromValue::from_value),
            f1: FromValue::from_value(s[1].as_ref().expect("component f1 of Ts5ododoe3 must be present")),
            f2: s[2].as_ref().map(FromValue::from_value),
            f3: FromValue::from_value(s[3].as_ref().expect("component f3 of Ts5ododoe3 must be present")),
            f4: s[4].as_ref().map(FromValue::from_value),
        }
    }
}
impl ToValue for Ts5ododoe3 {
    fn to_value(&self) -> Value {
        Value::Seq(vec![
            self.f0.as_ref().map(|x| x.to_value()),
            Some(self.f1.to_value()),
            self.f2.as_ref().map(|x| x.to_value()),
            Some(self.f3.to_value()),
            self.f4.as_ref().map(|x| x.to_value()),
        ])
    }
}
impl FromValue for Ts5ododoe4 {
    fn from_value(v: &Value) -> Self {
        let s = match v { Value::Seq(s) => s, other => panic!("Ts5ododoe4: expected Seq, got {other:?}") };
        assert_eq!(s.len(), 5, "Ts5ododoe4: component count");
        let _ = s;
        Ts5ododoe4 {
            f0: s[0].as_ref().map(FromValue::from_value),
            f1: FromValue::from_value(s[1].as_ref().expect("component f1 of Ts5ododoe4 must be present")),
            f2: s[2].as_ref().map(FromValue::from_value),
            f3: FromValue::from_value(s[3].as_ref().expect("component f3 of Ts5ododoe4 must be present")),
            f4: s[4].as_ref().map(FromValue::from_value),
        }
    }
}
impl ToValue for Ts5ododoe4 {
    fn to_value(&self) -> Value {
        Value::Seq(vec![
            self.f0.as_ref().map(|x| x.to_value()),
            Some(self.f1.to_value()),
            self.f2.as_ref().map(|x| x.to_value()),
            Some(self.f3.to_value()),
            self.f4.as_ref().map(|x| x.to_value()),
        ])
    }
}
impl FromValue for Ts5ododoe5 {
    fn from_value(v: &Value) -> Self {
        let s = match v { Value::Seq(s) => s, other => panic!("Ts5ododoe5: expected Seq, got {other:?}") };
        assert_eq!(s.len(), 5, "Ts5ododoe5: component count");
        let _ = s;
        Ts5ododoe5 {
            f0: s[0].as_ref().map(FromValue::from_value),
            f1: FromValue::from_value(s[1].as_ref().expect("component f1 of Ts5ododoe5 must be present")),
            f2: s[2].as_ref().map(FromValue::from_value),
            f3: FromValue::from_value(s[3].as_ref().expect("component f3 of Ts5ododoe5 must be present")),
            f4: s[4].as_ref().map(FromValue::from_value),
        }
    }
}
impl ToValue for Ts5ododoe5 {
    fn to_value(&self) -> Value {
        Value::Seq(vec![
            self.f0.as_ref().map(|x| x.to_value()),
            Some(self.f1.to_value()),
            self.f2.as_ref().map(|x| x.to_value()),
            Some(self.f3.to_value()),
            self.f4.as_ref().map(|x| x.to_value()),
        ])
    }
}
impl FromValue for Ts5ddodon {
    fn from_value(v: &Value) -> Self {
        let s = match v { Value::Seq(s) => s, other => panic!("Ts5ddodon: expected Seq, got {other:?}") };
        assert_eq!(s.len(), 5, "Ts5ddodon: component count");
        let _ = s;
        Ts5ddodon {
            f0: FromValue::from_value(s[0].as_ref().expect("component f0 of Ts5ddodon must be present")),
            f1: FromValue::from_value(s[1].as_ref().expect("component f1 of Ts5ddodon must be present")),
            f2: s[2].as_ref().map(FromValue::from_value),
            f3: FromValue::from_value(s[3].as_ref().expect("component f3 of Ts5ddodon must be present")),
            f4: s[4].as_ref().map(FromValue::from_value),
        }
    }
}
impl ToValue for Ts5ddodon {
    fn to_value(&self) -> Value {
        Value::Seq(vec![
            Some(self.f0.to_value()),
            Some(self.f1.to_value()),
            self.f2.as_ref().map(|x| x.to_value()),
            Some(self.f3.to_value()),
            self.f4.as_ref().map(|x| x.to_value()),
        ])
    }
}
impl FromValue for Ts5ddodoe0 {
    fn from_value(v: &Value) -> Self {
        let s = match v { Value::Seq(s) => s, other => panic!("Ts5ddodoe0: expected Seq, got {other:?}") };
        assert_eq!(s.len(), 5, "Ts5ddodoe0: component count");
        let _ = s;
        Ts5ddodoe0 {
            f0: FromValue::from_value(s[0].as_ref().expect("component f0 of Ts5ddodoe0 must be present")),
            f1: FromValue::from_value(s[1].as_ref().expect("component f1 of Ts5ddodoe0 must be present")),
            f2: s[2].as_ref().map(FromValue::from_value),
            f3: FromValue::from_value(s[3].as_ref().expect("component f3 of Ts5ddodoe0 must be present")),
            f4: s[4].as_ref().map(FromValue::from_value),
        }
    }
}
impl ToValue for Ts5ddodoe0 {
    fn to_value(&self) -> Value {
        Value::Seq(vec![
            Some(self.f0.to_value()),
            Some(self.f1.to_value()),
            self.f2.as_ref().map(|x| x.to_value()),
            Some(self.f3.to_value()),
            self.f4.as_ref().map(|x| x.to_value()),
        ])
    }
}
impl FromValue for Ts5ddodoe1 {
    fn from_value(v: &Value) -> Self {
        let s = match v { Value::Seq(s) => s, other => panic!("Ts5ddodoe1: expected Seq, got {other:?}") };
        assert_eq!(s.len(), 5, "Ts5ddodoe1: component count");
        let _ = s;
        Ts5ddodoe1 {
            f0: FromValue::from_value(s[0].as_ref().expect("component f0 of Ts5ddodoe1 must be present")),
            f1: FromValue::from_value(s[1].as_ref().expect("component f1 of Ts5ddodoe1 must be present")),
            f2: s[2].as_ref().map(FromValue::from_value),
            f3: FromValue::from_value(s[3].as_ref().expect("component f3 of Ts5ddodoe1 must be present")),
            f4: s[4].as_ref().map(FromValue::from_value),
        }
    }
}
impl ToValue for Ts5ddodoe1 {
    fn to_value(&self) -> Value {
        Value::Seq(vec![
            Some(self.f0.to_value()),
            Some(self.f1.to_value()),
            self.f2.as_ref().map(|x| x.to_value()),
            Some(self.f3.to_value()),
            self.f4.as_ref().map(|x| x.to_value()),
        ])
    }
}
impl FromValue for Ts5ddodoe2 {
    fn from_value(v: &Value) -> Self {
        let s = match v { Value::Seq(s) => s, other => panic!("Ts5ddodoe2: expected Seq, got {other:?}") };
        assert_eq!(s.len(), 5, "Ts5ddodoe2: component count");
        let _ = s;
        Ts5ddodoe2 {
            f0: FromValue::from_value(s[0].as_ref().expect("component f0 of Ts5ddodoe2 must be present")),
            f1: FromValue::from_value(s[1].as_ref().expect("component f1 of Ts5ddodoe2 must be present")),
            f2: s[2].as_ref().map(FromValue::from_value),
            f3: FromValue::from_value(s[3].as_ref().expect("component f3 of Ts5ddodoe2 must be present")),
            f4: s[4].as_ref().map(FromValue::from_value),
        }
    }
}
impl ToValue for Ts5ddodoe2 {
    fn to_value(&self) -> Value {
        Value::Seq(vec![
            Some(self.f0.to_value()),
            Some(self.f1.to_value()),
            self.f2.as_ref().map(|x| x.to_value()),
            Some(self.f3.to_value()),
            self.f4.as_ref().map(|x| x.to_value()),
        ])
    }
}
impl FromValue for Ts5ddodoe3 {
    fn from_value(v: &Value) -> Self {
        let s = match v { Value::Seq(s) => s, other => panic!("Ts5ddodoe3: expected Seq, got {other:?}") };
        assert_eq!(s.len(), 5, "Ts5ddodoe3: component count");
        let _ = s;
        Ts5ddodoe3 {
            f0: FromValue::from_value(s[0].as_ref().expect("component f0 of Ts5ddodoe3 must be present")),
            f1: FromValue::from_value(s[1].as_ref().expect("component f1 of Ts5ddodoe3 must be present")),
            f2: s[2].as_ref().map(FromValue::from_value),
            f3: FromValue::from_value(s[3].as_ref().expect("component f3 of Ts5ddodoe3 must be present")),
            f4: s[4].as_ref().map(FromValue::from_value),
        }
    }
}
impl ToValue for Ts5ddodoe3 {
    fn to_value(&self) -> Value {
        Value::Seq(vec![
            Some(self.f0.to_value()),
            Some(self.f1.to_value()),
            self.f2.as_ref().map(|x| x.to_value()),
            Some(self.f3.to_value()),
            self.f4.as_ref().map(|x| x.to_value()),
        ])
    }
}
impl FromValue for Ts5ddodoe4 {
    fn from_value(v: &Value) -> Self {
        let s = match v { Value::Seq(s) => s, other => panic!("Ts5ddodoe4: expected Seq, got {other:?}") };
        assert_eq!(s.len(), 5, "Ts5ddodoe4: component count");
        let _ = s;
        Ts5ddodoe4 {
            f0: FromValue::from_value(s[0].as_ref().expect("component f0 of Ts5ddodoe4 must be present")),
            f1: FromValue::from_value(s[1].as_ref().expect("component f1 of Ts5ddodoe4 must be present")),
            f2: s[2].as_ref().map(FromValue::from_value),
            f3: FromValue::from_value(s[3].as_ref().expect("component f3 of Ts5ddodoe4 must be present")),
            f4: s[4].as_ref().map(FromValue::from_value),
        }
    }
}
impl ToValue for Ts5ddodoe4 {
    fn to_value(&self) -> Value {
        Value::Seq(vec![
            Some(self.f0.to_value()),
            Some(self.f1.to_value()),
            self.f2.as_ref().map(|x| x.to_value()),
            Some(self.f3.to_value()),
            self.f4.as_ref().map(|x| x.to_value()),
        ])
    }
}
impl FromValue for Ts5ddodoe5 {
    fn from_value(v: &Value) -> Self {
        let s = match v { Value::Seq(s) => s, other => panic!("Ts5ddodoe5: expected Seq, got {other:?}") };
        assert_eq!(s.len(), 5, "Ts5ddodoe5: component count");
        let _ = s;
        Ts5ddodoe5 {
            f0: FromValue::from_value(s[0].as_ref().expect("component f0 of Ts5ddodoe5 must be present")),
            f1: FromValue::from_value(s[1].as_ref().expect("component f1 of Ts5ddodoe5 must be present")),
            f2: s[2].as_ref().map(FromValue::from_value),
            f3: FromValue::from_value(s[3].as_ref().expect("component f3 of Ts5ddodoe5 must be present")),
            f4: s[4].as_ref().map(FromValue::from_value),
        }
    }
}
impl ToValue for Ts5ddodoe5 {
    fn to_value(&self) -> Value {
        Value::Seq(vec![
            Some(self.f0.to_value()),
            Some(self.f1.to_value()),
            self.f2.as_ref().map(|x| x.to_value()),
            Some(self.f3.to_value()),
            self.f4.as_ref().map(|x| x.to_value()),
        ])
    }
}
impl FromValue for Ts5mmddon {
    fn from_value(v: &Value) -> Self {
        let s = match v { Value::Seq(s) => s, other => panic!("Ts5mmddon: expected Seq, got {other:?}") };
        assert_eq!(s.len(), 5, "Ts5mmddon: component count");
        let _ = s;
        Ts5mmddon {
            f0: FromValue::from_value(s[0].as_ref().expect("component f0 of Ts5mmddon must be present")),
            f1: FromValue::from_value(s[1].as_ref().expect("component f1 of Ts5mmddon must be present")),
            f2: FromValue::from_value(s[2].as_ref().expect("component f2 of Ts5mmddon must be present")),
            f3: FromValue::from_value(s[3].as_ref().expect("component f3 of Ts5mmddon must be present")),
            f4: s[4].as_ref().map(FromValue::from_value),
        }
    }
}
impl ToValue for Ts5mmddon {
    fn to_value(&self) -> Value {
        Value::Seq(vec![
            Some(self.f0.to_value()),
            Some(self.f1.to_value()),
            Some(self.f2.to_value()),
            Some(self.f3.to_value()),
            self.f4.as_ref().map(|x| x.to_value()),
        ])
    }
}
impl FromValue for Ts5mmddoe0 {
    fn from_value(v: &Value) -> Self {
        let s = match v { Value::Seq(s) => s, other => panic!("Ts5mmddoe0: expected Seq, got {other:?}") };
        assert_eq!(s.len(), 5, "Ts5mmddoe0: component count");
        let _ = s;
        Ts5mmddoe0 {
            f0: FromValue::from_value(s[0].as_ref().expect("component f0 of Ts5mmddoe0 must be present")),
            f1: s[1].as_ref().map(FromValue::from_value),
            f2: FromValue::from_value(s[2].as_ref().expect("component f2 of Ts5mmddoe0 must be present")),
            f3: FromValue::from_value(s[3].as_ref().expect("component f3 of Ts5mmddoe0 must be present")),
            f4: s[4].as_ref().map(FromValue::from_value),
        }
    }
}
impl ToValue for Ts5mmddoe0 {
    fn to_value(&self) -> Value {
        Value::Seq(vec![
            Some(self.f0.to_value()),
            self.f1.as_ref().map(|x| x.to_value()),
            Some(self.f2.to_value()),
            Some(self.f3.to_value()),
            self.f4.as_ref().map(|x| x.to_value()),
        ])
    }
}
impl FromValue for Ts5mmddoe1 {
    fn from_value(v: &Value) -> Self {
        let s = match v { Value::Seq(s) => s, other => panic!("Ts5mmddoe1: expected Seq, got {other:?}") };
        assert_eq!(s.len(), 5, "Ts5mmddoe1: component count");
        let _ = s;
        Ts5mmddoe1 {
            f0: FromValue::from_value(s[0].as_ref().expect("component f0 of Ts5mmddoe1 must be present")),
            f1: s[1].as_ref().map(FromValue::from_value),
            f2: FromValue::from_value(s[2].as_ref().expect("component f2 of Ts5mmddoe1 must be present")),
            f3: FromValue::from_value(s[3].as_ref().expect("component f3 of Ts5mmddoe1 must be present")),
            f4: s[4].as_ref().map(FromValue::from_value),
        }
    }
}
impl ToValue for Ts5mmddoe1 {
    fn to_value(&self) -> Value {
        Value::Seq(vec![
            Some(self.f0.to_value()),
            self.f1.as_ref().map(|x| x.to_value()),
            Some(self.f2.to_value()),
            Some(self.f3.to_value()),
            self.f4.as_ref().map(|x| x.to_value()),
        ])
    }
}
impl FromValue for Ts5mmddoe2 {
    fn from_value(v: &Value) -> Self {
        let s = match v { Value::Seq(s) => s, other => panic!("Ts5mmddoe2: expected Seq, got {other:?}") };
        assert_eq!(s.len(), 5, "Ts5mmddoe2: component count");
        let _ = s;
        Ts5mmddoe2 {
            f0: FromValue::from_value(s[0].as_ref().expect("component f0 of Ts5mmddoe2 must be present")),
            f1: FromValue::from_value(s[1].as_ref().expect("component f1 of Ts5mmddoe2 must be present")),
            f2: FromValue::from_value(s[2].as_ref().expect("component f2 of Ts5mmddoe2 must be present")),
            f3: FromValue::from_value(s[3].as_ref().expect("component f3 of Ts5mmddoe2 must be present")),
            f4: s[4].as_ref().map(FromValue::from_value),
        }
    }
}
impl ToValue for Ts5mmddoe2 {
    fn to_value(&self) -> Value {
        Value::Seq(vec![
            Some(self.f0.to_value()),
            Some(self.f1.to_value()),
            Some(self.f2.to_value()),
            Some(self.f3.to_value()),
            self.f4.as_ref().map(|x| x.to_value()),
        ])
    }
}
impl FromValue for Ts5mmddoe3 {
    fn from_value(v: &Value) -> Self {
        let s = match v { Value::Seq(s) => s, other => panic!("Ts5mmddoe3: expected Seq, got {other:?}") };
        assert_eq!(s.len(), 5, "Ts5mmddoe3: component count");
        let _ = s;
        Ts5mmddoe3 {
            f0: FromValue::from_value(s[0].as_ref().expect("component f0 of Ts5mmddoe3 must be present")),
            f1: FromValue::from_value(s[1].as_ref().expect("component f1 of Ts5mmddoe3 must be present")),
            f2: FromValue::from_value(s[2].as_ref().expect("component f2 of Ts5mmddoe3 must be present")),
            f3: FromValue::from_value(s[3].as_ref().expect("component f3 of Ts5mmddoe3 must be present")),
            f4: s[4].as_ref().map(FromValue::from_value),
        }
    }
}
impl ToValue for Ts5mmddoe3 {
    fn to_value(&self) -> Value {
        Value::Seq(vec![
            Some(self.f0.to_value()),
            Some(self.f1.to_value()),
            Some(self.f2.to_value()),
            Some(self.f3.to_value()),
            self.f4.as_ref().map(|x| x.to_value()),
        ])
    }
}
impl FromValue for Ts5mmddoe4 {
    fn from_value(v: &Value) -> Self {
        let s = match v { Value::Seq(s) => s, other => panic!("Ts5mmddoe4: expected Seq, got {other:?}") };
        assert_eq!(s.len(), 5, "Ts5mmddoe4: component count");
        let _ = s;
        Ts5mmddoe4 {
            f0: FromValue::from_value(s[0].as_ref().expect("component f0 of Ts5mmddoe4 must be present")),
            f1: FromValue::from_value(s[1].as_ref().expect("component f1 of Ts5mmddoe4 must be present")),
            f2: FromValue::from_value(s[2].as_ref().expect("component f2 of Ts5mmddoe4 must be present")),
            f3: FromValue::from_value(s[3].as_ref().expect("component f3 of Ts5mmddoe4 must be present")),
            f4: s[4].as_ref().map(FromValue::from_value),
        }
    }
}
impl ToValue for Ts5mmddoe4 {
    fn to_value(&self) -> Value {
        Value::Seq(vec![
            Some(self.f0.to_value()),
            Some(self.f1.to_value()),
            Some(self.f2.to_value()),
            Some(self.f3.to_value()),
            self.f4.as_ref().map(|x| x.to_value()),
        ])
    }
}
impl FromValue for Ts5mmddoe5 {
    fn from_value(v: &Value) -> Self {
        let s = match v { Value::Seq(s) => s, other => panic!("Ts5mmddoe5: expected Seq, got {other:?}") };
        assert_eq!(s.len(), 5, "Ts5mmddoe5: component count");
        let _ = s;
        Ts5mmddoe5 {
            f0: FromValue::from_value(s[0].as_ref().expect("component f0 of Ts5mmddoe5 must be present")),
            f1: FromValue::from_value(s[1].as_ref().expect("component f1 of Ts5mmddoe5 must be present")),
            f2: FromValue::from_value(s[2].as_ref().expect("component f2 of Ts5mmddoe5 must be present")),
            f3: FromValue::from_value(s[3].as_ref().expect("component f3 of Ts5mmddoe5 must be present")),
            f4: s[4].as_ref().map(FromValue::from_value),
        }
    }
}
impl ToValue for Ts5mmddoe5 {
    fn to_value(&self) -> Value {
        Value::Seq(vec![
            Some(self.f0.to_value()),
            Some(self.f1.to_value()),
            Some(self.f2.to_value()),
            Some(self.f3.to_value()),
            self.f4.as_ref().map(|x| x.to_value()),
        ])
    }
}
impl FromValue for Ts5omddon {
    fn from_value(v: &Value) -> Self {
        let s = match v { Value::Seq(s) => s, other => panic!("Ts5omddon: expected Seq, got {other:?}") };
        assert_eq!(s.len(), 5, "Ts5omddon: component count");
        let _ = s;
        Ts5omddon {
            f0: s[0].as_ref().map(FromValue::from_value),
            f1: FromValue::from_value(s[1].as_ref().expect("component f1 of Ts5omddon must be present")),
            f2: FromValue::from_value(s[2].as_ref().expect("component f2 of Ts5omddon must be present")),
            f3: FromValue::from_value(s[3].as_ref().expect("component f3 of Ts5omddon must be present")),
            f4: s[4].as_ref().map(FromValue::from_value),
        }
    }
}
impl ToValue for Ts5omddon {
    fn to_value(&self) -> Value {
        Value::Seq(vec![
            self.f0.as_ref().map(|x| x.to_value()),
            Some(self.f1.to_value()),
            Some(self.f2.to_value()),
            Some(self.f3.to_value()),
            self.f4.as_ref().map(|x| x.to_value()),
        ])
    }
}
impl FromValue for Ts5omddoe0 {
    fn from_value(v: &Value) -> Self {
        let s = match v { Value::Seq(s) => s, other => panic!("Ts5omddoe0: expected Seq, got {other:?}") };
        assert_eq!(s.len(), 5, "Ts5omddoe0: component count");
        let _ = s;
        Ts5omddoe0 {
            f0: s[0].as_ref().map(FromValue::from_value),
            f1: s[1].as_ref().map(FromValue::from_value),
            f2: FromValue::from_value(s[2].as_ref().expect("component f2 of Ts5omddoe0 must be present")),
            f3: FromValue::from_value(s[3].as_ref().expect("component f3 of Ts5omddoe0 must be present")),
            f4: s[4].as_ref().map(FromValue::from_value),
        }
    }
}
impl ToValue for Ts5omddoe0 {
    fn to_value(&self) -> Value {
        Value::Seq(vec![
            self.f0.as_ref().map(|x| x.to_value()),
            self.f1.as_ref().map(|x| x.to_value()),
            Some(self.f2.to_value()),
            Some(self.f3.to_value()),
            self.f4.as_ref().map(|x| x.to_value()),
        ])
    }
}

use asn1rs::prelude::*;

#[asn(transparent)]

#[derive(Default, Debug, Clone, PartialEq, Hash)]
pub struct Tstif0(#[asn(set_of(size(0), integer(0..7)))] pub Vec<u8>);

impl Tstif0 {
    pub const fn value_min() -> u8 {
        0
    }

    pub const fn value_max() -> u8 {
        7
    }
}

impl Tstif0 {
    pub const fn new(value: Vec<u8>) -> Self {
        Self(value)
    }
}

impl ::core::ops::Deref for Tstif0 {
    type Target = Vec<u8>;

    fn deref(&self) -> &Vec<u8> {
        &self.0
    }
}

impl ::core::ops::DerefMut for Tstif0 {
    fn deref_mut(&mut self) -> &mut Vec<u8> {
        &mut self.0
    }
}

impl ::core::convert::From<Vec<u8>> for Tstif0 {
    fn from(value: Vec<u8>) -> Self {
        Self(value)
    }
}

impl ::core::convert::From<Tstif0> for Vec<u8> {
    fn from(value: Tstif0) -> Self {
        value.0
    }
}

#[asn(transparent)]

#[derive(Default, Debug, Clone, PartialEq, Hash)]
pub struct Tstif2(#[asn(set_of(size(2), integer(0..7)))] pub Vec<u8>);

impl Tstif2 {
    pub const fn value_min() -> u8 {
        0
    }

    pub const fn value_max() -> u8 {
        7
    }
}

impl Tstif2 {
    pub const fn new(value: Vec<u8>) -> Self {
        Self(value)
    }
}

impl ::core::ops::Deref for Tstif2 {
    type Target = Vec<u8>;

    fn deref(&self) -> &Vec<u8> {
        &self.0
    }
}

impl ::core::ops::DerefMut for Tstif2 {
    fn deref_mut(&mut self) -> &mut Vec<u8> {
        &mut self.0
    }
}

impl ::core::convert::From<Vec<u8>> for Tstif2 {
    fn from(value: Vec<u8>) -> Self {
        Self(value)
    }
}

impl ::core::convert::From<Tstif2> for Vec<u8> {
    fn from(value: Tstif2) -> Self {
        value.0
    }
}

#[asn(transparent)]

#[derive(Default, Debug, Clone, PartialEq, Hash)]
pub struct Tstif17(#[asn(set_of(size(17), integer(0..7)))] pub Vec<u8>);

impl Tstif17 {
    pub const fn value_min() -> u8 {
        0
    }

    pub const fn value_max() -> u8 {
        7
    }
}

impl Tstif17 {
    pub const fn new(value: Vec<u8>) -> Self {
        Self(value)
    }
}

impl ::core::ops::Deref for Tstif17 {
    type Target = Vec<u8>;

    fn deref(&self) -> &Vec<u8> {
        &self.0
    }
}

impl ::core::ops::DerefMut for Tstif17 {
    fn deref_mut(&mut self) -> &mut Vec<u8> {
        &mut self.0
    }
}

impl ::core::convert::From<Vec<u8>> for Tstif17 {
    fn from(value: Vec<u8>) -> Self {
        Self(value)
    }
}

impl ::core::convert::From<Tstif17> for Vec<u8> {
    fn from(value: Tstif17) -> Self {
        value.0
    }
}

#[asn(transparent)]

#[derive(Default, Debug, Clone, PartialEq, Hash)]
pub struct Tstir0to1(#[asn(set_of(size(0..1), integer(0..7)))] pub Vec<u8>);

impl Tstir0to1 {
    pub const fn value_min() -> u8 {
        0
    }

    pub const fn value_max() -> u8 {
        7
    }
}

impl Tstir0to1 {
    pub const fn new(value: Vec<u8>) -> Self {
        Self(value)
    }
}

impl ::core::ops::Deref for Tstir0to1 {
    type Target = Vec<u8>;

    fn deref(&self) -> &Vec<u8> {
        &self.0
    }
}

impl ::core::ops::DerefMut for Tstir0to1 {
    fn deref_mut(&mut self) -> &mut Vec<u8> {
        &mut self.0
    }
}

impl ::core::convert::From<Vec<u8>> for Tstir0to1 {
    fn from(value: Vec<u8>) -> Self {
        Self(value)
    }
}

impl ::core::convert::From<Tstir0to1> for Vec<u8> {
    fn from(value: Tstir0to1) -> Self {
        value.0
    }
}

#[asn(transparent)]

#[derive(Default, Debug, Clone, PartialEq, Hash)]
pub struct Tstir0to255(#[asn(set_of(size(0..255), integer(0..7)))] pub Vec<u8>);

impl Tstir0to255 {
    pub const fn value_min() -> u8 {
        0
    }

    pub const fn value_max() -> u8 {
        7
    }
}

impl Tstir0to255 {
    pub const fn new(value: Vec<u8>) -> Self {
        Self(value)
    }
}

impl ::core::ops::Deref for Tstir0to255 {
    type Target = Vec<u8>;

    fn deref(&self) -> &Vec<u8> {
        &self.0
    }
}

impl ::core::ops::DerefMut for Tstir0to255 {
    fn deref_mut(&mut self) -> &mut Vec<u8> {
        &mut self.0
    }
}

impl ::core::convert::From<Vec<u8>> for Tstir0to255 {
    fn from(value: Vec<u8>) -> Self {
        Self(value)
    }
}

impl ::core::convert::From<Tstir0to255> for Vec<u8> {
    fn from(value: Tstir0to255) -> Self {
        value.0
    }
}

#[asn(transparent)]

#[derive(Default, Debug, Clone, PartialEq, Hash)]
pub struct Tstir0to256(#[asn(set_of(size(0..256), integer(0..7)))] pub Vec<u8>);

impl Tstir0to256 {
    pub const fn value_min() -> u8 {
        0
    }

    pub const fn value_max() -> u8 {
        7
    }
}

impl Tstir0to256 {
    pub const fn new(value: Vec<u8>) -> Self {
        Self(value)
    }
}

impl ::core::ops::Deref for Tstir0to256 {
    type Target = Vec<u8>;

    fn deref(&self) -> &Vec<u8> {
        &self.0
    }
}

impl ::core::ops::DerefMut for Tstir0to256 {
    fn deref_mut(&mut self) -> &mut Vec<u8> {
        &mut self.0
    }
}

impl ::core::convert::From<Vec<u8>> for Tstir0to256 {
    fn from(value: Vec<u8>) -> Self {
        Self(value)
    }
}

impl ::core::convert::From<Tstir0to256> for Vec<u8> {
    fn from(value: Tstir0to256) -> Self {
        value.0
    }
}

#[asn(transparent)]

#[derive(Default, Debug, Clone, PartialEq, Hash)]
pub struct Tstir1to65535(#[asn(set_of(size(1..65535), integer(0..7)))] pub Vec<u8>);

impl Tstir1to65535 {
    pub const fn value_min() -> u8 {
        0
    }

    pub const fn value_max() -> u8 {
        7
    }
}

impl Tstir1to65535 {
    pub const fn new(value: Vec<u8>) -> Self {
        Self(value)
    }
}

impl ::core::ops::Deref for Tstir1to65535 {
    type Target = Vec<u8>;

    fn deref(&self) -> &Vec<u8> {
        &self.0
    }
}

impl ::core::ops::DerefMut for Tstir1to65535 {
    fn deref_mut(&mut self) -> &mut Vec<u8> {
        &mut self.0
    }
}

impl ::core::convert::From<Vec<u8>> for Tstir1to65535 {
    fn from(value: Vec<u8>) -> Self {
        Self(value)
    }
}

impl ::core::convert::From<Tstir1to65535> for Vec<u8> {
    fn from(value: Tstir1to65535) -> Self {
        value.0
    }
}

#[asn(transparent)]

#[derive(Default, Debug, Clone, PartialEq, Hash)]
pub struct Tstir1to65536(#[asn(set_of(size(1..65536), integer(0..7)))] pub Vec<u8>);

impl Tstir1to65536 {
    pub const fn value_min() -> u8 {
        0
    }

    pub const fn value_max() -> u8 {
        7
    }
}

impl Tstir1to65536 {
    pub const fn new(value: Vec<u8>) -> Self {
        Self(value)
    }
}

impl ::core::ops::Deref for Tstir1to65536 {
    type Target = Vec<u8>;

    fn deref(&self) -> &Vec<u8> {
        &self.0
    }
}

impl ::core::ops::DerefMut for Tstir1to65536 {
    fn deref_mut(&mut self) -> &mut Vec<u8> {
        &mut self.0
    }
}

impl ::core::convert::From<Vec<u8>> for Tstir1to65536 {
    fn from(value: Vec<u8>) -> Self {
        Self(value)
    }
}

impl ::core::convert::From<Tstir1to65536> for Vec<u8> {
    fn from(value: Tstir1to65536) -> Self {
        value.0
    }
}

#[asn(transparent)]

#[derive(Default, Debug, Clone, PartialEq, Hash)]
pub struct Tstir0to65535x(#[asn(set_of(size(0..65535,...), integer(0..7)))] pub Vec<u8>);

impl Tstir0to65535x {
    pub const fn value_min() -> u8 {
        0
    }

    pub const fn value_max() -> u8 {
        7
    }
}

impl Tstir0to65535x {
    pub const fn new(value: Vec<u8>) -> Self {
        Self(value)
    }
}

impl ::core::ops::Deref for Tstir0to65535x {
    type Target = Vec<u8>;

    fn deref(&self) -> &Vec<u8> {
        &self.0
    }
}

impl ::core::ops::DerefMut for Tstir0to65535x {
    fn deref_mut(&mut self) -> &mut Vec<u8> {
        &mut self.0
    }
}

impl ::core::convert::From<Vec<u8>> for Tstir0to65535x {
    fn from(value: Vec<u8>) -> Self {
        Self(value)
    }
}

impl ::core::convert::From<Tstir0to65535x> for Vec<u8> {
    fn from(value: Tstir0to65535x) -> Self {
        value.0
    }
}
// ---- harness conversions (generated by the zoo build script from the items above) ----
impl FromValue for Tstif0 { fn from_value(v: &Value) -> Self { Tstif0(FromValue::from_value(v)) } }
impl ToValue for Tstif0 { fn to_value(&self) -> Value { self.0.to_value() } }
impl FromValue for Tstif2 { fn from_value(v: &Value) -> Self { Tstif2(FromValue::from_value(v)) } }
impl ToValue for Tstif2 { fn to_value(&self) -> Value { self.0.to_value() } }
impl FromValue for Tstif17 { fn from_value(v: &Value) -> Self { Tstif17(FromValue::from_value(v)) } }
impl ToValue for Tstif17 { fn to_value(&self) -> Value { self.0.to_value() } }
impl FromValue for Tstir0to1 { fn from_value(v: &Value) -> Self { Tstir0to1(FromValue::from_value(v)) } }
impl ToValue for Tstir0to1 { fn to_value(&self) -> Value { self.0.to_value() } }
impl FromValue for Tstir0to255 { fn from_value(v: &Value) -> Self { Tstir0to255(FromValue::from_value(v)) } }
impl ToValue for Tstir0to255 { fn to_value(&self) -> Value { self.0.to_value() } }
impl FromValue for Tstir0to256 { fn from_value(v: &Value) -> Self { Tstir0to256(FromValue::from_value(v)) } }
impl ToValue for Tstir0to256 { fn to_value(&self) -> Value { self.0.to_value() } }
impl FromValue for Tstir1to65535 { fn from_value(v: &Value) -> Self { Tstir1to65535(FromValue::from_value(v)) } }
impl ToValue for Tstir1to65535 { fn to_value(&self) -> Value { self.0.to_value() } }
impl FromValue for Tstir1to65536 { fn from_value(v: &Value) -> Self { Tstir1to65536(FromValue::from_value(v)) } }
impl ToValue for Tstir1to65536 { fn to_value(&self) -> Value { self.0.to_value() } }
impl FromValue for Tstir0to65535x { fn from_value(v: &Value) -> Self { Tstir0to65535x(FromValue::from_value(v)) } }
impl ToValue for Tstir0to65535x { fn to_value(&self) -> Value { self.0.to_value() } }

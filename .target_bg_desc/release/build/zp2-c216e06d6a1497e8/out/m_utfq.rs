use asn1rs::prelude::*;

#[asn(transparent)]

#[derive(Default, Debug, Clone, PartialEq, Hash)]
pub struct Tutfany(#[asn(utf8string)] pub String);

impl Tutfany {
}

impl Tutfany {
    pub const fn new(value: String) -> Self {
        Self(value)
    }
}

impl ::core::ops::Deref for Tutfany {
    type Target = String;

    fn deref(&self) -> &String {
        &self.0
    }
}

impl ::core::ops::DerefMut for Tutfany {
    fn deref_mut(&mut self) -> &mut String {
        &mut self.0
    }
}

impl ::core::convert::From<String> for Tutfany {
    fn from(value: String) -> Self {
        Self(value)
    }
}

impl ::core::convert::From<Tutfany> for String {
    fn from(value: Tutfany) -> Self {
        value.0
    }
}

#[asn(transparent)]

#[derive(Default, Debug, Clone, PartialEq, Hash)]
pub struct Tutff1(#[asn(utf8string(size(1)))] pub String);

impl Tutff1 {
}

impl Tutff1 {
    pub const fn new(value: String) -> Self {
        Self(value)
    }
}

impl ::core::ops::Deref for Tutff1 {
    type Target = String;

    fn deref(&self) -> &String {
        &self.0
    }
}

impl ::core::ops::DerefMut for Tutff1 {
    fn deref_mut(&mut self) -> &mut String {
        &mut self.0
    }
}

impl ::core::convert::From<String> for Tutff1 {
    fn from(value: String) -> Self {
        Self(value)
    }
}

impl ::core::convert::From<Tutff1> for String {
    fn from(value: Tutff1) -> Self {
        value.0
    }
}

#[asn(transparent)]

#[derive(Default, Debug, Clone, PartialEq, Hash)]
pub struct Tutff3(#[asn(utf8string(size(3)))] pub String);

impl Tutff3 {
}

impl Tutff3 {
    pub const fn new(value: String) -> Self {
        Self(value)
    }
}

impl ::core::ops::Deref for Tutff3 {
    type Target = String;

    fn deref(&self) -> &String {
        &self.0
    }
}

impl ::core::ops::DerefMut for Tutff3 {
    fn deref_mut(&mut self) -> &mut String {
        &mut self.0
    }
}

impl ::core::convert::From<String> for Tutff3 {
    fn from(value: String) -> Self {
        Self(value)
    }
}

impl ::core::convert::From<Tutff3> for String {
    fn from(value: Tutff3) -> Self {
        value.0
    }
}

#[asn(transparent)]

#[derive(Default, Debug, Clone, PartialEq, Hash)]
pub struct Tutff65535(#[asn(utf8string(size(65535)))] pub String);

impl Tutff65535 {
}

impl Tutff65535 {
    pub const fn new(value: String) -> Self {
        Self(value)
    }
}

impl ::core::ops::Deref for Tutff65535 {
    type Target = String;

    fn deref(&self) -> &String {
        &self.0
    }
}

impl ::core::ops::DerefMut for Tutff65535 {
    fn deref_mut(&mut self) -> &mut String {
        &mut self.0
    }
}

impl ::core::convert::From<String> for Tutff65535 {
    fn from(value: String) -> Self {
        Self(value)
    }
}

impl ::core::convert::From<Tutff65535> for String {
    fn from(value: Tutff65535) -> Self {
        value.0
    }
}

#[asn(transparent)]

#[derive(Default, Debug, Clone, PartialEq, Hash)]
pub struct Tutff65536(#[asn(utf8string(size(65536)))] pub String);

impl Tutff65536 {
}

impl Tutff65536 {
    pub const fn new(value: String) -> Self {
        Self(value)
    }
}

impl ::core::ops::Deref for Tutff65536 {
    type Target = String;

    fn deref(&self) -> &String {
        &self.0
    }
}

impl ::core::ops::DerefMut for Tutff65536 {
    fn deref_mut(&mut self) -> &mut String {
        &mut self.0
    }
}

impl ::core::convert::From<String> for Tutff65536 {
    fn from(value: String) -> Self {
        Self(value)
    }
}

impl ::core::convert::From<Tutff65536> for String {
    fn from(value: Tutff65536) -> Self {
        value.0
    }
}

#[asn(transparent)]

#[derive(Default, Debug, Clone, PartialEq, Hash)]
pub struct Tutfr1to4(#[asn(utf8string(size(1..4)))] pub String);

impl Tutfr1to4 {
}

impl Tutfr1to4 {
    pub const fn new(value: String) -> Self {
        Self(value)
    }
}

impl ::core::ops::Deref for Tutfr1to4 {
    type Target = String;

    fn deref(&self) -> &String {
        &self.0
    }
}

impl ::core::ops::DerefMut for Tutfr1to4 {
    fn deref_mut(&mut self) -> &mut String {
        &mut self.0
    }
}

impl ::core::convert::From<String> for Tutfr1to4 {
    fn from(value: String) -> Self {
        Self(value)
    }
}

impl ::core::convert::From<Tutfr1to4> for String {
    fn from(value: Tutfr1to4) -> Self {
        value.0
    }
}

#[asn(transparent)]

#[derive(Default, Debug, Clone, PartialEq, Hash)]
pub struct Tutfr4to6(#[asn(utf8string(size(4..6)))] pub String);

impl Tutfr4to6 {
}

impl Tutfr4to6 {
    pub const fn new(value: String) -> Self {
        Self(value)
    }
}

impl ::core::ops::Deref for Tutfr4to6 {
    type Target = String;

    fn deref(&self) -> &String {
        &self.0
    }
}

impl ::core::ops::DerefMut for Tutfr4to6 {
    fn deref_mut(&mut self) -> &mut String {
        &mut self.0
    }
}

impl ::core::convert::From<String> for Tutfr4to6 {
    fn from(value: String) -> Self {
        Self(value)
    }
}

impl ::core::convert::From<Tutfr4to6> for String {
    fn from(value: Tutfr4to6) -> Self {
        value.0
    }
}

#[asn(transparent)]

#[derive(Default, Debug, Clone, PartialEq, Hash)]
pub struct Tutfr1to70000(#[asn(utf8string(size(1..70000)))] pub String);

impl Tutfr1to70000 {
}

impl Tutfr1to70000 {
    pub const fn new(value: String) -> Self {
        Self(value)
    }
}

impl ::core::ops::Deref for Tutfr1to70000 {
    type Target = String;

    fn deref(&self) -> &String {
        &self.0
    }
}

impl ::core::ops::DerefMut for Tutfr1to70000 {
    fn deref_mut(&mut self) -> &mut String {
        &mut self.0
    }
}

impl ::core::convert::From<String> for Tutfr1to70000 {
    fn from(value: String) -> Self {
        Self(value)
    }
}

impl ::core::convert::From<Tutfr1to70000> for String {
    fn from(value: Tutfr1to70000) -> Self {
        value.0
    }
}

#[asn(transparent)]

#[derive(Default, Debug, Clone, PartialEq, Hash)]
pub struct Tutfr2tomax(#[asn(utf8string(size(2..9223372036854775807)))] pub String);

impl Tutfr2tomax {
}

impl Tutfr2tomax {
    pub const fn new(value: String) -> Self {
        Self(value)
    }
}

impl ::core::ops::Deref for Tutfr2tomax {
    type Target = String;

    fn deref(&self) -> &String {
        &self.0
    }
}

impl ::core::ops::DerefMut for Tutfr2tomax {
    fn deref_mut(&mut self) -> &mut String {
        &mut self.0
    }
}

impl ::core::convert::From<String> for Tutfr2tomax {
    fn from(value: String) -> Self {
        Self(value)
    }
}

impl ::core::convert::From<Tutfr2tomax> for String {
    fn from(value: Tutfr2tomax) -> Self {
        value.0
    }
}

#[asn(transparent)]

#[derive(Default, Debug, Clone, PartialEq, Hash)]
pub struct Tutff3x(#[asn(utf8string(size(3,...)))] pub String);

impl Tutff3x {
}

impl Tutff3x {
    pub const fn new(value: String) -> Self {
        Self(value)
    }
}

impl ::core::ops::Deref for Tutff3x {
    type Target = String;

    fn deref(&self) -> &String {
        &self.0
    }
}

impl ::core::ops::DerefMut for Tutff3x {
    fn deref_mut(&mut self) -> &mut String {
        &mut self.0
    }
}

impl ::core::convert::From<String> for Tutff3x {
    fn from(value: String) -> Self {
        Self(value)
    }
}

impl ::core::convert::From<Tutff3x> for String {
    fn from(value: Tutff3x) -> Self {
        value.0
    }
}

#[asn(transparent)]

#[derive(Default, Debug, Clone, PartialEq, Hash)]
pub struct Tutfr1to4x(#[asn(utf8string(size(1..4,...)))] pub String);

impl Tutfr1to4x {
}

impl Tutfr1to4x {
    pub const fn new(value: String) -> Self {
        Self(value)
    }
}

impl ::core::ops::Deref for Tutfr1to4x {
    type Target = String;

    fn deref(&self) -> &String {
        &self.0
    }
}

impl ::core::ops::DerefMut for Tutfr1to4x {
    fn deref_mut(&mut self) -> &mut String {
        &mut self.0
    }
}

impl ::core::convert::From<String> for Tutfr1to4x {
    fn from(value: String) -> Self {
        Self(value)
    }
}

impl ::core::convert::From<Tutfr1to4x> for String {
    fn from(value: Tutfr1to4x) -> Self {
        value.0
    }
}
// ---- harness conversions (generated by the zoo build script from the items above) ----
impl FromValue for Tutfany { fn from_value(v: &Value) -> Self { Tutfany(FromValue::from_value(v)) } }
impl ToValue for Tutfany { fn to_value(&self) -> Value { self.0.to_value() } }
impl FromValue for Tutff1 { fn from_value(v: &Value) -> Self { Tutff1(FromValue::from_value(v)) } }
impl ToValue for Tutff1 { fn to_value(&self) -> Value { self.0.to_value() } }
impl FromValue for Tutff3 { fn from_value(v: &Value) -> Self { Tutff3(FromValue::from_value(v)) } }
impl ToValue for Tutff3 { fn to_value(&self) -> Value { self.0.to_value() } }
impl FromValue for Tutff65535 { fn from_value(v: &Value) -> Self { Tutff65535(FromValue::from_value(v)) } }
impl ToValue for Tutff65535 { fn to_value(&self) -> Value { self.0.to_value() } }
impl FromValue for Tutff65536 { fn from_value(v: &Value) -> Self { Tutff65536(FromValue::from_value(v)) } }
impl ToValue for Tutff65536 { fn to_value(&self) -> Value { self.0.to_value() } }
impl FromValue for Tutfr1to4 { fn from_value(v: &Value) -> Self { Tutfr1to4(FromValue::from_value(v)) } }
impl ToValue for Tutfr1to4 { fn to_value(&self) -> Value { self.0.to_value() } }
impl FromValue for Tutfr4to6 { fn from_value(v: &Value) -> Self { Tutfr4to6(FromValue::from_value(v)) } }
impl ToValue for Tutfr4to6 { fn to_value(&self) -> Value { self.0.to_value() } }
impl FromValue for Tutfr1to70000 { fn from_value(v: &Value) -> Self { Tutfr1to70000(FromValue::from_value(v)) } }
impl ToValue for Tutfr1to70000 { fn to_value(&self) -> Value { self.0.to_value() } }
impl FromValue for Tutfr2tomax { fn from_value(v: &Value) -> Self { Tutfr2tomax(FromValue::from_value(v)) } }
impl ToValue for Tutfr2tomax { fn to_value(&self) -> Value { self.0.to_value() } }
impl FromValue for Tutff3x { fn from_value(v: &Value) -> Self { Tutff3x(FromValue::from_value(v)) } }
impl ToValue for Tutff3x { fn to_value(&self) -> Value { self.0.to_value() } }
impl FromValue for Tutfr1to4x { fn from_value(v: &Value) -> Self { Tutfr1to4x(FromValue::from_value(v)) } }
impl ToValue for Tutfr1to4x { fn to_value(&self) -> Value { self.0.to_value() } }

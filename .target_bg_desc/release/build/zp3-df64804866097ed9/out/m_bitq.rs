use asn1rs::prelude::*;

#[asn(transparent)]

#[derive(Default, Debug, Clone, PartialEq, Hash)]
pub struct Tbitany(#[asn(bit_string())] pub BitVec);

impl Tbitany {
}

impl Tbitany {
    pub const fn new(value: BitVec) -> Self {
        Self(value)
    }
}

impl ::core::ops::Deref for Tbitany {
    type Target = BitVec;

    fn deref(&self) -> &BitVec {
        &self.0
    }
}

impl ::core::ops::DerefMut for Tbitany {
    fn deref_mut(&mut self) -> &mut BitVec {
        &mut self.0
    }
}

impl ::core::convert::From<BitVec> for Tbitany {
    fn from(value: BitVec) -> Self {
        Self(value)
    }
}

impl ::core::convert::From<Tbitany> for BitVec {
    fn from(value: Tbitany) -> Self {
        value.0
    }
}

#[asn(transparent)]

#[derive(Default, Debug, Clone, PartialEq, Hash)]
pub struct Tbitf1(#[asn(bit_string(size(1)))] pub BitVec);

impl Tbitf1 {
}

impl Tbitf1 {
    pub const fn new(value: BitVec) -> Self {
        Self(value)
    }
}

impl ::core::ops::Deref for Tbitf1 {
    type Target = BitVec;

    fn deref(&self) -> &BitVec {
        &self.0
    }
}

impl ::core::ops::DerefMut for Tbitf1 {
    fn deref_mut(&mut self) -> &mut BitVec {
        &mut self.0
    }
}

impl ::core::convert::From<BitVec> for Tbitf1 {
    fn from(value: BitVec) -> Self {
        Self(value)
    }
}

impl ::core::convert::From<Tbitf1> for BitVec {
    fn from(value: Tbitf1) -> Self {
        value.0
    }
}

#[asn(transparent)]

#[derive(Default, Debug, Clone, PartialEq, Hash)]
pub struct Tbitf3(#[asn(bit_string(size(3)))] pub BitVec);

impl Tbitf3 {
}

impl Tbitf3 {
    pub const fn new(value: BitVec) -> Self {
        Self(value)
    }
}

impl ::core::ops::Deref for Tbitf3 {
    type Target = BitVec;

    fn deref(&self) -> &BitVec {
        &self.0
    }
}

impl ::core::ops::DerefMut for Tbitf3 {
    fn deref_mut(&mut self) -> &mut BitVec {
        &mut self.0
    }
}

impl ::core::convert::From<BitVec> for Tbitf3 {
    fn from(value: BitVec) -> Self {
        Self(value)
    }
}

impl ::core::convert::From<Tbitf3> for BitVec {
    fn from(value: Tbitf3) -> Self {
        value.0
    }
}

#[asn(transparent)]

#[derive(Default, Debug, Clone, PartialEq, Hash)]
pub struct Tbitf65535(#[asn(bit_string(size(65535)))] pub BitVec);

impl Tbitf65535 {
}

impl Tbitf65535 {
    pub const fn new(value: BitVec) -> Self {
        Self(value)
    }
}

impl ::core::ops::Deref for Tbitf65535 {
    type Target = BitVec;

    fn deref(&self) -> &BitVec {
        &self.0
    }
}

impl ::core::ops::DerefMut for Tbitf65535 {
    fn deref_mut(&mut self) -> &mut BitVec {
        &mut self.0
    }
}

impl ::core::convert::From<BitVec> for Tbitf65535 {
    fn from(value: BitVec) -> Self {
        Self(value)
    }
}

impl ::core::convert::From<Tbitf65535> for BitVec {
    fn from(value: Tbitf65535) -> Self {
        value.0
    }
}

#[asn(transparent)]

#[derive(Default, Debug, Clone, PartialEq, Hash)]
pub struct Tbitf65536(#[asn(bit_string(size(65536)))] pub BitVec);

impl Tbitf65536 {
}

impl Tbitf65536 {
    pub const fn new(value: BitVec) -> Self {
        Self(value)
    }
}

impl ::core::ops::Deref for Tbitf65536 {
    type Target = BitVec;

    fn deref(&self) -> &BitVec {
        &self.0
    }
}

impl ::core::ops::DerefMut for Tbitf65536 {
    fn deref_mut(&mut self) -> &mut BitVec {
        &mut self.0
    }
}

impl ::core::convert::From<BitVec> for Tbitf65536 {
    fn from(value: BitVec) -> Self {
        Self(value)
    }
}

impl ::core::convert::From<Tbitf65536> for BitVec {
    fn from(value: Tbitf65536) -> Self {
        value.0
    }
}

#[asn(transparent)]

#[derive(Default, Debug, Clone, PartialEq, Hash)]
pub struct Tbitr1to4(#[asn(bit_string(size(1..4)))] pub BitVec);

impl Tbitr1to4 {
}

impl Tbitr1to4 {
    pub const fn new(value: BitVec) -> Self {
        Self(value)
    }
}

impl ::core::ops::Deref for Tbitr1to4 {
    type Target = BitVec;

    fn deref(&self) -> &BitVec {
        &self.0
    }
}

impl ::core::ops::DerefMut for Tbitr1to4 {
    fn deref_mut(&mut self) -> &mut BitVec {
        &mut self.0
    }
}

impl ::core::convert::From<BitVec> for Tbitr1to4 {
    fn from(value: BitVec) -> Self {
        Self(value)
    }
}

impl ::core::convert::From<Tbitr1to4> for BitVec {
    fn from(value: Tbitr1to4) -> Self {
        value.0
    }
}

#[asn(transparent)]

#[derive(Default, Debug, Clone, PartialEq, Hash)]
pub struct Tbitr4to6(#[asn(bit_string(size(4..6)))] pub BitVec);

impl Tbitr4to6 {
}

impl Tbitr4to6 {
    pub const fn new(value: BitVec) -> Self {
        Self(value)
    }
}

impl ::core::ops::Deref for Tbitr4to6 {
    type Target = BitVec;

    fn deref(&self) -> &BitVec {
        &self.0
    }
}

impl ::core::ops::DerefMut for Tbitr4to6 {
    fn deref_mut(&mut self) -> &mut BitVec {
        &mut self.0
    }
}

impl ::core::convert::From<BitVec> for Tbitr4to6 {
    fn from(value: BitVec) -> Self {
        Self(value)
    }
}

impl ::core::convert::From<Tbitr4to6> for BitVec {
    fn from(value: Tbitr4to6) -> Self {
        value.0
    }
}

#[asn(transparent)]

#[derive(Default, Debug, Clone, PartialEq, Hash)]
pub struct Tbitr1to70000(#[asn(bit_string(size(1..70000)))] pub BitVec);

impl Tbitr1to70000 {
}

impl Tbitr1to70000 {
    pub const fn new(value: BitVec) -> Self {
        Self(value)
    }
}

impl ::core::ops::Deref for Tbitr1to70000 {
    type Target = BitVec;

    fn deref(&self) -> &BitVec {
        &self.0
    }
}

impl ::core::ops::DerefMut for Tbitr1to70000 {
    fn deref_mut(&mut self) -> &mut BitVec {
        &mut self.0
    }
}

impl ::core::convert::From<BitVec> for Tbitr1to70000 {
    fn from(value: BitVec) -> Self {
        Self(value)
    }
}

impl ::core::convert::From<Tbitr1to70000> for BitVec {
    fn from(value: Tbitr1to70000) -> Self {
        value.0
    }
}

#[asn(transparent)]

#[derive(Default, Debug, Clone, PartialEq, Hash)]
pub struct Tbitr2tomax(#[asn(bit_string(size(2..9223372036854775807)))] pub BitVec);

impl Tbitr2tomax {
}

impl Tbitr2tomax {
    pub const fn new(value: BitVec) -> Self {
        Self(value)
    }
}

impl ::core::ops::Deref for Tbitr2tomax {
    type Target = BitVec;

    fn deref(&self) -> &BitVec {
        &self.0
    }
}

impl ::core::ops::DerefMut for Tbitr2tomax {
    fn deref_mut(&mut self) -> &mut BitVec {
        &mut self.0
    }
}

impl ::core::convert::From<BitVec> for Tbitr2tomax {
    fn from(value: BitVec) -> Self {
        Self(value)
    }
}

impl ::core::convert::From<Tbitr2tomax> for BitVec {
    fn from(value: Tbitr2tomax) -> Self {
        value.0
    }
}

#[asn(transparent)]

#[derive(Default, Debug, Clone, PartialEq, Hash)]
pub struct Tbitf3x(#[asn(bit_string(size(3,...)))] pub BitVec);

impl Tbitf3x {
}

impl Tbitf3x {
    pub const fn new(value: BitVec) -> Self {
        Self(value)
    }
}

impl ::core::ops::Deref for Tbitf3x {
    type Target = BitVec;

    fn deref(&self) -> &BitVec {
        &self.0
    }
}

impl ::core::ops::DerefMut for Tbitf3x {
    fn deref_mut(&mut self) -> &mut BitVec {
        &mut self.0
    }
}

impl ::core::convert::From<BitVec> for Tbitf3x {
    fn from(value: BitVec) -> Self {
        Self(value)
    }
}

impl ::core::convert::From<Tbitf3x> for BitVec {
    fn from(value: Tbitf3x) -> Self {
        value.0
    }
}

#[asn(transparent)]

#[derive(Default, Debug, Clone, PartialEq, Hash)]
pub struct Tbitr1to4x(#[asn(bit_string(size(1..4,...)))] pub BitVec);

impl Tbitr1to4x {
}

impl Tbitr1to4x {
    pub const fn new(value: BitVec) -> Self {
        Self(value)
    }
}

impl ::core::ops::Deref for Tbitr1to4x {
    type Target = BitVec;

    fn deref(&self) -> &BitVec {
        &self.0
    }
}

impl ::core::ops::DerefMut for Tbitr1to4x {
    fn deref_mut(&mut self) -> &mut BitVec {
        &mut self.0
    }
}

impl ::core::convert::From<BitVec> for Tbitr1to4x {
    fn from(value: BitVec) -> Self {
        Self(value)
    }
}

impl ::core::convert::From<Tbitr1to4x> for BitVec {
    fn from(value: Tbitr1to4x) -> Self {
        value.0
    }
}
// ---- harness conversions (generated by the zoo build script from the items above) ----
impl FromValue for Tbitany { fn from_value(v: &Value) -> Self { Tbitany(FromValue::from_value(v)) } }
impl ToValue for Tbitany { fn to_value(&self) -> Value { self.0.to_value() } }
impl FromValue for Tbitf1 { fn from_value(v: &Value) -> Self { Tbitf1(FromValue::from_value(v)) } }
impl ToValue for Tbitf1 { fn to_value(&self) -> Value { self.0.to_value() } }
impl FromValue for Tbitf3 { fn from_value(v: &Value) -> Self { Tbitf3(FromValue::from_value(v)) } }
impl ToValue for Tbitf3 { fn to_value(&self) -> Value { self.0.to_value() } }
impl FromValue for Tbitf65535 { fn from_value(v: &Value) -> Self { Tbitf65535(FromValue::from_value(v)) } }
impl ToValue for Tbitf65535 { fn to_value(&self) -> Value { self.0.to_value() } }
impl FromValue for Tbitf65536 { fn from_value(v: &Value) -> Self { Tbitf65536(FromValue::from_value(v)) } }
impl ToValue for Tbitf65536 { fn to_value(&self) -> Value { self.0.to_value() } }
impl FromValue for Tbitr1to4 { fn from_value(v: &Value) -> Self { Tbitr1to4(FromValue::from_value(v)) } }
impl ToValue for Tbitr1to4 { fn to_value(&self) -> Value { self.0.to_value() } }
impl FromValue for Tbitr4to6 { fn from_value(v: &Value) -> Self { Tbitr4to6(FromValue::from_value(v)) } }
impl ToValue for Tbitr4to6 { fn to_value(&self) -> Value { self.0.to_value() } }
impl FromValue for Tbitr1to70000 { fn from_value(v: &Value) -> Self { Tbitr1to70000(FromValue::from_value(v)) } }
impl ToValue for Tbitr1to70000 { fn to_value(&self) -> Value { self.0.to_value() } }
impl FromValue for Tbitr2tomax { fn from_value(v: &Value) -> Self { Tbitr2tomax(FromValue::from_value(v)) } }
impl ToValue for Tbitr2tomax { fn to_value(&self) -> Value { self.0.to_value() } }
impl FromValue for Tbitf3x { fn from_value(v: &Value) -> Self { Tbitf3x(FromValue::from_value(v)) } }
impl ToValue for Tbitf3x { fn to_value(&self) -> Value { self.0.to_value() } }
impl FromValue for Tbitr1to4x { fn from_value(v: &Value) -> Self { Tbitr1to4x(FromValue::from_value(v)) } }
impl ToValue for Tbitr1to4x { fn to_value(&self) -> Value { self.0.to_value() } }
